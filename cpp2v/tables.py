#!/usr/bin/env python3
"""cpp2v/tables.py -- regenerate coq/gen/Gen_fields.v and coq/gen/Gen_globals.v from the *current* library source.

Source of truth: clang's JSON AST (`clang++ -std=c++17 -fsyntax-only -Xclang -ast-dump=json
-Xclang -ast-dump-filter=Clipper2Lib`) of the three translation units plus a stub TU that includes every
header of include/clipper2, each in two configurations (plain, -DUSINGZ).  Facts extracted:

 Gen_fields.table      every non-static data member of the tracked classes with, per member, the list of
                       (function, kind) pairs that may modify it.  kinds: assign | compound | incdec |
                       call:<non-const member/operator called on it> | ref (passed/bound without a conversion to
                       const or to an rvalue, or address taken) | range (iterated by a range-for whose range
                       reference is not const).  Over-approximating by construction: an lvalue
                       use counts as a write unless clang inserted LValueToRValue / NoOp-to-const around it.
 Gen_fields.calls      direct call edges between functions defined in the library (qualified Class::fn names).
 Gen_fields.shared_writes   the same write facts for the classes whose objects are shared between clippers
                       (Vertex, LocalMinima, ReuseableDataContainer64) with a flag: is the writing function
                       reachable from Clipper64/ClipperD::Execute or ClipperBase::ExecuteInternal?
 Gen_globals.table     every object with static storage duration declared in a library file (namespace scope,
                       class static, function-local static) with type text, const/constexpr/thread_local,
                       enclosing preprocessor guard, file:line, and the (function, kind) pairs that may modify it.
                       Two textual safety nets add rows of kind "unscanned" (which no predicate accepts):
                       (1) text of a library file that lies outside every `namespace Clipper2Lib` range and is not
                       a comment or preprocessor directive (the AST filter cannot see it), (2) a `static` /
                       `thread_local` / `extern` keyword on a line where the AST has no declaration in either
                       configuration (code hidden in a preprocessor branch that is not compiled here).

The translator is in the trusted base.  Output is cached under /verif/.cache by a hash of the library files and
of this script; the .v files are only rewritten when their content changes (so make does not rebuild needlessly).
"""
import concurrent.futures as cf
import glob, hashlib, json, os, re, subprocess, sys, time

HERE = os.path.dirname(os.path.abspath(__file__))
VERIF = os.path.dirname(HERE)
sys.path.insert(0, os.path.join(VERIF, 'lib'))
import vf  # noqa: E402

FIELD_CLASSES = ['ClipperBase', 'Clipper64', 'ClipperD', 'ClipperOffset', 'RectClip64', 'RectClipLines64']
SHARED_CLASSES = ['Vertex', 'LocalMinima', 'ReuseableDataContainer64']
EXEC_ROOTS = ['Clipper64::Execute', 'ClipperD::Execute', 'ClipperBase::ExecuteInternal']
CONFIGS = [('plain', []), ('USINGZ', ['-DUSINGZ'])]
FUNC_KINDS = ('FunctionDecl', 'CXXMethodDecl', 'CXXConstructorDecl', 'CXXDestructorDecl', 'CXXConversionDecl')
sys.setrecursionlimit(20000)


# ------------------------------------------------------------------------------------------------ clang
def _clang_dump(tu, defs, flt='Clipper2Lib'):
    cmd = ['clang++', '-std=c++17', '-fsyntax-only', '-w', '-I' + vf.INC, '-I' + vf.SRC] + defs + \
          ['-Xclang', '-ast-dump=json', '-Xclang', '-ast-dump-filter=' + flt, tu]
    p = subprocess.run(cmd, stdout=subprocess.PIPE, stderr=subprocess.PIPE, timeout=300)
    if p.returncode != 0:
        raise RuntimeError('clang failed on %s %s:\n%s' % (tu, defs, p.stderr.decode(errors='replace')[-3000:]))
    s = p.stdout.decode(errors='replace')
    dec = json.JSONDecoder()
    docs, i, n = [], 0, len(s)
    while i < n:
        while i < n and s[i].isspace():
            i += 1
        if i >= n:
            break
        if s[i] != '{':           # "Dumping Clipper2Lib:" banner lines, if any
            j = s.find('\n', i)
            i = n if j < 0 else j + 1
            continue
        d, i = dec.raw_decode(s, i)
        docs.append(d)
    return docs


class LocState:
    """clang's JSON prints `file` and `line` of a source location only when they differ from the previously
    printed location; resolve them by visiting every location in document order."""
    def __init__(self):
        self.file, self.line = None, None

    def bare(self, d):
        if 'file' in d:
            self.file = d['file']
        if 'line' in d:
            self.line = d['line']
        d['_f'], d['_l'] = self.file, self.line

    def annotate(self, node):
        stack = [node]
        # iterative in-order traversal (document order == dict insertion order)
        while stack:
            x = stack.pop()
            if isinstance(x, dict):
                if 'offset' in x and ('col' in x or 'line' in x or 'file' in x):
                    self.bare(x)
                    continue            # includedFrom below a bare loc carries no state
                if 'spellingLoc' in x or 'expansionLoc' in x:
                    for k in x:       # in order
                        if k in ('spellingLoc', 'expansionLoc') and isinstance(x[k], dict):
                            self.bare(x[k])
                    continue
                vals = [v for v in x.values() if isinstance(v, (dict, list))]
                stack.extend(reversed(vals))
            elif isinstance(x, list):
                stack.extend(reversed([v for v in x if isinstance(v, (dict, list))]))


def node_loc(n):
    """(file, line) of a declaration: the expansion location when it comes from a macro."""
    l = n.get('loc') or {}
    if 'expansionLoc' in l:
        l = l['expansionLoc']
    if '_f' not in l:
        r = (n.get('range') or {}).get('begin') or {}
        if 'expansionLoc' in r:
            r = r['expansionLoc']
        l = r
    return l.get('_f'), l.get('_l')


def qt(n):
    t = n.get('type') or {}
    return t.get('qualType', ''), t.get('desugaredQualType', t.get('qualType', ''))


def top_const(ty):
    """is the object type const-qualified at top level (text of clang's qualType)?"""
    ty = ty.strip()
    if '(*' in ty or '(&' in ty:                      # pointer/reference to function or array
        return bool(re.search(r'\(\*\s*const\b', ty))
    if '*' in ty:
        return 'const' in ty[ty.rfind('*'):]
    ty2 = re.sub(r'<.*>', '<>', ty)                   # ignore template arguments
    return bool(re.match(r'^const\b', ty2) or re.search(r'\bconst$', ty2) or re.search(r'\bconst\s*\[', ty2))


# ------------------------------------------------------------------------------------------------ extraction
class Facts:
    def __init__(self):
        self.fields = {}      # (class, name) -> dict(type, file, line, configs:set)
        self.field_order = []  # first-seen order
        self.writes = {}      # (class, name) -> set((fn, kind))
        self.globals = {}     # (file, line, name) -> dict(...)
        self.gwrites = {}     # (file, line, name) -> set((fn, kind))
        self.calls = set()    # (caller, callee)
        self.funcs = set()    # qualified names of functions with a body defined in library files
        self.ns_ranges = {}   # file -> set((begin_offset, end_offset))
        self.static_lines = set()   # (file, line) of every AST decl that explains a storage keyword
        self.spans = set()          # (file, first line, last line) of top-level decls found outside the namespace

    def merge(self, o):
        for k, v in o.fields.items():
            if k not in self.fields:
                self.fields[k] = v
                self.field_order.append(k)
            else:
                self.fields[k]['configs'] |= v['configs']
        for k, v in o.writes.items():
            self.writes.setdefault(k, set()).update(v)
        for k, v in o.globals.items():
            if k not in self.globals:
                self.globals[k] = v
            else:
                self.globals[k]['configs'] |= v['configs']
        for k, v in o.gwrites.items():
            self.gwrites.setdefault(k, set()).update(v)
        self.calls |= o.calls
        self.funcs |= o.funcs
        for f, r in o.ns_ranges.items():
            self.ns_ranges.setdefault(f, set()).update(r)
        self.static_lines |= o.static_lines
        self.spans |= o.spans


def in_lib(f):
    return bool(f) and os.path.realpath(f).startswith(os.path.realpath(vf.LIB) + os.sep)


def relf(f):
    return os.path.relpath(os.path.realpath(f), os.path.realpath(vf.LIB))


class Extractor:
    def __init__(self, docs, config):
        self.docs, self.config = docs, config
        self.F = Facts()
        self.rec_name = {}     # id -> record name (CXXRecordDecl, all redeclarations)
        self.field_of = {}     # FieldDecl id -> (class, name)
        self.fn_name = {}      # function decl id -> qualified name
        self.gvar_of = {}      # VarDecl id -> global key
        self.tracked = set(FIELD_CLASSES + SHARED_CLASSES)

    # -- pass 1: declarations ------------------------------------------------------------------
    def index(self, n, rec=None, fn=None):
        k = n.get('kind')
        if k == 'NamespaceDecl' and n.get('name') == 'Clipper2Lib':
            f, _ = node_loc(n)
            r = n.get('range') or {}
            b, e = r.get('begin', {}), r.get('end', {})
            if 'expansionLoc' in b:
                b = b['expansionLoc']
            if 'expansionLoc' in e:
                e = e['expansionLoc']
            if in_lib(f) and 'offset' in b and 'offset' in e and e.get('_f') == f:
                self.F.ns_ranges.setdefault(relf(f), set()).add((b['offset'], e['offset']))
        if k in ('CXXRecordDecl', 'ClassTemplateSpecializationDecl') and n.get('name'):
            self.rec_name[n['id']] = n['name']
            rec = n['name'] if 'inner' in n else rec
        if k == 'FieldDecl' and rec is not None:
            self.field_of[n['id']] = (rec, n.get('name', ''))
            if rec in FIELD_CLASSES or rec in SHARED_CLASSES:
                f, l = node_loc(n)
                key = (rec, n.get('name', ''))
                if key not in self.F.fields:
                    self.F.fields[key] = dict(type=qt(n)[0], file=relf(f) if in_lib(f) else str(f), line=l or 0,
                                              configs={self.config}, mutable=bool(n.get('mutable')))
                    self.F.field_order.append(key)
        if k in FUNC_KINDS:
            owner = rec
            pid = n.get('parentDeclContextId')
            if pid and pid in self.rec_name:
                owner = self.rec_name[pid]
            name = n.get('name', '?')
            q = (owner + '::' + name) if (owner and k != 'FunctionDecl') or (owner and pid in self.rec_name) else name
            if k == 'FunctionDecl' and rec is not None and not pid:
                q = rec + '::' + name            # static member function / friend defined in class
            self.fn_name[n['id']] = q
            f, l = node_loc(n)
            if n.get('storageClass') == 'static' and in_lib(f):
                self.F.static_lines.add((relf(f), l))
            if fn is None and any(c.get('kind') == 'CompoundStmt' for c in n.get('inner', []) if isinstance(c, dict)):
                if in_lib(f):
                    self.F.funcs.add(q)
            for c in n.get('inner', []):
                if isinstance(c, dict):
                    self.index(c, rec, fn or q)
            return
        if k == 'VarDecl':
            f, l = node_loc(n)
            static_storage = (fn is None) or n.get('storageClass') in ('static', 'extern') or ('tls' in n)
            if in_lib(f) and (n.get('storageClass') in ('static', 'extern') or 'tls' in n):
                self.F.static_lines.add((relf(f), l))
            if static_storage and in_lib(f):
                kind = 'function-local' if fn is not None else ('class-static' if rec is not None else 'namespace')
                t, dt = qt(n)
                key = (relf(f), l or 0, n.get('name', '?'))
                self.gvar_of[n['id']] = key
                if key not in self.F.globals:
                    self.F.globals[key] = dict(
                        name=n.get('name', '?'), type=t, kind=kind, owner=fn or rec or '',
                        const=top_const(dt) or top_const(t), constexpr=bool(n.get('constexpr')),
                        tls=('tls' in n), configs={self.config})
        for c in n.get('inner', []):
            if isinstance(c, dict):
                self.index(c, rec, fn)

    # -- pass 2: bodies --------------------------------------------------------------------------
    def bodies(self, n, rec=None, fn=None):
        k = n.get('kind')
        if k in ('CXXRecordDecl', 'ClassTemplateSpecializationDecl') and 'inner' in n and n.get('name'):
            rec = n['name']
        if k in FUNC_KINDS and fn is None:
            q = self.fn_name.get(n['id'], n.get('name', '?'))
            f, _ = node_loc(n)
            ret = qt(n)[0].split('(')[0].strip()
            self.ret_nonconst_ref = ret.endswith('&') and not ret.startswith('const ')
            for c in n.get('inner', []):
                if not isinstance(c, dict):
                    continue
                if c.get('kind') == 'CompoundStmt':
                    self.visit(c, 'none', q)
                elif c.get('kind') == 'CXXCtorInitializer':
                    for cc in c.get('inner', []):
                        self.visit(cc, 'none', q)
            return
        for c in n.get('inner', []):
            if isinstance(c, dict):
                self.bodies(c, rec, fn)

    def record_write(self, node, fn, kind):
        """node is an lvalue expression used in a modifying context: attribute the write to every tracked
        member / static object it denotes (sub-objects propagate to their containing member)."""
        while True:
            k = node.get('kind')
            if k in ('ParenExpr', 'ExprWithCleanups', 'CXXBindTemporaryExpr', 'MaterializeTemporaryExpr'):
                inner = [c for c in node.get('inner', []) if isinstance(c, dict)]
                if not inner:
                    return
                node = inner[0]
                continue
            if k == 'ImplicitCastExpr':
                ck = node.get('castKind')
                if ck == 'LValueToRValue':
                    return
                if ck == 'NoOp' and top_const(qt(node)[0]):
                    return
                node = node['inner'][0]
                continue
            if k in ('MemberExpr', 'DeclRefExpr') and (top_const(qt(node)[0]) or top_const(qt(node)[1])):
                return                      # a const lvalue (const member, member of a const object): not modifiable
            if k == 'MemberExpr':
                fid = node.get('referencedMemberDecl')
                if fid in self.field_of:
                    key = self.field_of[fid]
                    if key[0] in self.tracked:
                        self.F.writes.setdefault(key, set()).add((fn, kind))
                if node.get('isArrow'):
                    return
                inner = [c for c in node.get('inner', []) if isinstance(c, dict)]
                if not inner:
                    return
                node = inner[0]
                continue
            if k == 'ArraySubscriptExpr':
                node = node['inner'][0]
                continue
            if k == 'DeclRefExpr':
                rd = node.get('referencedDecl') or {}
                if rd.get('id') in self.gvar_of:
                    self.F.gwrites.setdefault(self.gvar_of[rd['id']], set()).add((fn, kind))
                return
            if k == 'ConditionalOperator':
                self.record_write(node['inner'][1], fn, kind)
                node = node['inner'][2]
                continue
            if k == 'CXXOperatorCallExpr':
                # x[i] = ..., *it = ...: the container operand was already visited in write mode by visit()
                return
            return

    def callee_name(self, node):
        k = node.get('kind')
        if k == 'ImplicitCastExpr' or k == 'ParenExpr':
            return self.callee_name(node['inner'][0])
        if k == 'DeclRefExpr':
            rd = node.get('referencedDecl') or {}
            return self.fn_name.get(rd.get('id')), rd.get('name')
        if k == 'MemberExpr':
            return self.fn_name.get(node.get('referencedMemberDecl')), node.get('name')
        return None, None

    def visit(self, n, mode, fn, via=None):
        """mode: how the value of this expression is used by its parent: 'write' (may be modified: kind in
        `via`), 'none' (read or discarded)."""
        k = n.get('kind')
        inner = [c for c in n.get('inner', []) if isinstance(c, dict)]
        if k == 'ImplicitCastExpr':
            ck = n.get('castKind')
            if ck == 'LValueToRValue' or (ck == 'NoOp' and top_const(qt(n)[0])):
                mode = 'none'
            for c in inner:
                self.visit(c, mode, fn, via)
            return
        if k in ('ParenExpr', 'ExprWithCleanups', 'CXXBindTemporaryExpr', 'MaterializeTemporaryExpr',
                 'CXXConstCastExpr', 'CXXStaticCastExpr', 'CXXReinterpretCastExpr', 'CStyleCastExpr',
                 'CXXFunctionalCastExpr'):
            if k in ('CXXStaticCastExpr', 'CStyleCastExpr', 'CXXFunctionalCastExpr') and n.get('valueCategory') == 'prvalue':
                mode = 'none'
            for c in inner:
                self.visit(c, mode, fn, via)
            return
        if k == 'MemberExpr':
            if qt(n)[0] == '<bound member function type>':
                for c in inner:
                    self.visit(c, 'none', fn)
                return
            if mode == 'write':
                self.record_write(n, fn, via or 'ref')
            for c in inner:
                self.visit(c, 'none' if n.get('isArrow') else mode, fn, via)
            return
        if k == 'DeclRefExpr':
            if mode == 'write':
                self.record_write(n, fn, via or 'ref')
            rd = n.get('referencedDecl') or {}
            if rd.get('kind') in FUNC_KINDS and rd.get('id') in self.fn_name:
                self.F.calls.add((fn, self.fn_name[rd['id']]))
            return
        if k == 'ArraySubscriptExpr':
            self.visit(inner[0], mode, fn, via)
            for c in inner[1:]:
                self.visit(c, 'none', fn)
            return
        if k == 'BinaryOperator' and n.get('opcode') == '=':
            self.visit(inner[0], 'write', fn, 'assign')
            self.visit(inner[1], 'none', fn)
            return
        if k == 'CompoundAssignOperator':
            self.visit(inner[0], 'write', fn, 'compound')
            self.visit(inner[1], 'none', fn)
            return
        if k == 'UnaryOperator':
            op = n.get('opcode')
            if op in ('++', '--'):
                self.visit(inner[0], 'write', fn, 'incdec')
            elif op == '&':
                self.visit(inner[0], 'write', fn, 'ref')
            else:
                for c in inner:
                    self.visit(c, 'none', fn)
            return
        if k == 'CXXMemberCallExpr':
            callee = inner[0]
            q, nm = self.callee_name(callee)
            if q:
                self.F.calls.add((fn, q))
            if callee.get('kind') == 'MemberExpr':
                for c in [c for c in callee.get('inner', []) if isinstance(c, dict)]:
                    self.visit(c, 'write', fn, 'call:%s' % nm)
            else:
                self.visit(callee, 'none', fn)
            for c in inner[1:]:
                self.visit(c, 'write', fn, 'ref')
            return
        if k == 'CXXOperatorCallExpr':
            q, nm = self.callee_name(inner[0])
            if q:
                self.F.calls.add((fn, q))
            first = True
            for c in inner[1:]:
                if first and nm == 'operator=':
                    self.visit(c, 'write', fn, 'assign')
                elif first:
                    self.visit(c, 'write', fn, 'call:%s' % nm)
                else:
                    self.visit(c, 'write', fn, 'ref')
                first = False
            return
        if k in ('CallExpr', 'CXXConstructExpr', 'CXXTemporaryObjectExpr', 'CXXNewExpr', 'InitListExpr',
                 'CXXUnresolvedConstructExpr', 'CXXParenListInitExpr'):
            start = 0
            if k == 'CallExpr' and inner:
                q, nm = self.callee_name(inner[0])
                if q:
                    self.F.calls.add((fn, q))
                self.visit(inner[0], 'none', fn)
                start = 1
            if k == 'CXXConstructExpr' or k == 'CXXTemporaryObjectExpr':
                pass
            for c in inner[start:]:
                self.visit(c, 'write', fn, 'ref')
            return
        if k == 'ConditionalOperator':
            self.visit(inner[0], 'none', fn)
            for c in inner[1:]:
                self.visit(c, mode, fn, via)
            return
        if k == 'VarDecl':
            t = qt(n)[0].strip()
            isref = t.endswith('&') or '(&)' in t or '(&&)' in t     # incl. reference to array
            via_ = 'range' if str(n.get('name', '')).startswith('__range') else 'ref'   # for (T& x : member)
            for c in inner:
                self.visit(c, 'write' if isref and not t.startswith('const ') else 'none', fn, via_)
            return
        if k == 'ReturnStmt':
            for c in inner:
                self.visit(c, 'write' if getattr(self, 'ret_nonconst_ref', False) else 'none', fn, 'ref')
            return
        if k == 'LambdaExpr':
            for c in inner:
                if c.get('kind') == 'CXXRecordDecl':
                    for m in c.get('inner', []):
                        if isinstance(m, dict) and m.get('kind') == 'CXXMethodDecl' and m.get('name') == 'operator()':
                            for b in m.get('inner', []):
                                if isinstance(b, dict) and b.get('kind') == 'CompoundStmt':
                                    self.visit(b, 'none', fn)
                elif c.get('kind') != 'CompoundStmt':        # capture initialisers (by reference => may modify)
                    self.visit(c, 'write', fn, 'ref')
            return
        if k in FUNC_KINDS or k in ('CXXRecordDecl',):
            return     # local class / function declaration: handled through LambdaExpr only
        for c in inner:
            self.visit(c, 'none', fn)

    def run(self):
        for d in self.docs:
            self.index(d)
        for d in self.docs:
            self.bodies(d)
        return self.F


def _work(job):
    tu, cname, defs = job[:3]
    flt = job[3] if len(job) > 3 else 'Clipper2Lib'
    docs = _clang_dump(tu, defs, flt)
    ls = LocState()
    for d in docs:
        ls.annotate(d)
    if flt != 'Clipper2Lib':
        # identifier-filtered dump (declarations outside namespace Clipper2Lib): keep only top-level declarations
        # located in library files and not inside the namespace (those are covered by the main dump)
        keep = []
        for d in docs:
            f, l = node_loc(d)
            if d.get('kind') == 'NamespaceDecl' or not in_lib(f):
                continue
            keep.append(d)
        ex = Extractor(keep, cname)
        F = ex.run()
        for d in keep:
            f, l = node_loc(d)
            e = ((d.get('range') or {}).get('end') or {})
            if 'expansionLoc' in e:
                e = e['expansionLoc']
            l2 = e.get('_l') if e.get('_f') == f else l
            F.spans.add((relf(f), l or 0, max(l or 0, l2 or 0)))
        for k in F.globals:
            F.globals[k]['kind'] = 'global-scope' if F.globals[k]['kind'] == 'namespace' else F.globals[k]['kind']
        return F
    ex = Extractor(docs, cname)
    return ex.run()


# ------------------------------------------------------------------------------------------------ text nets
def strip_comments_keep_layout(txt):
    """replace comments and string/char literals by spaces (newlines kept)"""
    out, i, n = [], 0, len(txt)
    while i < n:
        c = txt[i]
        if txt.startswith('//', i):
            j = txt.find('\n', i)
            j = n if j < 0 else j
            out.append(' ' * (j - i)); i = j
        elif txt.startswith('/*', i):
            j = txt.find('*/', i + 2)
            j = n if j < 0 else j + 2
            out.append(re.sub(r'[^\n]', ' ', txt[i:j])); i = j
        elif c == '"' or c == "'":
            j = i + 1
            while j < n and txt[j] != c:
                j += 2 if txt[j] == '\\' else 1
            j = min(n, j + 1)
            out.append(c + ' ' * (j - i - 2) + c if j - i >= 2 else txt[i:j]); i = j
        else:
            out.append(c); i += 1
    return ''.join(out)


def blank_directives(txt):
    """blank out preprocessor directives (incl. continuation lines)"""
    lines = txt.split('\n')
    res, cont = [], False
    for ln in lines:
        if cont or re.match(r'\s*#', ln):
            cont = ln.rstrip().endswith('\\')
            res.append(' ' * len(ln))
        else:
            res.append(ln)
    return '\n'.join(res)


def guards_at(path):
    """per line: the stack of enclosing #if/#ifdef conditions (the include guard excluded)"""
    lines = vf.read(path).split('\n')
    stack, res = [], []
    first_ifndef = True
    for ln in lines:
        m = re.match(r'\s*#\s*(ifdef|ifndef|if|elif|else|endif)\b(.*)', ln)
        if m:
            d, rest = m.group(1), m.group(2).strip()
            rest = re.sub(r'/[/*].*', '', rest).strip()
            if d in ('ifdef', 'ifndef', 'if'):
                cond = ('!' if d == 'ifndef' else '') + rest
                if d == 'ifndef' and first_ifndef and re.match(r'^[A-Z0-9_]+_H_?$', rest):
                    cond = None              # include guard
                first_ifndef = False
                stack.append(cond)
            elif d == 'elif' and stack:
                stack[-1] = rest
            elif d == 'else' and stack:
                stack[-1] = ('!(%s)' % stack[-1]) if stack[-1] else stack[-1]
            elif d == 'endif' and stack:
                stack.pop()
        res.append(' && '.join(s for s in stack if s))
    return res


CXX_KEYWORDS = set("""alignas alignof and asm auto bool break case catch char class const constexpr const_cast continue
decltype default delete do double dynamic_cast else enum explicit export extern false float for friend goto if inline
int long mutable namespace new noexcept not nullptr operator or private protected public register reinterpret_cast
return short signed sizeof static static_assert static_cast struct switch template this thread_local throw true try
typedef typeid typename union unsigned using virtual void volatile wchar_t while int64_t uint64_t size_t std C""".split())


def clean_text(rel):
    p = os.path.join(vf.LIB, rel)
    rawb = open(p, 'rb').read()        # clang offsets are byte offsets
    return blank_directives(strip_comments_keep_layout(rawb.decode('latin-1')))


def residue_lines(F, rel):
    """(line, text) of code that lies outside every `namespace Clipper2Lib {...}` range of the file"""
    keep = list(clean_text(rel))
    for (b, e) in F.ns_ranges.get(rel, ()):       # e is the offset of the closing brace
        for i in range(b, min(e + 1, len(keep))):
            if keep[i] != '\n':
                keep[i] = ' '
    return [(ln, s_) for ln, s_ in enumerate(''.join(keep).split('\n'), 1) if s_.strip()]


def text_nets(F):
    """rows for text the AST scan cannot account for"""
    rows = []
    for rel in vf.LIB_FILES:
        if not os.path.exists(os.path.join(vf.LIB, rel)):
            continue
        # (1) residue outside the namespace that no identifier-filtered dump explained
        for ln, s_ in residue_lines(F, rel):
            if any(f == rel and a <= ln <= b for (f, a, b) in F.spans):
                continue
            rows.append(dict(name='<text outside namespace Clipper2Lib>', type=s_.strip()[:60], kind='unscanned',
                             owner='', const=False, constexpr=False, tls=False, file=rel, line=ln, guard='',
                             writes=[]))
            break                      # one row per file is enough to fail the predicate
        # (2) storage keywords not explained by an AST declaration on that line
        for ln, s_ in enumerate(clean_text(rel).split('\n'), 1):
            for m in re.finditer(r'\b(static|thread_local|extern)\b(?!\s*"\s*")', s_):
                if re.match(r'static_(cast|assert)', s_[m.start():]):
                    continue
                if any((rel, ln + d) in F.static_lines for d in (0, 1, 2, 3)):
                    continue           # (a declaration may span lines)
                rows.append(dict(name='<%s keyword not seen by the AST>' % m.group(1), type=s_.strip()[:60],
                                 kind='unscanned', owner='', const=False, constexpr=False, tls=False, file=rel,
                                 line=ln, guard='', writes=[]))
    return rows


# ------------------------------------------------------------------------------------------------ Coq output
def cs(s):
    s = ''.join(ch if 32 <= ord(ch) < 127 else '?' for ch in str(s))
    return '"' + s.replace('"', '""') + '"'


def cb(b):
    return 'true' if b else 'false'


def clist(items, indent='      '):
    if not items:
        return '[]'
    return '[' + ('; ').join(items) + ']'


def build_tables():
    t0 = time.time()
    stub_dir = os.path.join(vf.CACHE, 'tables')
    os.makedirs(stub_dir, exist_ok=True)
    # clipper.export.h is meant to be the only header of its TU (its C functions RectClip64/... hide the classes of
    # the same name in clipper.h's inline functions), so it gets a stub of its own
    hdrs = sorted(glob.glob(os.path.join(vf.INC, 'clipper2', '*.h')))
    stubs = []
    for tag, hs in (('a', [h for h in hdrs if not h.endswith('clipper.export.h')]),
                    # export.h is not self-contained (uses MinkowskiSum/Diff without including the header)
                    ('b', [h for h in hdrs if not h.endswith('clipper.h') and not h.endswith('clipper.export.h')] +
                          [h for h in hdrs if h.endswith('clipper.export.h')])):
        if not hs:
            continue
        stub = os.path.join(stub_dir, 'hdrs_stub_%s_%d.cpp' % (tag, os.getpid()))
        with open(stub, 'w') as f:
            for h in hs:
                f.write('#include "clipper2/%s"\n' % os.path.basename(h))
        stubs.append(stub)
    tus = sorted(glob.glob(os.path.join(vf.SRC, '*.cpp'))) + stubs
    jobs = [(tu, cname, defs) for tu in tus for (cname, defs) in CONFIGS]
    F = Facts()
    try:
        with cf.ProcessPoolExecutor(max_workers=min(len(jobs), vf.NPROC)) as ex:
            for part in ex.map(_work, jobs):
                F.merge(part)
        # declarations outside namespace Clipper2Lib are invisible to the namespace filter: look each identifier
        # of that text up with an identifier filter (cheap: today only CLIPPER2_VERSION in clipper.version.h)
        jobs2, idents = [], []
        for rel in vf.LIB_FILES:
            if not os.path.exists(os.path.join(vf.LIB, rel)):
                continue
            ids = []
            for ln, s_ in residue_lines(F, rel):
                for w in re.findall(r'[A-Za-z_]\w*', s_):
                    if w not in CXX_KEYWORDS and w not in ids:
                        ids.append(w)
            where = [t for t in tus if t.endswith(os.path.basename(rel))] if rel.startswith('src/') else stubs
            for w in ids[:24]:
                idents.append((rel, w))
                jobs2 += [(tu, cname, defs, w) for tu in where for (cname, defs) in CONFIGS]
        if jobs2:
            with cf.ProcessPoolExecutor(max_workers=min(len(jobs2), vf.NPROC)) as ex:
                for part in ex.map(_work, jobs2):
                    F.merge(part)
    finally:
        for stub in stubs:
            try:
                os.remove(stub)
            except OSError:
                pass
    # call graph closure from the Execute roots
    succ = {}
    for a, b in F.calls:
        succ.setdefault(a, set()).add(b)
    reach, todo = set(), [r for r in EXEC_ROOTS]
    while todo:
        x = todo.pop()
        if x in reach:
            continue
        reach.add(x)
        todo.extend(succ.get(x, ()))
    gcache = {}

    def guard(rel, line):
        if rel not in gcache:
            p = os.path.join(vf.LIB, rel)
            gcache[rel] = guards_at(p) if os.path.exists(p) else []
        g = gcache[rel]
        return g[line - 1] if 0 < line <= len(g) else ''

    nconf = len(CONFIGS)
    fields = []
    for key in F.field_order:
        cls, name = key
        if cls not in FIELD_CLASSES:
            continue
        d = F.fields[key]
        g = guard(d['file'], d['line'])
        if not g and len(d['configs']) < nconf:
            g = '&&'.join(sorted(d['configs']))
        fields.append(dict(cls=cls, name=name, type=d['type'], guard=g, file=d['file'], line=d['line'],
                           writes=sorted(F.writes.get(key, ()))))
    shared = []
    for key in F.field_order:
        cls, name = key
        if cls not in SHARED_CLASSES:
            continue
        for (fn, kind) in sorted(F.writes.get(key, ())):
            shared.append(dict(cls=cls, name=name, fn=fn, kind=kind, in_exec=fn in reach))
    shared_fields = [k for k in F.field_order if k[0] in SHARED_CLASSES]
    globs = []
    for key in sorted(F.globals):
        d = F.globals[key]
        g = guard(key[0], key[1])
        if not g and len(d['configs']) < nconf:
            g = '&&'.join(sorted(d['configs']))
        globs.append(dict(name=d['name'], type=d['type'], kind=d['kind'], owner=d['owner'], const=d['const'],
                          constexpr=d['constexpr'], tls=d['tls'], file=key[0], line=key[1], guard=g,
                          writes=sorted(F.gwrites.get(key, ()))))
    globs += text_nets(F)
    lib_calls = sorted((a, b) for (a, b) in F.calls if a in F.funcs and b in F.funcs)
    return dict(fields=fields, shared=shared, shared_fields=shared_fields, globals=globs, calls=lib_calls,
                reach=sorted(reach & F.funcs), funcs=sorted(F.funcs), wall=time.time() - t0)


HEADER = ('(* GENERATED by cpp2v/tables.py from the current library source -- do not edit.\n'
          '   Regenerated on every ./check C12 / C14 run; see the docstring of cpp2v/tables.py. *)\n'
          'From Coq Require Import String List NArith Bool.\nImport ListNotations.\nLocal Open Scope string_scope.\n\n')


def render_fields(T):
    o = [HEADER]
    o.append('Record field := mkField { f_class : string; f_name : string; f_type : string; f_guard : string;\n'
             '  f_writes : list (string * string) (* function, kind *) }.\n\n')
    o.append('Definition table : list field := [\n')
    rows = []
    for f in T['fields']:
        w = clist(['(%s, %s)' % (cs(a), cs(b)) for a, b in f['writes']])
        rows.append('  mkField %s %s %s %s\n    %s' % (cs(f['cls']), cs(f['name']), cs(f['type']), cs(f['guard']), w))
    o.append(';\n'.join(rows) + '\n].\n\n')
    o.append('(* direct call edges between functions defined in the library *)\n')
    o.append('Definition calls : list (string * string) := [\n')
    o.append(';\n'.join('  (%s, %s)' % (cs(a), cs(b)) for a, b in T['calls']) + '\n].\n\n')
    o.append('Record swrite := mkSW { w_class : string; w_field : string; w_fn : string; w_kind : string;\n'
             '  w_in_execute : bool (* w_fn reachable from Clipper64/ClipperD::Execute or ClipperBase::ExecuteInternal *) }.\n\n')
    o.append('(* members of the classes whose objects are shared between clippers *)\n')
    o.append('Definition shared_fields : list (string * string) := %s.\n\n'
             % clist(['(%s, %s)' % (cs(a), cs(b)) for a, b in T['shared_fields']]))
    o.append('Definition shared_writes : list swrite := [\n')
    o.append(';\n'.join('  mkSW %s %s %s %s %s' % (cs(s['cls']), cs(s['name']), cs(s['fn']), cs(s['kind']), cb(s['in_exec']))
                        for s in T['shared']) + '\n].\n\n')
    o.append('(* functions reachable from the Execute roots (for the evidence; shared_writes carries the flag) *)\n')
    o.append('Definition execute_reach_count : N := %d%%N.\n' % len(T['reach']))
    return ''.join(o)


def render_globals(T):
    o = [HEADER]
    o.append('Record gobj := mkG { g_name : string; g_type : string; g_kind : string (* namespace | class-static | function-local | unscanned *);\n'
             '  g_owner : string; g_const : bool; g_constexpr : bool; g_thread_local : bool; g_guard : string;\n'
             '  g_file : string; g_line : N; g_writes : list (string * string) }.\n\n')
    o.append('Definition table : list gobj := [\n')
    rows = []
    for g in T['globals']:
        w = clist(['(%s, %s)' % (cs(a), cs(b)) for a, b in g['writes']])
        rows.append('  mkG %s %s %s %s %s %s %s %s\n    %s %d%%N %s' % (
            cs(g['name']), cs(g['type']), cs(g['kind']), cs(g['owner']), cb(g['const']), cb(g['constexpr']),
            cb(g['tls']), cs(g['guard']), cs(g['file']), g['line'], w))
    o.append(';\n'.join(rows) + '\n].\n')
    return ''.join(o)


def write_if_changed(path, txt):
    if os.path.exists(path) and vf.read(path) == txt:
        return False
    tmp = path + '.tmp%d' % os.getpid()
    with open(tmp, 'w') as f:
        f.write(txt)
    os.replace(tmp, path)
    return True


def generate(log=None):
    """Regenerate both tables from vf.LIB (cached by content hash).  Returns the table dict (json-able)."""
    key = vf.sha(vf.repo_lib_hash(), vf.read(os.path.abspath(__file__)), os.path.realpath(vf.LIB))[:32]
    cdir = os.path.join(vf.CACHE, 'tables')
    os.makedirs(cdir, exist_ok=True)
    cpath = os.path.join(cdir, key + '.json')
    with vf.Lock('tables'):
        if os.path.exists(cpath):
            T = json.load(open(cpath))
            T['cached'] = True
        else:
            T = build_tables()
            T['cached'] = False
            tmp = cpath + '.tmp%d' % os.getpid()
            json.dump(T, open(tmp, 'w'))
            os.replace(tmp, cpath)
            old = sorted(glob.glob(os.path.join(cdir, '*.json')), key=os.path.getmtime)
            for f in old[:-20]:
                os.remove(f)
        gen = os.path.join(vf.COQ, 'gen')
        os.makedirs(gen, exist_ok=True)
        c1 = write_if_changed(os.path.join(gen, 'Gen_fields.v'), render_fields(T))
        c2 = write_if_changed(os.path.join(gen, 'Gen_globals.v'), render_globals(T))
    if log:
        log('tables: %d fields, %d shared-class writes, %d static-storage objects, %d call edges (%s, %.1fs)%s'
            % (len(T['fields']), len(T['shared']), len(T['globals']), len(T['calls']),
               'cached' if T['cached'] else 'regenerated', T.get('wall', 0.0),
               '; Gen files rewritten' if (c1 or c2) else ''))
    return T


if __name__ == '__main__':
    T = generate(log=print)
    if '-v' in sys.argv:
        for f in T['fields']:
            print('%-16s %-24s %-40s [%s] %s' % (f['cls'], f['name'], f['type'][:40], f['guard'],
                                               ' '.join('%s:%s' % (a.split('::')[-1], b) for a, b in f['writes'])))
        print()
        for s in T['shared']:
            print('shared', s)
        print()
        for g in T['globals']:
            print('%-28s %-34s %-14s const=%d cexpr=%d tls=%d [%s] %s:%d %s' % (
                g['name'], g['type'][:34], g['kind'], g['const'], g['constexpr'], g['tls'], g['guard'], g['file'],
                g['line'], g['writes']))
