#!/usr/bin/env python3
"""cpp2v: regenerate Gallina definitions (coq/gen/Gen_*.v) from the current C++ text of a fixed list of
small scalar Clipper2 functions, via clang's JSON AST.

  python3 cpp2v.py [--repo /repo] [--out /verif/coq/gen] [--no-cache] [-v]
  exit 0: every target translated;  exit 3: some target failed (`CPP2V-FAIL <target>: <reason>` lines)

  import cpp2v; ok, failures = cpp2v.regenerate(repo='/repo', out='/verif/coq/gen')
"""
import argparse, concurrent.futures as cf, gzip, hashlib, json, os, re, subprocess, sys, time

HERE = os.path.dirname(os.path.abspath(__file__))
if HERE not in sys.path:
    sys.path.insert(0, HERE)
import targets as cfg
import trans
from trans import Unsupported, FT, inner, sig_keys
from ir import Printer, Lit, I32

VERIF = os.path.dirname(HERE)
CACHE = os.path.join(VERIF, '.cache', 'cpp2v')
CLANG = os.environ.get('CPP2V_CLANG', 'clang++')
LIB_FILES = ['include/clipper2/clipper.core.h', 'include/clipper2/clipper.engine.h', 'include/clipper2/clipper.h',
             'include/clipper2/clipper.rectclip.h', 'include/clipper2/clipper.version.h',
             'include/clipper2/clipper.minkowski.h', 'include/clipper2/clipper.offset.h',
             'src/clipper.engine.cpp', 'src/clipper.rectclip.cpp']
STRUCT_CLASSES = {'pt': ('Point', 'long', cfg.PF), 'ptd': ('Point', 'double', cfg.PF),
                  'u128': ('UInt128Struct', None, 'UInt128Struct')}
VERSION = '1'
AST_CACHE = True      # set to False to re-run clang even when the inputs are unchanged


def sha(*parts):
    h = hashlib.sha256()
    for p in parts:
        h.update(p if isinstance(p, bytes) else str(p).encode())
        h.update(b'\0')
    return h.hexdigest()


def read(p, mode='r'):
    with open(p, mode, **({} if 'b' in mode else {'errors': 'replace'})) as f:
        return f.read()


def lib_dir(repo):
    return os.path.join(repo, 'CPP', 'Clipper2Lib')


def input_hash(repo):
    h = [VERSION]
    for f in LIB_FILES:
        p = os.path.join(lib_dir(repo), f)
        h.append(f)
        h.append(read(p, 'rb') if os.path.exists(p) else b'<missing>')
    for f in ('cpp2v.py', 'trans.py', 'ir.py', 'targets.py'):      # the translator itself
        h.append(read(os.path.join(HERE, f), 'rb'))
    return sha(*h)


# ----------------------------------------------------------------------------- clang
def portable_header(repo, work):
    """scratch copy of clipper.core.h in which the 128-bit `#if` is replaced by `#if 0`;
    returns (path, number of replaced lines)"""
    src = read(os.path.join(lib_dir(repo), 'include/clipper2/clipper.core.h'))
    old, new = cfg.TUS['core_portable']['patch']
    n = src.count(old)
    d = os.path.join(work, 'portable', 'clipper2')
    os.makedirs(d, exist_ok=True)
    p = os.path.join(d, 'clipper.core.h')
    txt = src.replace(old, new)
    if not os.path.exists(p) or read(p) != txt:
        with open(p, 'w') as f:
            f.write(txt)
    return p, n


def tu_command(repo, work, tu):
    """-> (argv without the filter, list of files whose content determines the AST)"""
    L = lib_dir(repo)
    t = cfg.TUS[tu]
    base = [CLANG, '-std=c++17', '-fsyntax-only', '-w', '-I' + os.path.join(L, 'include'), '-I' + os.path.join(L, 'src')]
    base += t['flags']
    if t['kind'] == 'file':
        return base, os.path.join(L, t['path'])
    hdr = 'clipper2/clipper.core.h'
    if t.get('patch'):
        hdr, n = portable_header(repo, work)
        if n == 0:
            raise Unsupported('the `%s` line was not found in clipper.core.h' % t['patch'][0])
    stub = os.path.join(work, 'stub_%s.cpp' % tu)
    txt = '#define CPP2V_CORE_H "%s"\n' % hdr + cfg.CORE_STUB
    if not os.path.exists(stub) or read(stub) != txt:
        with open(stub, 'w') as f:
            f.write(txt)
    return base, stub


def run_clang(repo, work, tu, filt, key, verbose=False):
    """JSON documents printed by clang for one (TU, filter); cached on the input hash"""
    cdir = os.path.join(CACHE, 'ast')
    os.makedirs(cdir, exist_ok=True)
    cpath = os.path.join(cdir, sha(key, tu, filt)[:40] + '.json.gz')
    if AST_CACHE and os.path.exists(cpath):
        try:
            with gzip.open(cpath, 'rt') as f:
                return parse_docs(f.read())
        except Exception:
            pass
    argv, main = tu_command(repo, work, tu)
    cmd = argv + ['-Xclang', '-ast-dump=json', '-Xclang', '-ast-dump-filter=' + filt, main]
    t0 = time.time()
    p = subprocess.run(cmd, stdout=subprocess.PIPE, stderr=subprocess.PIPE, timeout=300, text=True, errors='replace')
    if verbose:
        print('  clang %s/%s: %.1fs, %d bytes' % (tu, filt, time.time() - t0, len(p.stdout)), file=sys.stderr)
    if p.returncode != 0:
        raise Unsupported('clang failed on TU `%s`: %s' % (tu, (p.stderr.strip().splitlines() or ['?'])[0][:300]))
    docs = parse_docs(p.stdout)
    tmp = cpath + '.tmp%d' % os.getpid()
    with gzip.open(tmp, 'wt', compresslevel=3) as f:
        f.write(p.stdout)
    os.replace(tmp, cpath)
    return docs


def parse_docs(s):
    dec = json.JSONDecoder()
    i, docs, n = 0, [], len(s)
    while True:
        while i < n and s[i].isspace():
            i += 1
        if i >= n:
            break
        if s[i] != '{':       # "Dumping xyz:" lines of non-JSON text, if any
            j = s.find('\n', i)
            i = n if j < 0 else j + 1
            continue
        o, i = dec.raw_decode(s, i)
        docs.append(o)
    return docs


# ----------------------------------------------------------------------------- declaration lookup
CONTAINERS = ('FunctionTemplateDecl', 'ClassTemplateDecl', 'ClassTemplateSpecializationDecl', 'CXXRecordDecl',
              'FriendDecl', 'NamespaceDecl', 'LinkageSpecDecl', 'ClassTemplatePartialSpecializationDecl')


def iter_decls(docs):
    """yield (node, class context) for every declaration reachable through containers"""
    def rec(n, ctx):
        if not isinstance(n, dict):
            return
        k = n.get('kind')
        yield n, ctx
        if k in CONTAINERS:
            c2 = ctx
            if k in ('CXXRecordDecl', 'ClassTemplateSpecializationDecl') and n.get('name'):
                targ = None
                for c in n.get('inner', []):
                    if isinstance(c, dict) and c.get('kind') == 'TemplateArgument':
                        targ = (c.get('type') or {}).get('qualType')
                        break
                c2 = (n.get('name'), targ)
            for c in n.get('inner', []) or []:
                yield from rec(c, c2)
    for d in docs:
        yield from rec(d, None)


def has_body(n):
    return any(isinstance(c, dict) and c.get('kind') == 'CompoundStmt' for c in n.get('inner', []) or [])


def find_function(docs, spec):
    want = spec['sig']
    cands, seen = [], set()
    near = []
    for n, ctx in iter_decls(docs):
        k = n.get('kind')
        if k not in ('FunctionDecl', 'CXXMethodDecl', 'CXXConstructorDecl') or n.get('name') != spec['cname']:
            continue
        if spec['kind'] == 'ctor' and k != 'CXXConstructorDecl':
            continue
        if spec['cls'] and (ctx is None or ctx[0] != spec['cls'][0] or
                            (spec['cls'][1] is not None and ctx[1] != spec['cls'][1])):
            continue
        keys = sig_keys((n.get('type') or {}).get('qualType', ''), spec.get('types'))
        if keys is None:
            continue
        if keys != want:
            near.append((n.get('type') or {}).get('qualType'))
            continue
        if not has_body(n) or n.get('id') in seen:
            continue
        seen.add(n.get('id'))
        cands.append(n)
    if not cands:
        hint = (' (found `%s` with other signatures: %s)' % (spec['cname'], '; '.join(sorted(set(near))[:3]))) if near else ''
        raise Unsupported('definition of `%s`(%s) not found in TU `%s`%s' %
                          (spec['cname'], ', '.join(want), spec['tu'], hint))
    if len(cands) > 1:
        # identical re-declarations (e.g. explicit + implicit instantiation) are fine if structurally equal
        norm = set(json.dumps(strip_locs(c), sort_keys=True) for c in cands)
        if len(norm) > 1:
            raise Unsupported('`%s` is ambiguous in TU `%s` (%d definitions)' % (spec['cname'], spec['tu'], len(cands)))
    return cands[0]


def strip_locs(o):
    if isinstance(o, dict):
        return {k: strip_locs(v) for k, v in o.items() if k not in ('loc', 'range', 'id', 'referencedMemberDecl',
                                                                     'typeAliasDeclId', 'parentDeclContextId',
                                                                     'previousDecl', 'mangledName')}
    if isinstance(o, list):
        return [strip_locs(x) for x in o]
    return o


# ----------------------------------------------------------------------------- world
class World:
    def __init__(self):
        self.done = {}        # target name -> TargetInfo
        self.failed = {}      # target name -> reason
        self.enums = {}       # enum -> {enumerator: value}
        self.consts = {}      # name -> True
        self.names = set(t['name'] for t in cfg.TARGETS)
        self.trivial = {}     # struct -> None (ok) | reason
        self.docs = {}        # (tu, filt) -> docs | Unsupported

    def is_global_name(self, n):
        return n in self.names

    def is_target_name(self, n):
        return any(t['cname'] == n and t['kind'] in ('func', 'method') for t in cfg.TARGETS)

    def visible(self, spec, tu):
        """core targets are visible everywhere; file-local targets only from their own file's TUs"""
        return spec['file'] == 'core' or cfg.TUS[tu].get('path', '').endswith(
            {'engine': 'clipper.engine.cpp', 'rect': 'clipper.rectclip.cpp'}.get(spec['file'], '\0'))

    def pick(self, cands, tu, what):
        if not cands:
            return None
        same = [s for s in cands if s['tu'] == tu]
        dflt = [s for s in cands if s['default']]
        s = (same or dflt or cands)[0]
        if s['name'] in self.failed:
            raise Unsupported('depends on failed target `%s`' % s['name'])
        if s['name'] not in self.done:
            raise Unsupported('depends on `%s`, which is translated later (or recursion)' % s['name'])
        return self.done[s['name']]

    def lookup_call(self, tu, cname, keys, cls_struct):
        cands = []
        for s in cfg.TARGETS:
            if s['kind'] not in ('func', 'method') or s['cname'] != cname or s['sig'] != keys:
                continue
            if not self.visible(s, tu):
                continue
            th = s.get('this')
            if th and th[0] == 'struct':
                if cls_struct != th[1]:
                    continue
            elif cls_struct is not None and s['kind'] == 'method' and not (th and th[0] == 'params'):
                continue
            cands.append(s)
        return self.pick(cands, tu, cname)

    def lookup_ctor(self, tu, struct, keys):
        cands = [s for s in cfg.TARGETS if s['kind'] == 'ctor' and s['this'][1] == struct and s['sig'] == keys]
        ti = self.pick(cands, tu, struct)
        if ti is None:
            raise Unsupported('constructor %s(%s) is not a configured target' % (struct, ', '.join(keys)))
        return ti

    def enum_const(self, enum, name):
        if enum not in self.enums:
            raise Unsupported('enum `%s` was not translated' % enum)
        if name not in self.enums[enum]:
            raise Unsupported('unknown enumerator %s::%s' % (enum, name))
        return '%s_%s' % (enum, name)

    def global_const(self, tu, name):
        if name in self.consts:
            return name
        if name in self.failed:
            raise Unsupported('depends on failed constant `%s`' % name)
        raise Unsupported('reference to global `%s`, which is not a configured constant target' % name)

    def check_trivial_copy(self, tu, struct):
        """copy construction / assignment of a mapped struct is translated as value copy; that is only
        right if the class declares no copy/move constructor or assignment operator of its own"""
        if struct not in self.trivial:
            self.trivial[struct] = self._trivial(struct)
        if self.trivial[struct] is not None:
            raise Unsupported(self.trivial[struct])

    def _trivial(self, struct):
        if struct not in STRUCT_CLASSES:
            return 'copy of struct `%s` whose class is not checked' % struct
        cname, targ, filt = STRUCT_CLASSES[struct]
        docs = self.docs.get(('core', filt))
        if not isinstance(docs, list):
            return 'class dump for `%s` unavailable' % cname
        found = False
        for n, ctx in iter_decls(docs):
            if ctx is None or ctx[0] != cname or (targ is not None and ctx[1] != targ):
                continue
            k = n.get('kind')
            if k == 'FieldDecl':
                found = True
            if n.get('isImplicit'):
                continue
            ty = (n.get('type') or {}).get('qualType', '')
            if k == 'CXXMethodDecl' and n.get('name') == 'operator=':
                return 'class %s has a user-declared operator=' % cname
            if k == 'CXXConstructorDecl':
                try:
                    _, args, _ = trans.parse_fn_type(ty)
                except Unsupported:
                    continue
                if len(args) == 1 and trans.norm_type(args[0]).rstrip('&') in (
                        trans.norm_type(cname), trans.norm_type('%s<%s>' % (cname, targ))):
                    return 'class %s has a user-declared copy/move constructor' % cname
            if k == 'CXXDestructorDecl':
                return 'class %s has a user-declared destructor' % cname
        return None if found else 'class `%s` not found in dump' % cname


# ----------------------------------------------------------------------------- per-target translation
def translate_enum(world, spec, docs):
    for n, _ in iter_decls(docs):
        if n.get('kind') == 'EnumDecl' and n.get('name') == spec['cname'] and inner(n):
            vals, nxt = {}, 0
            order = []
            for c in inner(n):
                if c.get('kind') != 'EnumConstantDecl':
                    continue
                ce = [x for x in inner(c) if x.get('kind') == 'ConstantExpr' and 'value' in x]
                if ce:
                    nxt = int(ce[0]['value'])
                elif inner(c):
                    raise Unsupported('enumerator %s with unevaluated initializer' % c.get('name'))
                vals[c['name']] = nxt
                order.append(c['name'])
                nxt += 1
            world.enums[spec['cname']] = vals
            for c in order:
                world.names.add('%s_%s' % (spec['cname'], c))
            lines = ['(* enum class %s *)' % spec['cname']]
            for c in order:
                lines.append('Definition %s_%s : Z := %s.' % (spec['cname'], c, vals[c] if vals[c] >= 0 else '(%d)' % vals[c]))
            return '\n'.join(lines)
    raise Unsupported('enum `%s` not found' % spec['cname'])


def translate_const(world, spec, docs):
    for n, _ in iter_decls(docs):
        if n.get('kind') == 'VarDecl' and n.get('name') == spec['cname'] and inner(n):
            ft = FT(n, dict(name=spec['name'], kind='func', this=None, types={}), world, spec['tu'])
            ct = ft.ctype(n)
            if not ct.const or ct.ty.kind not in ('int', 'float', 'bool'):
                raise Unsupported('global `%s` is not a const scalar' % spec['cname'])
            pre = []
            t = ft.tr(inner(n)[0], trans.Env(), pre)
            if pre:
                raise Unsupported('global initializer with side effects')
            world.consts[spec['name']] = True
            return '(* C++: %s %s *)\nDefinition %s : %s := %s.' % (
                trans.node_type_str(n), spec['cname'], spec['name'], ct.ty.coq, Printer().pp(t, 'Z', 2))
    raise Unsupported('global constant `%s` not found' % spec['cname'])


def translate_function(world, spec, docs):
    d = find_function(docs, spec)
    ft = FT(d, spec, world, spec['tu'])
    r = ft.translate()
    world.done[spec['name']] = r['info']
    ps = ' '.join('(%s : %s)' % p for p in r['params'])
    body = Printer().pp(r['term'], 'Z', 2)
    cxx = '%s %s' % (spec['cname'], (d.get('type') or {}).get('qualType'))
    if spec['cls']:
        cxx = '%s%s::%s' % (spec['cls'][0], '<%s>' % spec['cls'][1] if spec['cls'][1] else '', cxx)
    notes = []
    info = r['info']
    shape = (['throws'] if info.may_throw else []) + (['return value'] if info.ret.kind != 'void' else [])
    for pos in info.out_positions:
        shape.append('this' if pos == 'this' else r['params'][len(r['params']) - len(info.params) + pos][0])
    if len(shape) > 1 or info.may_throw or info.out_positions:
        notes.append('result = (%s)' % ', '.join(shape))
    flags = ' '.join(cfg.TUS[spec['tu']]['flags'])
    var = spec['tu'] + (' ' + flags if flags else '') + (' [128-bit #if replaced by #if 0]' if cfg.TUS[spec['tu']].get('patch') else '')
    head = '(* C++: %s   {TU %s}%s *)' % (cxx, var, ('\n   ' + '; '.join(notes)) if notes else '')
    return '%s\nDefinition %s%s : %s :=\n  %s.' % (head, spec['name'], (' ' + ps) if ps else '', r['res_ty'].coq.strip('()')
                                                  if r['res_ty'].kind == 'tuple' else r['res_ty'].coq, body)


# ----------------------------------------------------------------------------- driver
def generate(repo, verbose=False):
    """-> (outputs {filename: text}, failures [str])"""
    key = input_hash(repo)
    work = os.path.join(CACHE, 'work', key[:16])
    os.makedirs(work, exist_ok=True)
    world = World()
    runs = sorted(set((t['tu'], t['filt']) for t in cfg.TARGETS) | set(('core', v[2]) for v in STRUCT_CLASSES.values()))

    def job(r):
        try:
            return r, run_clang(repo, work, r[0], r[1], key, verbose)
        except Unsupported as e:
            return r, e
        except subprocess.TimeoutExpired:
            return r, Unsupported('clang timed out')
    with cf.ThreadPoolExecutor(max_workers=min(16, os.cpu_count() or 4)) as ex:
        for r, docs in ex.map(job, runs):
            world.docs[r] = docs
    chunks = {f: [] for f in cfg.FILES}
    failures = []
    for spec in cfg.TARGETS:
        docs = world.docs[(spec['tu'], spec['filt'])]
        try:
            if isinstance(docs, Unsupported):
                raise docs
            if spec['kind'] == 'enum':
                txt = translate_enum(world, spec, docs)
            elif spec['kind'] == 'const':
                txt = translate_const(world, spec, docs)
            else:
                txt = translate_function(world, spec, docs)
            chunks[spec['file']].append(txt)
        except Exception as e:
            if not isinstance(e, Unsupported):      # a translator bug must not take the other targets down
                import traceback
                tb = traceback.extract_tb(e.__traceback__)[-1]
                e = Unsupported('internal translator error %s: %s (%s:%d)' % (type(e).__name__, e, os.path.basename(tb.filename), tb.lineno))
            world.failed[spec['name']] = str(e)
            failures.append('%s: %s' % (spec['name'], e))
            chunks[spec['file']].append('(* CPP2V-FAIL %s: %s\n   (no definition emitted) *)' %
                                        (spec['name'], str(e).replace('*)', '* )').replace('(*', '( *')))
    outputs = {}
    for f, fc in cfg.FILES.items():
        srcs = []
        for s in fc['sources']:
            p = os.path.join(lib_dir(repo), s)
            srcs.append('     %s  sha256=%s' % (s, sha(read(p, 'rb'))[:32] if os.path.exists(p) else '<missing>'))
        hdr = ['(* GENERATED by /verif/cpp2v/cpp2v.py from the C++ sources -- DO NOT EDIT (regenerated on every change).',
               '   sources (CPP/Clipper2Lib/):'] + srcs + [
            '   mapping: see /verif/cpp2v/README.md and coq/base/CSem.v *)',
            'From Coq Require Import ZArith Floats Bool.',
            'From Clip Require Import base.Geom base.FloatModel base.CSem.']
        for imp in fc['imports']:
            hdr.append('From Clip Require Import gen.%s.' % imp)
        hdr += ['Local Open Scope Z_scope.', 'Local Open Scope bool_scope.', '']
        outputs[fc['out']] = '\n'.join(hdr) + '\n' + '\n\n'.join(chunks[f]) + '\n'
    return outputs, failures


def regenerate(repo='/repo', out=os.path.join(VERIF, 'coq', 'gen'), use_cache=True, verbose=False):
    """Regenerate all Gen_*.v under `out`.  -> (ok, failures)"""
    key = input_hash(repo)
    os.makedirs(CACHE, exist_ok=True)
    cpath = os.path.join(CACHE, 'result.%s.json' % key[:40])
    res = None
    if use_cache and os.path.exists(cpath):
        try:
            res = json.load(open(cpath))
        except Exception:
            res = None
    if res is None:
        import fcntl
        with open(os.path.join(CACHE, 'lock'), 'w') as lk:      # concurrent checks: translate once
            fcntl.flock(lk, fcntl.LOCK_EX)
            try:
                if use_cache and os.path.exists(cpath):
                    try:
                        res = json.load(open(cpath))
                    except Exception:
                        res = None
                if res is None:
                    outputs, failures = generate(repo, verbose)
                    res = dict(outputs=outputs, failures=failures)
                    tmp = cpath + '.tmp%d' % os.getpid()
                    with open(tmp, 'w') as f:
                        json.dump(res, f)
                    os.replace(tmp, cpath)
                    _trim()
            finally:
                fcntl.flock(lk, fcntl.LOCK_UN)
    os.makedirs(out, exist_ok=True)
    for fn, txt in res['outputs'].items():
        p = os.path.join(out, fn)
        if not os.path.exists(p) or read(p) != txt:     # keep mtimes when nothing changed (make)
            tmp = p + '.tmp%d' % os.getpid()
            with open(tmp, 'w') as f:
                f.write(txt)
            os.replace(tmp, p)
    return (not res['failures']), list(res['failures'])


def _trim(keep=40):
    import glob, shutil
    for pat, n in (('result.*.json', keep), ('ast/*.json.gz', keep * 30)):
        fs = sorted(glob.glob(os.path.join(CACHE, pat)), key=os.path.getmtime)
        for f in fs[:-n]:
            try:
                os.remove(f)
            except OSError:
                pass
    ws = sorted(glob.glob(os.path.join(CACHE, 'work', '*')), key=os.path.getmtime)
    for w in ws[:-keep]:
        shutil.rmtree(w, ignore_errors=True)


def main():
    ap = argparse.ArgumentParser()
    ap.add_argument('--repo', default='/repo')
    ap.add_argument('--out', default=os.path.join(VERIF, 'coq', 'gen'))
    ap.add_argument('--no-cache', action='store_true')
    ap.add_argument('-v', '--verbose', action='store_true')
    a = ap.parse_args()
    t0 = time.time()
    global AST_CACHE
    if a.no_cache:
        AST_CACHE = False
    ok, failures = regenerate(a.repo, a.out, use_cache=not a.no_cache, verbose=a.verbose)
    for f in failures:
        print('CPP2V-FAIL ' + f)
    n = len(cfg.TARGETS)
    print('cpp2v: %d/%d targets translated into %s (%.2fs)' % (n - len(failures), n, a.out, time.time() - t0))
    sys.exit(0 if ok else 3)


if __name__ == '__main__':
    main()
