#!/usr/bin/env python3
"""Self-test of the generic translator on synthetic C++ that exercises the control-flow / integer
corner cases of the supported subset (switch fall-through, shared labels, default in the middle,
break inside if, early returns with joins, uninitialised locals, out-parameters in && / ||,
compound assignment, unsigned wrap-around, narrowing casts, lambdas, enums).

Each function is translated, compiled by coqc and evaluated with vm_compute on a grid of inputs;
the same grid is evaluated natively (g++) and the two result tables must be identical.

    python3 /verif/cpp2v/selftest.py        # exit 0 = all equal
"""
import itertools, os, re, shutil, subprocess, sys, tempfile
HERE = os.path.dirname(os.path.abspath(__file__))
sys.path.insert(0, HERE)
import targets as cfg
import cpp2v

SYNTH = r'''
#include <cstdint>
#include <cstdlib>
namespace Clipper2Lib {
enum class Color { Red, Green = 5, Blue };
inline int sw_fall(int k, int a) {
  int r = 0;
  switch (k) {
    case 0: r += 1;
    case 1: r += 10; break;
    case 2:
    case 3: r += 100; if (a > 0) break; r += 1000;
    default: r += 5;
    case 7: r += 7; break;
    case 8: return -1;
  }
  return r * 2;
}
inline int default_middle(int k, int a) {
  switch (k) { default: return 1; case 3: return 2; case 4: break; case 5: if (a) return 7; }
  return 3;
}
inline bool outp(int a, int& o1, int& o2) {
  if (a < 0) return false;
  o1 = a;
  if (a > 10) { o2 += a; return true; }
  o2 -= 1;
  return a == 5;
}
inline int use_outp(int a, int b) {
  int x = 1, y = b;
  if (a > 3 && outp(a - 5, x, y)) { return x + y; }
  bool r = outp(b, y, x) || outp(a, x, y);
  return r ? x - y : y - x;
}
inline int uninit_join(int a) {
  int r;
  if (a > 0) r = 1; else if (a < 0) r = -1; else r = 0;
  int q;
  switch (a & 3) { case 0: q = 5; break; case 1: q = 6; break; default: q = 7; }
  return r * q;
}
inline unsigned int u32(unsigned int a, unsigned int b) {
  unsigned int c = a * b + 7u; c -= b; c <<= 3; c >>= 1;
  return ~c ^ ((a | b) & 0xFFu);
}
inline uint64_t u64(uint64_t a, uint64_t b) { uint64_t c = a - b; ++c; c *= 3; --c; return -c + (a << 5); }
inline int64_t divmod(int64_t a, int64_t b) {
  if (b == 0) return 0;
  return (a / b) * 7 + (a % b) + (a >> 2) + (a & b) + (a | 1) + (a ^ b) + ~a;
}
inline int nested(int a, int b, int c) {
  int r = 0;
  if (a) { if (b) { r = 1; if (c) return 9; } else r = 2; r += 10; }
  else { switch (b) { case 1: if (c) break; r = 3; break; case 2: r = 4; } r += 20; }
  return r + 100;
}
inline int tern(int a, bool f) {
  int d = f ? a : -a;
  d += (a > 2) - (a < -2);
  return ((d > 0 || f) && a != 7) ? d : 0;
}
inline int enumf(Color c, int a) {
  switch (c) { case Color::Red: return a; case Color::Green: a *= 2; break; case Color::Blue: a = (int)c + a; break; }
  return a + (c == Color::Green ? 1 : 0);
}
inline void voidout(int a, int& r) { if (a == 0) return; r = a; if (a > 5) { r *= 2; return; } r += 1; }
inline int callvoid(int a) { int r = 42; voidout(a, r); voidout(a - 6, r); return r; }
inline int narrowing(int64_t a) {
  int b = (int)a; unsigned char c = (unsigned char)a; short s = (short)(a >> 3); unsigned u = (unsigned)a;
  return (b >> 8) + c + s + (int)(u >> 20);
}
inline int lam(int a) {
  const auto f = [](int x) { if (x > 3) return x * 2; return x - 1; };
  return f(a) + f(a + 3);
}
inline int shadow(int a) { int x = a; { int x = a + 1; if (x > 3) { int x = 7; a += x; } a += x; } return a + x; }
inline bool boolops(int a, int b) { bool p = a > b, q = a == b; bool r = p != q; r = r == (b > 0); return r ^ (a & 1); }
}
'''

FUNCS = [   # name, arg kinds: i = small int, c = Color, b = bool, u = unsigned 32, U = uint64, J = int64
    ('sw_fall', 'ii'), ('default_middle', 'ii'), ('outp', 'iii'), ('use_outp', 'ii'), ('uninit_join', 'i'), ('u32', 'uu'),
    ('u64', 'UU'), ('divmod', 'JJ'), ('nested', 'iii'), ('tern', 'ib'), ('enumf', 'ci'), ('voidout', 'ii'),
    ('callvoid', 'i'), ('narrowing', 'J'), ('lam', 'i'), ('shadow', 'i'), ('boolops', 'ii'),
]
KEY = {'i': 'i32', 'c': 'enum:Color', 'b': 'bool', 'u': 'u32', 'U': 'u64', 'J': 'i64'}
GRID = {'i': [-12, -3, -1, 0, 1, 2, 3, 4, 5, 6, 7, 8, 9, 11, 16],
        'c': [0, 5, 6], 'b': [0, 1],
        'u': [0, 1, 2, 255, 256, 65535, 0x7fffffff, 0x80000000, 0xffffffff, 12345678],
        'U': [0, 1, 2, 0xffffffff, 1 << 32, (1 << 63) - 1, 1 << 63, (1 << 64) - 1, 0x123456789abcdef],
        'J': [0, 1, -1, 2, -2, 7, -7, 8, 255, 256, -256, 1 << 31, -(1 << 31), (1 << 40) + 12345, -(1 << 40) - 777,
              (1 << 59) + 5, -(1 << 59) - 3]}      # (a / b) * 7 must not overflow
OUTS = {'outp': 2, 'voidout': 1}     # number of out-parameters (returned after the value)


def main():
    work = tempfile.mkdtemp(prefix='cpp2v_selftest_')
    try:
        return run(work)
    finally:
        shutil.rmtree(work, ignore_errors=True)


def run(work):
    src = os.path.join(work, 'synth.cpp')
    open(src, 'w').write(SYNTH)
    # ---- translate with a synthetic configuration
    cfg.ENUMS.append('Color')
    cfg.CXX_TYPES['Color'] = 'enum:Color'
    cfg.TUS.clear()
    cfg.TUS['core'] = dict(kind='file', path=src, flags=[])
    cfg.FILES.clear()
    cfg.FILES['core'] = dict(out='Gen_synth.v', imports=[], sources=[])
    del cfg.TARGETS[:]
    cfg.TARGETS.append(cfg.T('Color', 'core', 'core', kind='enum'))
    for n, a in FUNCS:
        cfg.TARGETS.append(cfg.T(n, 'core', 'core', sig=[KEY[k] for k in a]))
    cpp2v.AST_CACHE = False
    outputs, failures = cpp2v.generate('/repo')
    if failures:
        print('selftest: translation failures:\n  ' + '\n  '.join(failures))
        return 1
    gen = outputs['Gen_synth.v']
    rows = {}
    evals = []
    for n, a in FUNCS:
        rows[n] = list(itertools.product(*[GRID[k] for k in a]))
        calls = ['(%s %s)' % (n, ' '.join(('true' if v else 'false') if k == 'b' else '(%d)' % v for k, v in zip(a, r)))
                 for r in rows[n]]
        evals.append('Eval vm_compute in (%s :: nil).' % ' :: '.join(calls))
    vpath = os.path.join(work, 'Gen_synth.v')
    open(vpath, 'w').write(gen + '\nFrom Coq Require Import List.\n' + '\n'.join(evals) + '\n')
    p = subprocess.run(['coqc', '-Q', os.path.join(os.path.dirname(HERE), 'coq'), 'Clip', vpath], cwd=work,
                       capture_output=True, text=True, timeout=600)
    if p.returncode != 0:
        print(gen)
        print('selftest: coqc failed:\n' + (p.stdout + p.stderr)[-3000:])
        return 1
    blocks = re.split(r'^\s*=\s', p.stdout, flags=re.M)[1:]
    model = {}
    for (n, a), blk in zip(FUNCS, blocks):
        body = blk.split('\n     :')[0]
        toks = re.findall(r'-?\d+|true|false', body)
        model[n] = [{'true': '1', 'false': '0'}.get(t, t) for t in toks]
    # ---- native
    main_cpp = ['#include <cstdio>', '#include "synth.cpp"', 'using namespace Clipper2Lib;', 'int main() {']
    for n, a in FUNCS:
        main_cpp.append('  puts("# %s");' % n)
        for r in rows[n]:
            args = []
            decl = ''
            for k, v in zip(a, r):
                if k == 'c':
                    args.append('(Color)%d' % v)
                elif k == 'U':
                    args.append('%dull' % v)
                elif k == 'u':
                    args.append('%du' % v)
                elif k == 'J':
                    args.append('(int64_t)%dll' % v if v > -(1 << 63) else '(int64_t)(-%dll - 1)' % ((1 << 63) - 1))
                else:
                    args.append(str(v))
            if n in OUTS:
                k = OUTS[n]
                ins = args[:len(args) - k]
                outs = ['o%d' % i for i in range(k)]
                decl = ' '.join('int o%d = %s;' % (i, args[len(ins) + i]) for i in range(k))
                call = '%s(%s)' % (n, ', '.join(ins + outs))
                if n == 'voidout':
                    main_cpp.append('  { %s %s; printf("%%d\\n", o0); }' % (decl, call))
                else:
                    main_cpp.append('  { %s long long r = (long long)%s; printf("%%lld %s\\n", r, %s); }' %
                                    (decl, call, ' '.join(['%d'] * k), ', '.join(outs)))
            else:
                fmt = '%llu' if a[0] in 'U' and n == 'u64' else '%lld'
                cast = '(unsigned long long)' if fmt == '%llu' else '(long long)'
                main_cpp.append('  printf("%s\\n", %s%s(%s));' % (fmt, cast, n, ', '.join(args)))
    main_cpp.append('  return 0; }')
    open(os.path.join(work, 'main.cpp'), 'w').write('\n'.join(main_cpp))
    p = subprocess.run(['g++', '-std=c++17', '-O1', '-w', 'main.cpp', '-o', 'main'], cwd=work, capture_output=True,
                       text=True, timeout=600)
    if p.returncode != 0:
        print('selftest: g++ failed:\n' + p.stderr[-3000:])
        return 1
    out = subprocess.run([os.path.join(work, 'main')], capture_output=True, text=True, timeout=600).stdout
    native, cur = {}, None
    for line in out.splitlines():
        if line.startswith('# '):
            cur = line[2:]
            native[cur] = []
        else:
            native[cur] += line.split()
    bad = 0
    for n, a in FUNCS:
        if native[n] != model[n]:
            bad += 1
            k = len(native[n]) // max(1, len(rows[n]))
            for i, r in enumerate(rows[n]):
                if native[n][i * k:(i + 1) * k] != model[n][i * k:(i + 1) * k]:
                    print('selftest: %s%r native=%s model=%s' % (n, r, native[n][i * k:(i + 1) * k], model[n][i * k:(i + 1) * k]))
                    break
            else:
                print('selftest: %s: %d native vs %d model values' % (n, len(native[n]), len(model[n])))
    total = sum(len(rows[n]) for n, _ in FUNCS)
    print('selftest: %d functions, %d evaluations, %d functions disagree' % (len(FUNCS), total, bad))
    if bad and '-v' in sys.argv:
        print(gen)
    return 1 if bad else 0


if __name__ == '__main__':
    sys.exit(main())
