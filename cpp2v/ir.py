"""Tiny Gallina term IR + pretty printer used by cpp2v.

The printer tracks the *notation scope* Coq would use at each position (Z_scope is open at top
level, `%float` delimiters are inserted whenever a float infix operator is printed in a position
where Coq would not already be interpreting notations in float_scope, and vice versa), so that mixed
Z / float code parses the way it was meant.  A mistake here can only produce a Coq type error,
never a silently different term (Z and float operators have disjoint types).
"""


class Ty:
    """kind: int | bool | float | struct | tuple | void | unit | ptr | lambda"""

    def __init__(self, kind, coq, key, **kw):
        self.kind, self.coq, self.key = kind, coq, key
        self.bits = kw.get('bits')
        self.signed = kw.get('signed')
        self.enum = kw.get('enum')
        self.struct = kw.get('struct')      # struct config name
        self.items = kw.get('items')        # tuple item types
        self.pointee = kw.get('pointee')

    def __repr__(self):
        return 'Ty(%s)' % self.key

    @property
    def scope(self):
        return {'int': 'Z', 'float': 'float'}.get(self.kind)


def int_ty(bits, signed, enum=None):
    key = ('enum:' + enum) if enum else ('%s%d' % ('i' if signed else 'u', bits))
    return Ty('int', 'Z', key, bits=bits, signed=signed, enum=enum)


BOOL = Ty('bool', 'bool', 'bool')
F64 = Ty('float', 'float', 'f64')
VOID = Ty('void', 'unit', 'void')
UNIT = Ty('unit', 'unit', 'unit')
I32 = int_ty(32, True)
I64 = int_ty(64, True)


def tuple_ty(items):
    if len(items) == 1:
        return items[0]
    if not items:
        return UNIT
    return Ty('tuple', '(' + ' * '.join(t.coq for t in items) + ')', 'tup(' + ','.join(t.key for t in items) + ')',
              items=list(items))


# ----------------------------------------------------------------------------- terms
class Term:
    ty = None


class Var(Term):
    def __init__(self, name, ty):
        self.name, self.ty = name, ty


class Lit(Term):
    """atomic literal; `scope` is 'Z' / 'float' for numerals (delimited when printed elsewhere)"""

    def __init__(self, text, ty, scope=None):
        self.text, self.ty, self.scope = text, ty, scope


class App(Term):
    def __init__(self, fn, args, ty, local=False):
        self.fn, self.args, self.ty, self.local = fn, list(args), ty, local


class Bin(Term):
    def __init__(self, scope, op, a, b, ty):
        self.scope, self.op, self.a, self.b, self.ty = scope, op, a, b, ty


class If(Term):
    def __init__(self, c, a, b, ty=None):
        self.c, self.a, self.b = c, a, b
        self.ty = ty or a.ty or b.ty


class Tup(Term):
    def __init__(self, items, ty=None):
        self.items = list(items)
        self.ty = ty or tuple_ty([i.ty for i in items])


class Let(Term):
    """pat: str | list[str] (tuple pattern)"""

    def __init__(self, pat, rhs, body):
        self.pat, self.rhs, self.body = pat, rhs, body
        self.ty = body.ty


class Fun(Term):
    def __init__(self, params, body):
        self.params, self.body = params, body   # params: [(name, coqtype)]
        self.ty = None


class Ret(Term):
    """function exit placeholder, rewritten into the result tuple once the result shape is known"""

    def __init__(self, kind, value, outs):
        self.kind, self.value, self.outs = kind, value, outs   # kind: 'ret' | 'throw'
        self.ty = None


def walk(t, f):
    f(t)
    for c in children(t):
        walk(c, f)


def children(t):
    if isinstance(t, App):
        return t.args
    if isinstance(t, Bin):
        return [t.a, t.b]
    if isinstance(t, If):
        return [t.c, t.a, t.b]
    if isinstance(t, Tup):
        return t.items
    if isinstance(t, Let):
        return [t.rhs, t.body]
    if isinstance(t, Fun):
        return [t.body]
    if isinstance(t, Ret):
        return ([t.value] if t.value is not None else []) + list(t.outs)
    return []


def rewrite(t, f):
    """bottom-up rewriting: f(node) -> node"""
    if isinstance(t, App):
        t.args = [rewrite(a, f) for a in t.args]
    elif isinstance(t, Bin):
        t.a, t.b = rewrite(t.a, f), rewrite(t.b, f)
    elif isinstance(t, If):
        t.c, t.a, t.b = rewrite(t.c, f), rewrite(t.a, f), rewrite(t.b, f)
    elif isinstance(t, Tup):
        t.items = [rewrite(a, f) for a in t.items]
    elif isinstance(t, Let):
        t.rhs, t.body = rewrite(t.rhs, f), rewrite(t.body, f)
    elif isinstance(t, Fun):
        t.body = rewrite(t.body, f)
    elif isinstance(t, Ret):
        if t.value is not None:
            t.value = rewrite(t.value, f)
        t.outs = [rewrite(a, f) for a in t.outs]
    return f(t)


# ----------------------------------------------------------------------------- printer
def is_atom(t):
    if isinstance(t, Var):
        return True
    if isinstance(t, Lit):
        return True
    if isinstance(t, Tup):
        return True     # printed with its own parentheses
    if isinstance(t, App) and not t.args:
        return True
    return False


def is_block(t):
    """terms laid out over several lines"""
    if isinstance(t, (Let,)):
        return True
    if isinstance(t, If):
        return True
    return False


def pat_str(p):
    if isinstance(p, str):
        return p
    if len(p) == 1:
        return p[0]
    return "'(" + ', '.join(p) + ')'


class Printer:
    def __init__(self, width=100):
        self.width = width

    def lit(self, t, ctx):
        if t.scope and t.scope != ctx:
            txt = t.text
            if txt.startswith('-') or ' ' in txt:
                txt = '(' + txt + ')'
            return txt + '%' + t.scope
        if t.text.startswith('-'):
            return '(' + t.text + ')'
        return t.text

    def atom(self, t, ctx, ind):
        """print t so that it can be used as an argument"""
        if isinstance(t, Bin):
            return self.bin(t, ctx, ind, parens=True)
        s = self.pp(t, ctx, ind)
        if is_atom(t) or (s.startswith('(') and self._balanced_outer(s)):
            return s
        if is_block(t) and '\n' in s:
            # multi-line block used as an argument / operand
            return '(' + s + ')'
        return '(' + s + ')'

    @staticmethod
    def _balanced_outer(s):
        """is s of the form ( ... ) with the first paren closing at the very end?"""
        d = 0
        for i, ch in enumerate(s):
            if ch == '(':
                d += 1
            elif ch == ')':
                d -= 1
                if d == 0:
                    return i == len(s) - 1
        return False

    def operand(self, t, ctx, ind):
        """operand of an infix operator: an application binds tighter than any infix, no parentheses"""
        if isinstance(t, App) and t.args:
            s = self.pp(t, ctx, ind)
            if '\n' not in s:
                return s
        return self.atom(t, ctx, ind)

    def bin(self, t, ctx, ind, parens):
        s = t.scope
        inner_ctx = ctx if s == 'bool' else s
        a = self.operand(t.a, inner_ctx, ind + 2)
        b = self.operand(t.b, inner_ctx, ind + 2)
        txt = '%s %s %s' % (a, t.op, b)
        if len(txt) - txt.rfind('\n') - 1 > self.width and '\n' not in b:
            txt = '%s %s\n%s%s' % (a, t.op, ' ' * (ind + 2), b)
        if s != 'bool' and s != ctx:
            return '(' + txt + ')%' + s
        return '(' + txt + ')' if parens else txt

    def arg_ctx(self, t, a, ctx):
        if isinstance(t, App) and t.local:
            return ctx
        sc = a.ty.scope if a.ty is not None else None
        return sc or ctx

    def pp(self, t, ctx='Z', ind=0):
        sp = ' ' * ind
        if isinstance(t, Var):
            return t.name
        if isinstance(t, Lit):
            return self.lit(t, ctx)
        if isinstance(t, App):
            if not t.args:
                return t.fn
            parts = [t.fn] + [self.atom(a, self.arg_ctx(t, a, ctx), ind + 2) for a in t.args]
            one = ' '.join(parts)
            if '\n' not in one and len(one) + ind <= self.width + 20:
                return one
            return parts[0] + ''.join('\n' + sp + '  ' + p for p in parts[1:])
        if isinstance(t, Bin):
            return self.bin(t, ctx, ind, parens=False)
        if isinstance(t, Tup):
            if not t.items:
                return 'tt'
            return '(' + ', '.join(self.bin(i, ctx, ind + 1, parens=False) if isinstance(i, Bin)
                                   else self.atom(i, ctx, ind + 1) if isinstance(i, (If, Let, Fun))
                                   else self.pp(i, ctx, ind + 1) for i in t.items) + ')'
        if isinstance(t, Fun):
            ps = ' '.join('(%s : %s)' % p for p in t.params)
            body = self.pp(t.body, ctx, ind + 2)
            if '\n' in body or len(body) + ind > self.width - 20:
                return 'fun %s =>\n%s  %s' % (ps, sp, body)
            return 'fun %s => %s' % (ps, body)
        if isinstance(t, Let):
            rhs = self.pp(t.rhs, ctx, ind + 2)
            head = 'let %s := ' % pat_str(t.pat)
            if '\n' in rhs:
                if isinstance(t.rhs, Fun):
                    s = head + rhs + '\n' + sp + 'in'
                else:
                    s = head + '\n' + sp + '  ' + rhs + '\n' + sp + 'in'
            else:
                s = head + rhs + ' in'
            return s + '\n' + sp + self.pp(t.body, ctx, ind)
        if isinstance(t, If):
            if not any(isinstance(x, (Let, If, Fun)) for x in (t.c, t.a, t.b)):
                one = 'if %s then %s else %s' % (self.pp(t.c, ctx, ind + 4), self.pp(t.a, ctx, ind + 2), self.pp(t.b, ctx, ind + 2))
                if '\n' not in one and len(one) + ind <= self.width - 10:
                    return one
            c = self.atom(t.c, ctx, ind + 4) if isinstance(t.c, (If, Let, Fun)) else self.pp(t.c, ctx, ind + 4)
            # then branch
            if isinstance(t.a, (Let, If)):
                a = '\n' + sp + '  (' + self.pp(t.a, ctx, ind + 3) + ')'
            else:
                a = ' ' + self.pp(t.a, ctx, ind + 2)
            # else branch: chains and continuation-style lets do not drift to the right
            if isinstance(t.b, If):
                b = '\n' + sp + 'else ' + self.pp(t.b, ctx, ind)
            elif isinstance(t.b, Let):
                b = ' else\n' + sp + self.pp(t.b, ctx, ind)
            else:
                bb = self.pp(t.b, ctx, ind + 2)
                b = '\n' + sp + 'else ' + bb
            return 'if ' + c + ' then' + a + b
        if isinstance(t, Ret):
            raise AssertionError('Ret placeholder not resolved')
        raise AssertionError('unknown term %r' % (t,))
