"""Single source for the validation harness of cpp2v: for every translated target the wire format of its
arguments / results, the input domain, and the native C++ call.  mkdrivers.py generates
harness/cx_gen.cpp, coq/extract/Extract_gen.v and oracle/drv_gen.ml from this table; validate.py
generates the inputs and compares the outputs.

Wire format: one test per line, `<command> <tokens...>`; answer `= <tokens...>`.
  integers (Z)   sign + hexadecimal magnitude, e.g. -1f  (no arithmetic needed on the OCaml side)
  bool           0 / 1
  double         C99 hex float (%a / OCaml %h), nan / inf / -inf
Structured values are flattened depth first.
"""
I, U, B, D = 'i', 'u', 'b', 'd'          # leaf kinds (u: read as uint64_t on the C++ side)


def tup(*items):
    return ('t', list(items))


def rec(*fields):
    return ('r', list(fields))


PT = tup(I, I)
U128 = tup(U, U)
RECT = rec(('r_left', I), ('r_top', I), ('r_right', I), ('r_bottom', I))
ACTIVE = rec(('bot', PT), ('top', PT), ('curr_x', I), ('dx', D), ('wind_dx', I), ('wind_cnt', I),
             ('wind_cnt2', I), ('polytype', I), ('is_open', B))
INODE = tup(PT, I, I)
OUTPT3 = rec(('op_pt', PT), ('op_prev_pt', PT), ('op_next_pt', PT), ('op_ring3', B))
RECTPATH = tup(PT, PT, PT, PT)


def leaves(t):
    if isinstance(t, str):
        return [t]
    if t[0] == 't':
        return [l for x in t[1] for l in leaves(x)]
    return [l for _, x in t[1] for l in leaves(x)]


def E(name, args, res, code, cxx=None, variant='plain'):
    """args: [(type, domain)], res: [type]"""
    return dict(name=name, args=args, res=res, code=code.strip(), cxx=cxx or name, variant=variant)


P3 = [(PT, 'pt')] * 3
RD3 = 'Point64 a = P(), b = P(), c = P();'

TABLE = [
    # ------------------------------------------------------------------ clipper.core.h
    E('DoError', [(I, 'err')], [B], 'int e = (int)I(); bool thr = false; TRY(DoError(e);) oB(thr);'),
    E('DoError_noexc', [(I, 'err')], [], 'int e = (int)I(); DoError(e);', cxx='DoError_noexc', variant='noexc'),
    E('Point64_Init', [(PT, 'pt'), (I, 'c'), (I, 'c')], [PT],
      'Point64 t = P(); int64_t x = I(), y = I(); t.Init(x, y); oP(t);'),
    E('Point64_ctor0', [], [PT], 'Point64 t; oP(t);'),
    E('Point64_ctor', [(I, 'c'), (I, 'c')], [PT], 'int64_t x = I(), y = I(); Point64 t(x, y); oP(t);'),
    E('Point64_eq', [(PT, 'pt'), (PT, 'pt')], [B], 'Point64 a = P(), b = P(); oB(a == b);'),
    E('Point64_neq', [(PT, 'pt'), (PT, 'pt')], [B], 'Point64 a = P(), b = P(); oB(a != b);'),
    E('MidPoint', [(PT, 'pt'), (PT, 'pt')], [PT], 'Point64 a = P(), b = P(); oP(MidPoint(a, b));'),
    E('Sqr_i64', [(I, 'J')], [D], 'int64_t v = I(); oD(Sqr<int64_t>(v));'),
    E('Sqr_d', [(D, 'dbl')], [D], 'double v = Dd(); oD(Sqr<double>(v));'),
    E('CheckPrecisionRange', [(I, 'prec'), (I, 'n')], [B, I, I],
      'int p = (int)I(), ec = (int)I(); bool thr = false; TRY(CheckPrecisionRange(p, ec);) oB(thr); oI(p); oI(ec);'),
    E('CheckPrecisionRange_noexc', [(I, 'prec'), (I, 'n')], [I, I],
      'int p = (int)I(), ec = (int)I(); CheckPrecisionRange(p, ec); oI(p); oI(ec);',
      cxx='CheckPrecisionRange_noexc', variant='noexc'),
    E('TriSign', [(I, 'J')], [I], 'int64_t x = I(); oI(TriSign(x));'),
    E('Multiply', [(U, 'U'), (U, 'U')], [U128], 'uint64_t a = Uu(), b = Uu(); auto r = Multiply(a, b); oU(r.lo); oU(r.hi);'),
    E('UInt128Struct_eq', [(U128, 'u128'), (U128, 'u128')], [B],
      'uint64_t al = Uu(), ah = Uu(), bl = Uu(), bh = Uu(); UInt128Struct a{al, ah}; UInt128Struct b{bl, bh}; oB(a == b);'),
    E('ProductsAreEqual_int128', [(I, 'prod')] * 4, [B],
      'int64_t a = I(), b = I(), c = I(), d = I(); oB(ProductsAreEqual(a, b, c, d));', cxx='ProductsAreEqual'),
    E('ProductsAreEqual_portable', [(I, 'prod')] * 4, [B],
      'int64_t a = I(), b = I(), c = I(), d = I(); oB(ProductsAreEqual(a, b, c, d));', cxx='ProductsAreEqual',
      variant='portable'),
    E('CrossProductSign_int128', P3, [I], RD3 + ' oI(CrossProductSign(a, b, c));', cxx='CrossProductSign'),
    E('CrossProductSign_portable', P3, [I], RD3 + ' oI(CrossProductSign(a, b, c));', cxx='CrossProductSign',
      variant='portable'),
    E('IsCollinear', P3, [B], RD3 + ' oB(IsCollinear(a, b, c));'),
    E('CrossProduct', P3, [D], RD3 + ' oD(CrossProduct(a, b, c));'),
    E('DotProduct', P3, [D], RD3 + ' oD(DotProduct(a, b, c));'),
    E('PerpendicDistFromLineSqrd', P3, [D], RD3 + ' oD(PerpendicDistFromLineSqrd(a, b, c));'),
    E('GetSegmentIntersectPt_lo', [(PT, 'pt')] * 5, [B, PT],
      RD3 + ' Point64 d = P(), ip = P(); bool r = GetSegmentIntersectPt(a, b, c, d, ip); oB(r); oP(ip);',
      cxx='GetSegmentIntersectPt'),
    E('GetSegmentIntersectPt_hi', [(PT, 'pt')] * 5, [B, PT],
      RD3 + ' Point64 d = P(), ip = P(); bool r = GetSegmentIntersectPt(a, b, c, d, ip); oB(r); oP(ip);',
      cxx='GetSegmentIntersectPt', variant='hi'),
    E('GetSign_i64', [(I, 'J')], [I], 'int64_t v = I(); oI(GetSign<int64_t>(v));'),
    E('GetSign_d', [(D, 'dbl')], [I], 'double v = Dd(); oI(GetSign<double>(v));'),
    E('SegmentsIntersect', [(PT, 'pt')] * 4 + [(B, 'b')], [B],
      RD3 + ' Point64 d = P(); bool inc = Bb(); oB(SegmentsIntersect(a, b, c, d, inc));'),
    E('GetClosestPointOnSegment', P3, [PT], RD3 + ' oP(GetClosestPointOnSegment(a, b, c));'),
    # ------------------------------------------------------------------ clipper.engine.cpp
    E('LocMinSorter_call', [(PT, 'pt'), (PT, 'pt')], [B],
      '''Vertex v1, v2; v1.pt = P(); v2.pt = P();
      LocalMinima_ptr l1 = std::make_unique<LocalMinima>(&v1, PathType::Subject, false);
      LocalMinima_ptr l2 = std::make_unique<LocalMinima>(&v2, PathType::Subject, false);
      oB(LocMinSorter()(l1, l2));'''),
    E('IsOdd', [(I, 'n')], [B], 'int v = (int)I(); oB(IsOdd(v));'),
    E('IsOpen', [(ACTIVE, 'active')], [B], 'ActiveIn a; A(a); oB(IsOpen(a.e));'),
    E('GetDx', [(PT, 'pt'), (PT, 'pt')], [D], 'Point64 a = P(), b = P(); oD(GetDx(a, b));'),
    E('TopX', [(ACTIVE, 'active'), (I, 'cy')], [I], 'ActiveIn a; A(a); int64_t y = I(); oI(TopX(a.e, y));'),
    E('GetPolyType', [(ACTIVE, 'active')], [I], 'ActiveIn a; A(a); oI((int)GetPolyType(a.e));'),
    E('IntersectListSort', [(INODE, 'inode'), (INODE, 'inode')], [B],
      '''Active e1, e2, e3, e4; Point64 p1 = P(); e1.curr_x = I(); e2.curr_x = I();
      Point64 p2 = P(); e3.curr_x = I(); e4.curr_x = I();
      IntersectNode n1(&e1, &e2, p1), n2(&e3, &e4, p2); oB(IntersectListSort(n1, n2));'''),
    E('PtsReallyClose', [(PT, 'pt'), (PT, 'pt')], [B], 'Point64 a = P(), b = P(); oB(PtsReallyClose(a, b));'),
    E('IsVerySmallTriangle', [(OUTPT3, 'outpt3')], [B],
      '''Point64 p0 = P(), pp = P(), pn = P(); bool ring3 = Bb();
      OutPt o(p0, nullptr), p(pp, nullptr), n(pn, nullptr), x(Point64(0, 0), nullptr);
      if (ring3) { o.next = &n; n.next = &p; p.next = &o; o.prev = &p; p.prev = &n; n.prev = &o; }
      else { o.next = &n; n.next = &x; x.next = &p; p.next = &o; o.prev = &p; p.prev = &x; x.prev = &n; n.prev = &o; }
      oB(IsVerySmallTriangle(o));'''),
    E('IsContributingClosed', [(I, 'ct'), (I, 'fr'), (ACTIVE, 'active')], [B],
      '''int ct = (int)I(), fr = (int)I(); ActiveIn a; A(a); Clipper64 c;
      c.cliptype_ = (ClipType)ct; c.fillrule_ = (FillRule)fr; oB(c.IsContributingClosed(a.e));'''),
    E('IsContributingOpen', [(I, 'ct'), (I, 'fr'), (ACTIVE, 'active')], [B],
      '''int ct = (int)I(), fr = (int)I(); ActiveIn a; A(a); Clipper64 c;
      c.cliptype_ = (ClipType)ct; c.fillrule_ = (FillRule)fr; oB(c.IsContributingOpen(a.e));'''),
    # ------------------------------------------------------------------ clipper.rectclip.cpp
    E('GetLocation', [(RECT, 'rect'), (PT, 'pt'), (I, 'loc')], [B, I],
      'Rect64 r = R(); Point64 p = P(); Location l = (Location)I(); bool b = GetLocation(r, p, l); oB(b); oI((int)l);'),
    E('IsHorizontal', [(PT, 'pt'), (PT, 'pt')], [B], 'Point64 a = P(), b = P(); oB(IsHorizontal(a, b));'),
    E('GetSegmentIntersection', [(PT, 'pt')] * 5, [B, PT],
      RD3 + ' Point64 d = P(), ip = P(); bool r = GetSegmentIntersection(a, b, c, d, ip); oB(r); oP(ip);'),
    E('GetIntersection', [(RECTPATH, 'rectpath'), (PT, 'pt'), (PT, 'pt'), (I, 'loc'), (PT, 'pt')], [B, I, PT],
      '''Path64 rp; for (int i = 0; i < 4; ++i) rp.push_back(P());
      Point64 p = P(), p2 = P(); Location l = (Location)I(); Point64 ip = P();
      bool r = GetIntersection(rp, p, p2, l, ip); oB(r); oI((int)l); oP(ip);'''),
    E('GetAdjacentLocation', [(I, 'loc'), (B, 'b')], [I],
      'Location l = (Location)I(); bool cw = Bb(); oI((int)GetAdjacentLocation(l, cw));'),
    E('HeadingClockwise', [(I, 'loc'), (I, 'loc')], [B],
      'Location a = (Location)I(), b = (Location)I(); oB(HeadingClockwise(a, b));'),
    E('AreOpposites', [(I, 'loc'), (I, 'loc')], [B],
      'Location a = (Location)I(), b = (Location)I(); oB(AreOpposites(a, b));'),
    E('IsClockwise', [(I, 'loc'), (I, 'loc'), (PT, 'pt'), (PT, 'pt'), (PT, 'pt')], [B],
      'Location a = (Location)I(), b = (Location)I(); Point64 p = P(), q = P(), m = P(); oB(IsClockwise(a, b, p, q, m));'),
]

# constants and enumerators: (Gallina name, C++ expression)
CONSTS = [
    ('precision_error_i', 'precision_error_i'), ('scale_error_i', 'scale_error_i'),
    ('non_pair_error_i', 'non_pair_error_i'), ('undefined_error_i', 'undefined_error_i'),
    ('range_error_i', 'range_error_i'), ('CLIPPER2_MAX_DEC_PRECISION', 'CLIPPER2_MAX_DEC_PRECISION'),
] + [('FillRule_' + n, '(int)FillRule::' + n) for n in ('EvenOdd', 'NonZero', 'Positive', 'Negative')] \
  + [('ClipType_' + n, '(int)ClipType::' + n) for n in ('NoClip', 'Intersection', 'Union', 'Difference', 'Xor')] \
  + [('PathType_' + n, '(int)PathType::' + n) for n in ('Subject', 'Clip')] \
  + [('Location_' + n, '(int)Location::' + n) for n in ('Left', 'Top', 'Right', 'Bottom', 'Inside')]
for _n, _x in CONSTS:
    TABLE.append(E(_n, [], [I], 'oI(%s);' % _x))

BY_NAME = {e['name']: e for e in TABLE}
