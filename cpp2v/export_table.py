#!/usr/bin/env python3
"""cpp2v for the C export layer (property C17).

Reads clipper.export.h of the *current* repo working tree through clang's JSON AST
(`clang++ -fsyntax-only -Xclang -ast-dump=json -Xclang -ast-dump-filter=Clipper2Lib` on a stub TU that
includes clipper.h and clipper.export.h) and emits coq/gen/Gen_export.v: for each of the 14 exported
functions
  * its parameters (name, type),
  * its validation prologue: the maximal prefix of top-level `if (cond) return <expr>;` statements,
    each as (condition, returned expression),
  * every call / constructor call / member call in its body whose callee is declared in namespace
    Clipper2Lib, as (qualified callee, [(callee formal name, actual argument, callee's declared default)]).
Expressions are small trees (`Export.ex`): implicit casts, temporaries and copy/move constructions are
transparent, explicit casts are kept, a local variable with exactly one definition in the body is replaced
by that definition (so `scale` reads `pow(10, precision)` and `pp` reads `ConvertCPathsDToPaths64(paths, pow(..))`).
Formal names come from the callee's declaration (resolved by declaration id / constructor signature), never
from the call site.  Nothing here decides whether the forwarding is right: that is `Export.fwd_ok`, in Coq.

Both the plain and the -DUSINGZ configuration are dumped (`table`, `table_z`).
The result is cached under /verif/.cache keyed by the hash of the library headers and of this script.
"""
import hashlib, json, os, re, subprocess, sys, tempfile

HERE = os.path.dirname(os.path.abspath(__file__))
VERIF = os.path.dirname(HERE)

EXPORTS = ['BooleanOp64', 'BooleanOpD', 'BooleanOp_PolyTree64', 'BooleanOp_PolyTreeD',
           'InflatePaths64', 'InflatePathsD', 'InflatePath64', 'InflatePathD',
           'RectClip64', 'RectClipD', 'RectClipLines64', 'RectClipLinesD',
           'MinkowskiSum64', 'MinkowskiDiff64']

HEADERS = ['clipper.core.h', 'clipper.engine.h', 'clipper.export.h', 'clipper.h', 'clipper.minkowski.h',
           'clipper.offset.h', 'clipper.rectclip.h', 'clipper.version.h']


class TableError(Exception):
    """the export header left the subset this translator understands (a tie break, reported by the check)"""


# ------------------------------------------------------------------------------------------ clang
def clang_ast(inc, defines=()):
    with tempfile.TemporaryDirectory(prefix='c17ast') as td:
        stub = os.path.join(td, 'stub.cpp')
        with open(stub, 'w') as f:
            f.write('#include "clipper2/clipper.h"\n#include "clipper2/clipper.export.h"\n')
        cmd = ['clang++', '-std=c++17', '-fsyntax-only', '-w', '-I' + inc] + ['-D' + d for d in defines] + \
              ['-Xclang', '-ast-dump=json', '-Xclang', '-ast-dump-filter=Clipper2Lib', stub]
        p = subprocess.run(cmd, stdout=subprocess.PIPE, stderr=subprocess.PIPE, timeout=300)
        if p.returncode != 0:
            raise TableError('clang failed on clipper.export.h: ' + p.stderr.decode(errors='replace')[-1500:])
        txt = p.stdout.decode(errors='replace')
    dec = json.JSONDecoder()
    docs, i, n = [], 0, len(txt)
    while i < n:
        while i < n and txt[i] in ' \n\r\t':
            i += 1
        if i >= n:
            break
        if txt[i] != '{':                      # "Dumping Clipper2Lib::…:" header lines
            j = txt.find('\n', i)
            i = n if j < 0 else j + 1
            continue
        o, i = dec.raw_decode(txt, i)
        docs.append(o)
    return docs


SCOPES = ('NamespaceDecl', 'CXXRecordDecl', 'ClassTemplateSpecializationDecl', 'ClassTemplateDecl',
          'ClassTemplatePartialSpecializationDecl', 'EnumDecl')


class Index:
    def __init__(self, docs):
        self.byid, self.qname, self.enumval, self.records = {}, {}, {}, {}
        for d in docs:
            self._walk(d, [])

    def _walk(self, n, stack):
        if not isinstance(n, dict):
            return
        k = n.get('kind', '')
        if k.endswith('Decl') and 'id' in n:
            # keep the first declaration that carries parameter names; definitions seen later override
            # a body-less earlier one only if the earlier one is absent
            self.byid.setdefault(n['id'], n)
            self.qname.setdefault(n['id'], '::'.join(stack + [n.get('name', '')]))
        if k in ('CXXRecordDecl', 'ClassTemplateSpecializationDecl') and n.get('name') and \
                any(c.get('kind') == 'CXXConstructorDecl' for c in n.get('inner', [])):
            self.records.setdefault('::'.join(stack + [n['name']]), []).append(n)
        if k == 'EnumDecl':
            v = -1
            for c in n.get('inner', []):
                if c.get('kind') == 'EnumConstantDecl':
                    val = None
                    for x in c.get('inner', []):
                        val = _const_value(x)
                    v = val if val is not None else v + 1
                    self.enumval[c['id']] = v
        push = k in SCOPES and n.get('name') and k != 'ClassTemplateDecl'
        if k == 'EnumDecl' and not n.get('scopedEnumTag'):
            push = False
        if push:
            stack = stack + [n['name']]
        for c in n.get('inner', []):
            self._walk(c, stack)


def _const_value(x):
    if not isinstance(x, dict):
        return None
    if 'value' in x and x.get('kind') in ('ConstantExpr', 'IntegerLiteral'):
        try:
            return int(x['value'])
        except ValueError:
            return None
    for c in x.get('inner', []):
        v = _const_value(c)
        if v is not None:
            return v
    return None


# ------------------------------------------------------------------------------------------ expressions
TRANSPARENT = ('ImplicitCastExpr', 'MaterializeTemporaryExpr', 'CXXBindTemporaryExpr', 'ExprWithCleanups',
               'ParenExpr', 'ConstantExpr', 'FullExpr')
EXPLICIT_CASTS = ('CXXFunctionalCastExpr', 'CStyleCastExpr', 'CXXStaticCastExpr', 'CXXReinterpretCastExpr',
                  'CXXConstCastExpr')


def _strip_ty(t):
    t = re.sub(r'\b(const|class|struct)\b', '', t)
    t = t.replace('&&', '').replace('&', '')
    return re.sub(r'\s+', '', t)


def is_copy_move(n):
    """CXXConstructExpr that only copies/moves an object of the same type"""
    inner = n.get('inner', [])
    if len(inner) != 1:
        return False
    ct = n.get('ctorType', {}).get('qualType', '')
    m = re.match(r'void \((.*)\)( noexcept.*)?$', ct)
    if not m or ',' in re.sub(r'<[^<>]*>', '', re.sub(r'<[^<>]*>', '', re.sub(r'<[^<>]*>', '', m.group(1)))):
        return False
    p = _strip_ty(m.group(1))
    ty = n.get('type', {})
    own = {_strip_ty(ty.get('qualType', '')), _strip_ty(ty.get('desugaredQualType', ty.get('qualType', '')))}
    own |= {o.replace('Clipper2Lib::', '') for o in own}
    return p in own or p.replace('Clipper2Lib::', '') in own


class FnTranslator:
    def __init__(self, idx, fn):
        self.idx, self.fn = idx, fn
        self.params = [c for c in fn.get('inner', []) if c.get('kind') == 'ParmVarDecl']
        self.param_ids = {p['id']: p.get('name', '') for p in self.params}
        bodies = [c for c in fn.get('inner', []) if c.get('kind') == 'CompoundStmt']
        if not bodies:
            raise TableError('no body for ' + fn.get('name', '?'))
        self.body = bodies[0]
        self.defs = {}          # local VarDecl id -> list of defining expression nodes
        self.local_names = {}
        self._collect_defs(self.body)

    # -- local definitions
    def _collect_defs(self, n):
        if not isinstance(n, dict):
            return
        k = n.get('kind')
        if k == 'VarDecl':
            self.local_names[n['id']] = n.get('name', '')
            self.defs.setdefault(n['id'], [])
            inner = [c for c in n.get('inner', []) if not c.get('kind', '').endswith(('Attr', 'Type', 'Comment'))]
            if inner and n.get('init'):
                init = inner[-1]
                core = self._unwrap(init)
                # a default construction (`Paths64 sol;`, `PolyTree64 tree;`) defines nothing
                if not (core.get('kind') == 'CXXConstructExpr' and
                        all(a.get('kind') == 'CXXDefaultArgExpr' for a in core.get('inner', []))):
                    self.defs[n['id']].append(init)
        elif k == 'BinaryOperator' and n.get('opcode') == '=':
            lhs = self._unwrap(n['inner'][0])
            if lhs.get('kind') == 'DeclRefExpr' and lhs['referencedDecl'].get('kind') == 'VarDecl':
                self.defs.setdefault(lhs['referencedDecl']['id'], []).append(n['inner'][1])
        elif k == 'CXXOperatorCallExpr':
            inner = n.get('inner', [])
            callee = self._unwrap(inner[0]) if inner else {}
            if callee.get('kind') == 'DeclRefExpr' and callee['referencedDecl'].get('name') == 'operator=' and len(inner) == 3:
                lhs = self._unwrap(inner[1])
                if lhs.get('kind') == 'DeclRefExpr' and lhs['referencedDecl'].get('kind') == 'VarDecl':
                    self.defs.setdefault(lhs['referencedDecl']['id'], []).append(inner[2])
        elif k in ('CompoundAssignOperator',) or (k == 'UnaryOperator' and n.get('opcode') in ('++', '--')):
            lhs = self._unwrap(n['inner'][0])
            if lhs.get('kind') == 'DeclRefExpr' and lhs['referencedDecl'].get('kind') == 'VarDecl':
                self.defs.setdefault(lhs['referencedDecl']['id'], []).extend([n, n])   # not single-assignment
        for c in n.get('inner', []):
            self._collect_defs(c)

    def _unwrap(self, n):
        while isinstance(n, dict):
            k = n.get('kind')
            inner = n.get('inner', [])
            if k in TRANSPARENT and len(inner) == 1:
                n = inner[0]
            elif k == 'CXXConstructExpr' and is_copy_move(n):
                n = inner[0]
            else:
                break
        return n

    # -- expression trees
    def ex(self, n, depth=0, inline=True):
        n = self._unwrap(n)
        k = n.get('kind')
        inner = n.get('inner', [])
        if depth > 40:
            return ['O', 'too-deep']
        if k == 'DeclRefExpr':
            rd = n['referencedDecl']
            rk = rd.get('kind')
            if rk == 'ParmVarDecl':
                if rd['id'] in self.param_ids:
                    return ['P', self.param_ids[rd['id']]]
                return ['L', rd.get('name', '')]
            if rk == 'VarDecl':
                ds = self.defs.get(rd['id'])
                if inline and ds is not None and len(ds) == 1:
                    return self.ex(ds[0], depth + 1)
                return ['L', rd.get('name', '')]
            if rk == 'EnumConstantDecl':
                if rd['id'] not in self.idx.enumval:
                    raise TableError('unknown enumerator ' + rd.get('name', ''))
                return ['E', rd.get('name', ''), self.idx.enumval[rd['id']]]
            return ['O', rd.get('name', '')]
        if k == 'IntegerLiteral':
            return ['I', int(n['value'])]
        if k == 'FloatingLiteral':
            return ['F', str(n['value'])]
        if k == 'CXXBoolLiteralExpr':
            return ['B', bool(n['value'])]
        if k in ('CXXNullPtrLiteralExpr', 'GNUNullExpr'):
            return ['N']
        if k == 'BinaryOperator':
            return ['Bin', n['opcode'], self.ex(inner[0], depth + 1), self.ex(inner[1], depth + 1)]
        if k == 'UnaryOperator':
            return ['Un', n['opcode'], self.ex(inner[0], depth + 1)]
        if k in EXPLICIT_CASTS:
            return ['Cast', n['type'].get('qualType', ''), self.ex(inner[0], depth + 1)]
        if k == 'CXXDefaultArgExpr':
            return ['Def']
        if k == 'CallExpr':
            name = self._callee_name(inner[0])
            return ['Call', name, [self.ex(a, depth + 1) for a in inner[1:]]]
        if k == 'CXXMemberCallExpr':
            me = self._unwrap(inner[0])
            name = self.idx.qname.get(me.get('referencedMemberDecl'), me.get('name', '?'))
            obj = [self.ex(me['inner'][0], depth + 1, inline=False)] if me.get('inner') else []
            return ['Call', name, obj + [self.ex(a, depth + 1) for a in inner[1:]]]
        if k in ('CXXConstructExpr', 'CXXTemporaryObjectExpr'):
            ty = re.sub(r'^(class|struct) ', '', n['type'].get('qualType', ''))
            return ['Call', 'new:' + ty, [self.ex(a, depth + 1) for a in inner]]
        if k == 'CXXOperatorCallExpr':
            name = self._callee_name(inner[0])
            return ['Call', name, [self.ex(a, depth + 1) for a in inner[1:]]]
        if k == 'ConditionalOperator':
            return ['Call', '?:', [self.ex(a, depth + 1) for a in inner]]
        if k == 'MemberExpr':
            return ['Call', 'member:' + n.get('name', ''), [self.ex(a, depth + 1) for a in inner]]
        if k == 'InitListExpr':
            return ['Call', 'init-list', [self.ex(a, depth + 1) for a in inner]]
        return ['O', str(k)]

    def _callee_name(self, c):
        c = self._unwrap(c)
        if c.get('kind') == 'DeclRefExpr':
            rd = c['referencedDecl']
            q = self.idx.qname.get(rd['id'])
            return q if q else rd.get('name', '?')
        return '?'

    # -- prologue
    def prologue(self):
        out = []
        for st in self.body.get('inner', []):
            if st.get('kind') != 'IfStmt' or st.get('hasElse'):
                break
            inner = st.get('inner', [])
            if len(inner) != 2:
                break
            then = inner[1]
            if then.get('kind') == 'CompoundStmt' and len(then.get('inner', [])) == 1:
                then = then['inner'][0]
            if then.get('kind') != 'ReturnStmt' or not then.get('inner'):
                break
            out.append([self.ex(inner[0]), self.ex(then['inner'][0])])
        return out

    # -- calls
    def calls(self):
        out = []
        self._calls(self.body, out)
        return out

    def _formals(self, decl):
        res = []
        for p in decl.get('inner', []):
            if p.get('kind') == 'ParmVarDecl':
                dflt = None
                if p.get('init') and p.get('inner'):
                    dflt = FnTranslator.__new__(FnTranslator)
                    dflt.idx, dflt.param_ids, dflt.defs, dflt.local_names = self.idx, {}, {}, {}
                    dflt = dflt.ex(p['inner'][0])
                res.append((p.get('name', ''), dflt))
        return res

    def _find_ctor(self, n):
        ty = n['type']
        cands = [re.sub(r'^(class|struct) ', '', ty.get('qualType', '')),
                 re.sub(r'^(class|struct) ', '', ty.get('desugaredQualType', ''))]
        sig = n.get('ctorType', {}).get('qualType')
        for c in cands:
            for q in (c, 'Clipper2Lib::' + c):
                for rec in self.idx.records.get(q, []):
                    for m in rec.get('inner', []):
                        if m.get('kind') == 'CXXConstructorDecl' and m.get('type', {}).get('qualType') == sig \
                                and not m.get('isImplicit'):
                            return q, m
        return None, None

    def _calls(self, n, out):
        if not isinstance(n, dict):
            return
        k = n.get('kind')
        inner = n.get('inner', [])
        if k == 'CallExpr' and inner:
            c = self._unwrap(inner[0])
            if c.get('kind') == 'DeclRefExpr' and c['referencedDecl']['id'] in self.idx.byid:
                decl = self.idx.byid[c['referencedDecl']['id']]
                self._emit(out, self.idx.qname[decl['id']], decl, inner[1:])
        elif k == 'CXXMemberCallExpr' and inner:
            me = self._unwrap(inner[0])
            did = me.get('referencedMemberDecl')
            if did in self.idx.byid:
                self._emit(out, self.idx.qname[did], self.idx.byid[did], inner[1:])
        elif k in ('CXXConstructExpr', 'CXXTemporaryObjectExpr') and not is_copy_move(n):
            q, ctor = self._find_ctor(n)
            if ctor is not None:
                self._emit(out, q + '::' + q.split('::')[-1], ctor, inner)
        for c in inner:
            self._calls(c, out)

    def _emit(self, out, qname, decl, args):
        formals = self._formals(decl)
        rows = []
        for i, a in enumerate(args):
            fname, dflt = formals[i] if i < len(formals) else ('', None)
            rows.append(dict(formal=fname, actual=self.ex(a), default=dflt))
        out.append(dict(callee=qname, args=rows))


def translate(inc, defines=()):
    docs = clang_ast(inc, defines)
    idx = Index(docs)
    found = {}

    def scan(n):
        if isinstance(n, dict):
            if n.get('kind') == 'FunctionDecl' and n.get('name') in EXPORTS and \
                    any(c.get('kind') == 'CompoundStmt' for c in n.get('inner', [])):
                found.setdefault(n['name'], n)
            for c in n.get('inner', []):
                scan(c)
    for d in docs:
        scan(d)
    table = []
    for name in EXPORTS:
        if name not in found:
            raise TableError('exported function %s not found (or has no body) in clipper.export.h' % name)
        fn = found[name]
        tr = FnTranslator(idx, fn)
        rt = fn['type']['qualType'].split('(')[0].strip()
        table.append(dict(name=name, ret=rt,
                          params=[[p.get('name', ''), p['type'].get('qualType', '')] for p in tr.params],
                          prologue=tr.prologue(), calls=tr.calls()))
    return table


# ------------------------------------------------------------------------------------------ Coq output
def cstr(s):
    return '"' + str(s).replace('"', '""') + '"'


def cz(z):
    return str(z) if z >= 0 else '(%d)' % z


def cex(e):
    t = e[0]
    if t == 'P':
        return '(EParam %s)' % cstr(e[1])
    if t == 'L':
        return '(ELocal %s)' % cstr(e[1])
    if t == 'I':
        return '(EInt %s)' % cz(e[1])
    if t == 'F':
        return '(EFlt %s)' % cstr(e[1])
    if t == 'B':
        return '(EBool %s)' % ('true' if e[1] else 'false')
    if t == 'N':
        return 'ENull'
    if t == 'E':
        return '(EEnum %s %s)' % (cstr(e[1]), cz(e[2]))
    if t == 'Bin':
        return '(EBin %s %s %s)' % (cstr(e[1]), cex(e[2]), cex(e[3]))
    if t == 'Un':
        return '(EUn %s %s)' % (cstr(e[1]), cex(e[2]))
    if t == 'Cast':
        return '(ECast %s %s)' % (cstr(e[1]), cex(e[2]))
    if t == 'Call':
        return '(ECall %s [%s])' % (cstr(e[1]), '; '.join(cex(a) for a in e[2]))
    if t == 'Def':
        return 'EDefault'
    return '(EOther %s)' % cstr(e[1] if len(e) > 1 else '?')


def show_ex(e):
    """human-readable rendering (for messages only)"""
    t = e[0]
    if t in ('P', 'L'):
        return e[1]
    if t in ('I', 'F'):
        return str(e[1])
    if t == 'B':
        return 'true' if e[1] else 'false'
    if t == 'N':
        return 'nullptr'
    if t == 'E':
        return e[1]
    if t == 'Bin':
        return '%s %s %s' % (show_ex(e[2]), e[1], show_ex(e[3]))
    if t == 'Un':
        return e[1] + show_ex(e[2])
    if t == 'Cast':
        return '%s(%s)' % (e[1].replace('Clipper2Lib::', ''), show_ex(e[2]))
    if t == 'Call':
        return '%s(%s)' % (e[1].replace('Clipper2Lib::', ''), ', '.join(show_ex(a) for a in e[2]))
    if t == 'Def':
        return '<default>'
    return '<%s>' % (e[1] if len(e) > 1 else '?')


def coq_fn(f):
    ps = '; '.join('(%s, %s)' % (cstr(n), cstr(t)) for n, t in f['params'])
    pro = ';\n      '.join('(%s, %s)' % (cex(c), cex(r)) for c, r in f['prologue'])
    calls = []
    for c in f['calls']:
        args = ';\n          '.join('mk_carg %s %s %s' % (cstr(a['formal']), cex(a['actual']),
                                                         ('(Some %s)' % cex(a['default'])) if a['default'] is not None else 'None')
                                    for a in c['args'])
        calls.append('mk_ccall %s\n        [ %s ]' % (cstr(c['callee']), args))
    return ('  mk_efn %s %s\n    [%s]\n    [ %s ]\n    [ %s ]'
            % (cstr(f['name']), cstr(f['ret']), ps, pro, ';\n      '.join(calls)))


def emit_coq(plain, z, srchash):
    out = ['(* GENERATED by cpp2v/export_table.py from clipper.export.h (sha256 %s) -- do not edit. *)' % srchash[:16],
           'From Coq Require Import ZArith List String.',
           'From Clip Require Import model.Export.',
           'Import ListNotations.',
           'Local Open Scope Z_scope.',
           'Local Open Scope string_scope.',
           '',
           'Definition table : list efn := [',
           ';\n'.join(coq_fn(f) for f in plain),
           '].',
           '',
           'Definition table_z : list efn := [',
           ';\n'.join(coq_fn(f) for f in z),
           '].',
           '']
    return '\n'.join(out)


# ------------------------------------------------------------------------------------------ driver
def source_hash(inc):
    h = hashlib.sha256()
    for f in HEADERS:
        p = os.path.join(inc, 'clipper2', f)
        h.update(f.encode())
        h.update(open(p, 'rb').read() if os.path.exists(p) else b'<missing>')
    h.update(open(os.path.abspath(__file__), 'rb').read())
    return h.hexdigest()


def regenerate(inc, out_v=None, cache_dir=None):
    """Returns dict(plain=…, z=…, hash=…, changed=bool).  Writes out_v only when its content changes."""
    out_v = out_v or os.path.join(VERIF, 'coq', 'gen', 'Gen_export.v')
    cache_dir = cache_dir or os.path.join(VERIF, '.cache')
    os.makedirs(cache_dir, exist_ok=True)
    hsh = source_hash(inc)
    cpath = os.path.join(cache_dir, 'export_table.%s.json' % hsh[:32])
    data = None
    if os.path.exists(cpath):
        try:
            data = json.load(open(cpath))
        except Exception:
            data = None
    if data is None:
        data = dict(plain=translate(inc), z=translate(inc, ['USINGZ']), hash=hsh)
        tmp = cpath + '.tmp%d' % os.getpid()
        with open(tmp, 'w') as f:
            json.dump(data, f)
        os.replace(tmp, cpath)
    txt = emit_coq(data['plain'], data['z'], hsh)
    old = open(out_v).read() if os.path.exists(out_v) else None
    data['changed'] = old != txt
    if data['changed']:
        os.makedirs(os.path.dirname(out_v), exist_ok=True)
        tmp = out_v + '.tmp%d' % os.getpid()
        with open(tmp, 'w') as f:
            f.write(txt)
        os.replace(tmp, out_v)
    return data


if __name__ == '__main__':
    repo = os.environ.get('VERIF_REPO', '/repo')
    inc = os.path.join(repo, 'CPP', 'Clipper2Lib', 'include')
    if len(sys.argv) > 1 and sys.argv[1] == '--show':
        for f in translate(inc):
            print(f['name'], f['ret'], f['params'])
            for c, r in f['prologue']:
                print('   if', show_ex(c), 'return', show_ex(r))
            for c in f['calls']:
                print('   call', c['callee'])
                for a in c['args']:
                    print('        %-20s <- %-60s default %s' % (a['formal'], show_ex(a['actual']),
                                                                 show_ex(a['default']) if a['default'] else '-'))
    else:
        d = regenerate(inc)
        print('Gen_export.v', 'rewritten' if d['changed'] else 'unchanged', d['hash'][:16])
