#!/usr/bin/env python3
"""Differential validation of the cpp2v translator: every translated target is run natively (g++ build of
/repo, harness/cx_gen.cpp) and through the Gallina definitions extracted to OCaml (bin/oracle_gen) on the
same inputs; the results must agree exactly (doubles bitwise, all NaNs identified).

    import validate;  n, bad = validate.validate(ctx, n_random)      # ctx: vf.Ctx or None
    python3 /verif/cpp2v/validate.py [n_random] [--seed S] [--targets A,B]

Inputs: boundary grids (0, +-1, +-2, +-2^31, +-2^61, int64 extremes where the C++ is defined) plus
seeded random values in several magnitude regimes, with deliberate coincidences between coordinates.
Inputs on which the model's integer results leave the int64 range correspond to signed overflow in C++
(undefined behaviour, excluded by separate range hypotheses) and are skipped, not compared.
"""
import math, os, struct, sys, time
HERE = os.path.dirname(os.path.abspath(__file__))
VERIF = os.path.dirname(HERE)
for p in (HERE, os.path.join(VERIF, 'lib')):
    if p not in sys.path:
        sys.path.insert(0, p)
import vf
import cpp2v
import vtable as vt

I63 = 1 << 63
CMAX = (1 << 62) - 1          # coordinates: differences and sums of two stay inside int64
BOUND_C = [0, 1, -1, 2, -2, 1 << 31, -(1 << 31), (1 << 31) - 1, (1 << 31) + 1, -(1 << 31) - 1, 1 << 52,
           (1 << 53) + 1, -(1 << 53) - 1, 1 << 61, -(1 << 61), CMAX, -CMAX]
BOUND_J = [0, 1, -1, 2, -2, 1 << 31, -(1 << 31), 1 << 61, -(1 << 61), (1 << 53) + 1, I63 - 1, -I63, -I63 + 1]
BOUND_U = [0, 1, 2, (1 << 32) - 1, 1 << 32, (1 << 32) + 1, 1 << 63, (1 << 64) - 1, (1 << 64) - 2, 0xFFFFFFFF00000000]
BOUND_N = [0, 1, -1, 2, 3, 7, 8, 9, -7, -8, -9, 64, (1 << 31) - 1, -(1 << 31), -(1 << 31) + 1]
DBL_MAX = sys.float_info.max
BOUND_D = [0.0, -0.0, 1.0, -1.0, 0.5, 2.0, 3.0, 1e-300, 5e-324, -5e-324, 1e154, 1.5e154, 1e308, DBL_MAX, -DBL_MAX,
           float('inf'), float('-inf'), float('nan'), 2.0 ** 53, 2.0 ** 63, -2.0 ** 63, 0.1]


class Cx:
    """per test line source of coordinates: one magnitude regime + a pool that creates coincidences"""

    def __init__(self, rng, regime=None):
        self.r = rng
        self.regime = regime if regime is not None else rng.below(7)
        self.pool = []
        self.base = None

    def raw(self, regime):
        r = self.r
        if regime == 0:
            return r.range(-3, 3)
        if regime == 1:
            return r.range(-100, 100)
        if regime == 2:
            return r.range(-(1 << 31), 1 << 31)
        if regime == 3:
            return r.range(-CMAX, CMAX)
        if regime == 4:
            return r.choice(BOUND_C)
        if regime == 5:
            return self.raw(r.below(5))
        if self.base is None:
            self.base = self.raw(r.below(5))
        return max(-CMAX, min(CMAX, self.base + r.range(-2, 2)))

    def c(self):
        r = self.r
        if self.pool and r.chance(1, 4):
            v = r.choice(self.pool) + (r.range(-1, 1) if r.chance(1, 3) else 0)
            v = max(-CMAX, min(CMAX, v))
        else:
            v = self.raw(self.regime)
        self.pool.append(v)
        return v

    def pt(self):
        return [self.c(), self.c()]


def rnd_bits(r, maxbits, signed):
    b = r.range(0, maxbits)
    v = r.below(1 << b) if b else 0
    if signed and r.chance(1, 2):
        v = -v
    return v


def gen_J(r, cx):
    return r.choice(BOUND_J) if r.chance(1, 4) else max(-I63, min(I63 - 1, rnd_bits(r, 63, True)))


def gen_prod(r, cx):
    v = gen_J(r, cx)
    return v if v != -I63 else -I63 + 1


def gen_U(r, cx):
    return r.choice(BOUND_U) if r.chance(1, 4) else rnd_bits(r, 64, False)


def gen_n(r, cx):
    if r.chance(1, 3):
        return r.choice(BOUND_N)
    if r.chance(1, 2):
        return r.range(-20, 20)
    return max(-(1 << 31), min((1 << 31) - 1, rnd_bits(r, 31, True)))


def gen_w(r):
    if r.chance(4, 5):
        return r.range(-3, 3)
    return max(-(1 << 31) + 1, min((1 << 31) - 1, rnd_bits(r, 31, True)))


def gen_dbl(r, cx):
    k = r.below(4)
    if k == 0:
        return r.choice(BOUND_D)
    if k == 1:
        return float(r.range(-1000, 1000)) / r.choice([1, 2, 4, 3, 10])
    if k == 2:
        return struct.unpack('<d', struct.pack('<Q', r.next()))[0]
    return math.ldexp(float(r.range(-(1 << 53), 1 << 53)), r.range(-80, 80))


def gen_active(r, cx):
    bot, top = cx.pt(), cx.pt()
    k = r.below(4)
    if k <= 1:      # the value SetDx would store
        dy = float(top[1] - bot[1])
        if dy != 0:
            dx = float(top[0] - bot[0]) / dy
        else:
            dx = -DBL_MAX if top[0] > bot[0] else DBL_MAX
    elif k == 2:
        dx = float(r.range(-4000, 4000)) / r.choice([1, 2, 3, 7, 1000])
    else:
        dx = gen_dbl(r, cx)
    return [bot, top, cx.c(), dx, r.choice([1, -1]), gen_w(r), gen_w(r), r.below(2), r.chance(1, 3)]


def gen_cy(r, cx, prev):
    a = prev[0]
    bot, top = a[0], a[1]
    k = r.below(5)
    if k == 0:
        return top[1]
    if k == 1:
        return bot[1]
    if k == 2:
        lo, hi = min(bot[1], top[1]), max(bot[1], top[1])
        return r.range(lo, hi)
    return cx.c()


def gen_rect(r, cx):
    a, b, c, d = cx.c(), cx.c(), cx.c(), cx.c()
    if r.chance(5, 6):
        return [min(a, c), min(b, d), max(a, c), max(b, d)]
    return [a, b, c, d]


def gen_rectpath(r, cx):
    if r.chance(5, 6):
        l, t, rr, b = gen_rect(r, cx)
        return [[l, t], [rr, t], [rr, b], [l, b]]
    return [cx.pt() for _ in range(4)]


DOMAINS = {
    'c': lambda r, cx, prev: cx.c(),
    'pt': lambda r, cx, prev: cx.pt(),
    'J': lambda r, cx, prev: gen_J(r, cx),
    'prod': lambda r, cx, prev: gen_prod(r, cx),
    'U': lambda r, cx, prev: gen_U(r, cx),
    'u128': lambda r, cx, prev: ([r.choice([0, 1, 5]), r.choice([0, 1, 5])] if r.chance(1, 2) else [gen_U(r, cx), gen_U(r, cx)]),
    'n': lambda r, cx, prev: gen_n(r, cx),
    'prec': lambda r, cx, prev: r.range(-12, 12) if r.chance(2, 3) else gen_n(r, cx),
    'err': lambda r, cx, prev: r.choice([0, 1, 2, 3, 4, 32, 64, -1, 65, 128]) if r.chance(3, 4) else gen_n(r, cx),
    'ct': lambda r, cx, prev: r.range(0, 4) if r.chance(9, 10) else r.choice([5, -1, 100]),
    'fr': lambda r, cx, prev: r.range(0, 3) if r.chance(9, 10) else r.choice([4, -1, 100]),
    'loc': lambda r, cx, prev: r.range(0, 4),
    'b': lambda r, cx, prev: r.chance(1, 2),
    'dbl': lambda r, cx, prev: gen_dbl(r, cx),
    'active': lambda r, cx, prev: gen_active(r, cx),
    'cy': gen_cy,
    'rect': lambda r, cx, prev: gen_rect(r, cx),
    'inode': lambda r, cx, prev: [cx.pt(), cx.c(), cx.c()],
    'outpt3': lambda r, cx, prev: [cx.pt(), cx.pt(), cx.pt(), r.chance(3, 4)],
    'rectpath': lambda r, cx, prev: gen_rectpath(r, cx),
}
GRID = {'c': BOUND_C, 'J': BOUND_J, 'prod': [v for v in BOUND_J if v != -I63], 'U': BOUND_U, 'n': BOUND_N,
        'prec': list(range(-10, 11)) + BOUND_N, 'err': [0, 1, 2, 3, 4, 5, 31, 32, 33, 64, 65, -1, 128],
        'ct': list(range(-1, 7)), 'fr': list(range(-1, 6)), 'loc': list(range(0, 5)), 'b': [False, True],
        'dbl': BOUND_D}


def flat(v):
    if isinstance(v, list):
        return [x for i in v for x in flat(i)]
    return [v]


def fmt_tok(kind, v):
    if kind in ('i', 'u'):
        return ('-%x' % -v) if v < 0 else ('%x' % v)
    if kind == 'b':
        return '1' if v else '0'
    if v != v:
        return 'nan'
    if v in (float('inf'), float('-inf')):
        return 'inf' if v > 0 else '-inf'
    return float(v).hex()


def make_inputs(e, rng, n_random):
    """list of token lists for table entry e"""
    kinds = [l for t, _ in e['args'] for l in vt.leaves(t)]
    doms = [d for _, d in e['args']]
    out = []
    if not doms:
        return [[]]
    # boundary part: full grid for <= 2 scalar arguments, else boundary-regime samples
    if len(doms) <= 2 and all(d in GRID for d in doms):
        import itertools
        for combo in itertools.product(*[GRID[d] for d in doms]):
            out.append(list(combo))
    elif all(d in GRID for d in doms) and len(doms) <= 4:
        for _ in range(600):
            out.append([rng.choice(GRID[d]) for d in doms])
    n_b = 400
    for k in range(n_b + n_random):
        cx = Cx(rng, 4 if k < n_b else None)
        prev = []
        for d in doms:
            prev.append(DOMAINS[d](rng, cx, prev))
        out.append(flat(prev))
    res = []
    for vals in out:
        assert len(vals) == len(kinds), (e['name'], vals, kinds)
        res.append([fmt_tok(k, v) for k, v in zip(kinds, vals)])
    return res


def parse_out(e, line):
    kinds = [l for t in e['res'] for l in vt.leaves(t)]
    toks = line.split()
    if not toks or toks[0] != '=' or len(toks) - 1 != len(kinds):
        return None
    vals = []
    for k, t in zip(kinds, toks[1:]):
        if k in ('i', 'u'):
            vals.append(int(t, 16))
        elif k == 'b':
            vals.append(t == '1')
        else:
            t = t.replace('infinity', 'inf')
            f = float('nan') if 'nan' in t else (float(t) if 'inf' in t else float.fromhex(t))
            vals.append('nan' if f != f else struct.pack('<d', f))
    return kinds, vals


class _Ctx:
    seed = 1

    def __init__(self):
        self.builds = []

    def log(self, m):
        print('[validate] ' + m, flush=True)


def validate(ctx_like=None, n_random=2000, targets=None):
    """-> (n_compared, list_of_disagreements).  Raises vf.Infra when a driver cannot be built or crashes
    (e.g. a target failed to translate, so Extract_gen.v no longer compiles: a tie break for the caller)."""
    ctx = ctx_like or _Ctx()
    log = getattr(ctx, 'log', lambda m: None)
    seed = getattr(ctx, 'seed', 1)
    t0 = time.time()
    ok, failures = cpp2v.regenerate(repo=vf.REPO, out=os.path.join(vf.COQ, 'gen'))
    if not ok:
        raise vf.Infra('cpp2v: untranslatable targets: ' + '; '.join(failures))
    oracle = vf.oracle_build('gen')
    pkey = cpp2v.input_hash(vf.REPO)
    work = os.path.join(cpp2v.CACHE, 'work', pkey[:16])
    os.makedirs(work, exist_ok=True)
    phdr, nrep = cpp2v.portable_header(vf.REPO, work)
    if nrep == 0:
        raise vf.Infra('portable variant: 128-bit #if line not found in clipper.core.h')
    bins = {
        'plain': vf.build_cpp(ctx, 'cx_gen.cpp', 'plain'),
        'hi': vf.build_cpp(ctx, 'cx_gen.cpp', 'hi'),
        'noexc': vf.build_cpp(ctx, 'cx_gen.cpp', 'noexc'),
        'portable': vf.build_cpp(ctx, 'cx_gen.cpp', 'plain', extra=['-DCX_CORE_H="%s"' % phdr]),
    }
    log('drivers ready after %.1fs' % (time.time() - t0))
    entries = [e for e in vt.TABLE if targets is None or e['name'] in targets]
    jobs = []           # (entry, tokens)
    for idx, e in enumerate(entries):
        rng = vf.Rng(seed, 7000 + vt.TABLE.index(e))
        for toks in make_inputs(e, rng, n_random):
            jobs.append((e, toks))
    # model side: one run over everything
    mlines = [' '.join([e['name']] + t) for e, t in jobs]
    mout, mfail = vf.par_lines(oracle, mlines, timeout=1800)
    if mfail:
        raise vf.Infra('oracle_gen failed: rc=%s %s' % (mfail[0][1], mfail[0][2][-500:]))
    nout = [None] * len(jobs)
    for var, b in bins.items():
        idxs = [i for i, (e, _) in enumerate(jobs) if e['variant'] == var]
        if not idxs:
            continue
        lines = [' '.join([jobs[i][0]['cxx']] + jobs[i][1]) for i in idxs]
        o, fail = vf.par_lines(b, lines, timeout=1800)
        if fail:
            raise vf.Infra('cx_gen[%s] failed: rc=%s %s' % (var, fail[0][1], fail[0][2][-500:]))
        for i, l in zip(idxs, o):
            nout[i] = l
    n_cmp, skipped, bad = 0, 0, []
    per = {}
    for (e, toks), ml, nl in zip(jobs, mout, nout):
        pm, pn = parse_out(e, ml), parse_out(e, nl)
        if pm is None or pn is None:
            bad.append(dict(target=e['name'], input=' '.join(toks), native=nl, model=ml, why='malformed output'))
            continue
        kinds, mv = pm
        if any(k == 'i' and not (-I63 <= v < I63) for k, v in zip(kinds, mv)):
            skipped += 1        # signed overflow in C++ (UB): not comparable
            continue
        n_cmp += 1
        per[e['name']] = per.get(e['name'], 0) + 1
        if mv != pn[1]:
            bad.append(dict(target=e['name'], input=' '.join(toks), native=nl, model=ml))
    log('compared %d evaluations of %d targets (%d skipped: model result outside int64), %d disagreements, %.1fs'
        % (n_cmp, len(entries), skipped, len(bad), time.time() - t0))
    validate.last = dict(per_target=per, skipped=skipped, wall=time.time() - t0)
    return n_cmp, bad


def main():
    import argparse
    ap = argparse.ArgumentParser()
    ap.add_argument('n_random', nargs='?', type=int, default=2000)
    ap.add_argument('--seed', type=int, default=1)
    ap.add_argument('--targets')
    a = ap.parse_args()
    c = _Ctx()
    c.seed = a.seed
    try:
        n, bad = validate(c, a.n_random, set(a.targets.split(',')) if a.targets else None)
    except vf.Infra as e:
        print('INFRA: ' + str(e)[:3000])
        sys.exit(2)
    for b in bad[:40]:
        print('DISAGREE %(target)s  input: %(input)s\n   native: %(native)s\n   model:  %(model)s' % b)
    print('validate: %d compared, %d disagreements' % (n, len(bad)))
    sys.exit(1 if bad else 0)


if __name__ == '__main__':
    main()
