"""Generic translator: clang JSON AST of one function (small scalar subset of C++) -> Gallina term.

Anything outside the supported subset raises Unsupported (the target then fails; nothing is emitted).
"""
import re
from ir import (Ty, int_ty, BOOL, F64, VOID, UNIT, I32, I64, tuple_ty, Term, Var, Lit, App, Bin, If, Tup, Let, Fun,
                Ret, walk, rewrite)
import targets as cfg


class Unsupported(Exception):
    pass


# ----------------------------------------------------------------------------- C++ types
def _split_top(s, sep=','):
    out, d, cur = [], 0, ''
    for ch in s:
        if ch in '<([':
            d += 1
        elif ch in '>)]':
            d -= 1
        if ch == sep and d == 0:
            out.append(cur)
            cur = ''
        else:
            cur += ch
    if cur.strip():
        out.append(cur)
    return [x.strip() for x in out]


def norm_type(s):
    s = s.strip()
    s = re.sub(r'\b(const|volatile|struct|class|enum|typename)\b', ' ', s)
    s = s.replace('Clipper2Lib::', '')
    s = re.sub(r'\s+', ' ', s).strip()
    s = re.sub(r'\s*([<>,*&])\s*', r'\1', s)
    s = s.replace(',', ', ')
    return s


class CType:
    def __init__(self, ty, ref=False, const=False):
        self.ty, self.ref, self.const = ty, ref, const


def parse_type(s, overrides=None):
    """C++ type string -> CType; raises Unsupported for unknown types"""
    raw = s
    s = s.strip()
    if s.startswith('(lambda at') or s.startswith('const (lambda at'):
        return CType(Ty('lambda', '?', 'lambda'))
    isconst = bool(re.search(r'\bconst\b', s))
    n = norm_type(s)
    ref = False
    if n.endswith('&&'):
        n, ref = n[:-2], True
    elif n.endswith('&'):
        n, ref = n[:-1], True
    if n.endswith('*'):
        try:
            inner = parse_type(n[:-1], overrides).ty
        except Unsupported:
            inner = None
        return CType(Ty('ptr', '?', 'ptr', pointee=inner), ref, isconst)
    key = (overrides or {}).get(n) or cfg.CXX_TYPES.get(n)
    if key is None:
        raise Unsupported('unsupported C++ type `%s`' % raw)
    return CType(cfg.ty_from_key(key), ref, isconst)


def node_type_str(n):
    t = n.get('type') or {}
    return t.get('desugaredQualType') or t.get('qualType') or ''


def node_ctype(n, overrides=None):
    """prefer the sugared spelling when it is a configured alias (e.g. Path64), else the desugared"""
    t = n.get('type') or {}
    q, d = t.get('qualType'), t.get('desugaredQualType')
    errs = None
    for s in (q, d):
        if s:
            try:
                return parse_type(s, overrides)
            except Unsupported as e:
                errs = errs or e
    raise errs or Unsupported('node without type')


def parse_fn_type(s):
    """'RET (A, B) const noexcept' -> (ret_str, [arg_strs], is_const)"""
    d = 0
    start = None
    for i, ch in enumerate(s):
        if ch == '<':
            d += 1
        elif ch == '>':
            d -= 1
        elif ch == '(' and d == 0:
            start = i
            break
    if start is None:
        raise Unsupported('not a function type: ' + s)
    d = 0
    end = None
    for i in range(start, len(s)):
        if s[i] == '(':
            d += 1
        elif s[i] == ')':
            d -= 1
            if d == 0:
                end = i
                break
    args = s[start + 1:end].strip()
    tail = s[end + 1:]
    arglist = [] if args in ('', 'void') else _split_top(args)
    return s[:start].strip(), arglist, bool(re.search(r'\bconst\b', tail))


def sig_keys(fn_type_str, overrides=None):
    """argument type keys of a function type, or None if some type is not supported"""
    try:
        _, args, _ = parse_fn_type(fn_type_str)
        return [parse_type(a, overrides).ty.key for a in args]
    except Unsupported:
        return None


# ----------------------------------------------------------------------------- struct helpers
def struct_cfg(ty):
    return cfg.STRUCTS[ty.struct]


def struct_fields(ty):
    return struct_cfg(ty)['fields']


def get_field(base, ty, path):
    """apply one configured access path to a struct value"""
    for p, getter, key in struct_fields(ty):
        if p == path:
            fty = cfg.ty_from_key(key)
            if getter is None:
                return Var(base.name, fty) if isinstance(base, Var) else base
            return App(getter, [base], fty)
    return None


def resolve_path(base, names, where=''):
    """fold a C++ member access path over the struct configuration (longest configured prefix first)"""
    cur = base
    names = list(names)
    while names:
        if cur.ty.kind != 'struct':
            raise Unsupported('member access .%s on non-struct value (%s)%s' % ('.'.join(names), cur.ty.key, where))
        paths = sorted((p for p, _, _ in struct_fields(cur.ty)), key=len, reverse=True)
        for p in paths:
            if tuple(names[:len(p)]) == p:
                cur = get_field(cur, cur.ty, p)
                names = names[len(p):]
                break
        else:
            raise Unsupported('field path .%s of %s is not in the field map%s' % ('.'.join(names), cur.ty.key, where))
    return cur


def set_field(base, ty, path, val):
    """functional update: rebuild the struct with `path` replaced by val"""
    c = struct_cfg(ty)
    items = []
    found = False
    for p, getter, key in c['fields']:
        if p == path:
            items.append(val)
            found = True
        else:
            if getter is None:
                raise Unsupported('cannot update struct ' + ty.key)
            items.append(App(getter, [base], cfg.ty_from_key(key)))
    if not found:
        raise Unsupported('assignment to unmapped field .%s of %s' % ('.'.join(path), ty.key))
    if c['ctor']:
        return App(c['ctor'], items, ty)
    return Tup(items, ty)


def make_struct(ty, vals):
    c = struct_cfg(ty)
    if c['ctor']:
        return App(c['ctor'], vals, ty)
    return Tup(vals, ty)


def default_of(ty):
    if ty.kind == 'int':
        return Lit('0', ty, 'Z')
    if ty.kind == 'bool':
        return Lit('false', ty)
    if ty.kind == 'float':
        return Lit('0', ty, 'float')
    if ty.kind == 'struct':
        c = struct_cfg(ty)
        if c.get('dflt'):
            return Lit(c['dflt'], ty)
        return make_struct(ty, [default_of(cfg.ty_from_key(k)) for _, _, k in c['fields']])
    if ty.kind == 'tuple':
        return Tup([default_of(t) for t in ty.items], ty)
    raise Unsupported('no default value for type ' + ty.key)


def all_fields(ty):
    if ty.kind == 'struct':
        return set(p for p, _, _ in struct_fields(ty))
    return {()}


# ----------------------------------------------------------------------------- AST helpers
LOOPS = ('ForStmt', 'WhileStmt', 'DoStmt', 'CXXForRangeStmt', 'GotoStmt', 'LabelStmt', 'ContinueStmt')
TRANSPARENT = ('ParenExpr', 'ExprWithCleanups', 'MaterializeTemporaryExpr', 'CXXBindTemporaryExpr',
               'SubstNonTypeTemplateParmExpr', 'ConstantExpr', 'FullExpr')
CASTS = ('ImplicitCastExpr', 'CXXStaticCastExpr', 'CXXFunctionalCastExpr', 'CStyleCastExpr')


def inner(n):
    return [c for c in n.get('inner', []) if isinstance(c, dict) and c.get('kind')]


def strip(n):
    """drop value-preserving wrappers"""
    while True:
        k = n.get('kind')
        if k in TRANSPARENT and inner(n):
            n = inner(n)[0]
        elif k in CASTS and n.get('castKind') in ('LValueToRValue', 'NoOp', 'FunctionToPointerDecay',
                                                  'ConstructorConversion') and inner(n):
            # NoOp casts between identical translated types (const adjustments)
            n = inner(n)[0]
        else:
            return n


def callee_ref(call):
    c = strip(inner(call)[0])
    if c.get('kind') == 'DeclRefExpr':
        return c['referencedDecl'], None
    if c.get('kind') == 'MemberExpr':
        return dict(kind='CXXMethodDecl', name=c.get('name'), id=c.get('referencedMemberDecl'),
                    type=c.get('type', {})), inner(c)[0]
    return None, None


def op_name(call):
    r, _ = callee_ref(call)
    return r.get('name') if r else None


def access_path(e):
    """MemberExpr / deref / operator-> / [const] chain -> (base node, [names])"""
    names = []
    while True:
        e = strip(e)
        k = e.get('kind')
        if k == 'MemberExpr':
            names.insert(0, e.get('name'))
            e = inner(e)[0]
        elif k == 'UnaryOperator' and e.get('opcode') == '*':
            e = inner(e)[0]
        elif k == 'CXXOperatorCallExpr' and op_name(e) in ('operator->', 'operator*') and len(inner(e)) == 2:
            e = inner(e)[1]
        elif k == 'CXXOperatorCallExpr' and op_name(e) == 'operator[]' and len(inner(e)) == 3 \
                and const_index(inner(e)[2]) is not None:
            names.insert(0, '[%s]' % const_index(inner(e)[2]))
            e = inner(e)[1]
        else:
            return e, names


def const_index(n):
    n = strip(n)
    while n.get('kind') in CASTS and n.get('castKind') == 'IntegralCast' and inner(n):
        n = strip(inner(n)[0])
    return n.get('value') if n.get('kind') == 'IntegerLiteral' else None


def find_kinds(n, kinds, stop=()):
    """all descendant nodes (including n) whose kind is in kinds; do not descend into `stop` kinds"""
    res = []

    def rec(x):
        if not isinstance(x, dict):
            return
        k = x.get('kind')
        if k in kinds:
            res.append(x)
        if k in stop and x is not n:
            return
        for c in x.get('inner', []) or []:
            rec(c)
    rec(n)
    return res


# ----------------------------------------------------------------------------- environment
class VarInfo:
    def __init__(self, name, ty, undef=(), orig=(), bound=True, lam=None):
        self.name, self.ty = name, ty
        self.undef = set(undef)     # access paths whose value is indeterminate ( () = the whole scalar )
        self.orig = set(orig)       # access paths still holding the caller's input value (out-params / this)
        self.bound = bound          # is the Coq name bound at this point?
        self.lam = lam              # local lambda: dict(params=[Ty], ret=Ty)

    def copy(self):
        return VarInfo(self.name, self.ty, self.undef, self.orig, self.bound, self.lam)


class Env:
    def __init__(self, vars=None):
        self.vars = vars or {}

    def copy(self):
        return Env({k: v.copy() for k, v in self.vars.items()})


class K:
    """statement continuation; cheap = duplicating it costs nothing (a tuple of variables, a call)"""

    def __init__(self, fn, cheap=False):
        self.fn, self.cheap = fn, cheap


def with_pre(pre, body):
    for pat, rhs in reversed(pre):
        body = Let(pat, rhs, body)
    return body


def lit_int(t):
    """integer value of a numeric literal term, else None"""
    if isinstance(t, Lit) and t.scope == 'Z' and re.fullmatch(r'-?\d+', t.text):
        return int(t.text)
    return None


def int_range(ty):
    if ty.signed:
        return -(1 << (ty.bits - 1)), (1 << (ty.bits - 1)) - 1
    return 0, (1 << ty.bits) - 1


ABS_FUNCS = ('abs', 'labs', 'llabs', 'fabs', 'fabsl', 'imaxabs')
ROUND_FUNCS = {'nearbyint': 'F2I64_rne', 'rint': 'F2I64_rne', 'lrint': 'F2I64_rne', 'llrint': 'F2I64_rne',
               'round': 'F2I64_round', 'lround': 'F2I64_round', 'llround': 'F2I64_round', 'trunc': 'F2I64_trunc'}


class TargetInfo:
    """what a caller needs to know about an already translated target"""

    def __init__(self, name, spec, params, this, ret, may_throw, reads_input, passes):
        self.name, self.spec, self.params, self.this, self.ret = name, spec, params, this, ret
        self.may_throw, self.reads_input, self.passes = may_throw, reads_input, passes
        # params: [(ctype)], this: None | ('none',) | ('params', [...]) | ('struct', key, mutating)

    @property
    def out_positions(self):
        res = []
        if self.this and self.this[0] == 'struct' and self.this[2]:
            res.append('this')
        res += [i for i, p in enumerate(self.params) if p.ref and not p.const]
        return res


class FT:
    """translator for one function / method / constructor / lambda body"""

    def __init__(self, decl, spec, world, tu):
        self.decl, self.spec, self.world, self.tu = decl, spec, world, tu
        self.used = set()
        self.reads_input = set()
        self.passes = set()
        self.overrides = spec.get('types') or {}
        self.kind = spec.get('kind', 'func')
        self.this_mode = spec.get('this')
        self.out_ids = []

    # ------------------------------------------------------------------ names
    def fresh(self, base):
        base = re.sub(r'[^A-Za-z0-9_]', '_', base) or 'v'
        if base[0].isdigit():
            base = 'v' + base
        if base in cfg.RESERVED or self.world.is_global_name(base) or base == '_':
            base += '_'
        name, n = base, 1
        while name in self.used:
            n += 1
            name = '%s%d' % (base, n)
        self.used.add(name)
        return name

    def ctype(self, n):
        return node_ctype(n, self.overrides)

    # ------------------------------------------------------------------ entry point
    def translate(self):
        d = self.decl
        ftype = node_type_str(d)
        ret_s, _, is_const = parse_fn_type(d['type']['qualType'])
        env = Env()
        params = []           # Gallina parameters [(name, coqtype)]
        self.cparams = []     # C++ parameters as CType
        this_info = None
        tm = self.this_mode
        if tm and tm[0] == 'params':
            for pn in tm[1]:
                ty = cfg.ty_from_key(cfg.THIS_PARAM_TYPES[pn])
                self.used.add(pn)
                params.append((pn, ty.coq))
            this_info = ('params', list(tm[1]))
        elif tm and tm[0] == 'struct':
            ty = cfg.ty_from_key(tm[1])
            mutating = self.kind == 'ctor' or not is_const
            nm = self.fresh('this')
            if self.kind == 'ctor':
                env.vars['this'] = VarInfo(nm, ty, undef=all_fields(ty), bound=False)
            else:
                env.vars['this'] = VarInfo(nm, ty, orig=all_fields(ty) if mutating else ())
                params.append((nm, ty.coq))
            if mutating:
                self.out_ids.append('this')
            this_info = ('struct', tm[1], mutating)
        elif tm:
            this_info = ('none',)
        body = None
        inits = []
        for c in inner(d):
            k = c['kind']
            if k == 'ParmVarDecl':
                if not c.get('name'):
                    raise Unsupported('unnamed parameter')
                ct = self.ctype(c)
                if ct.ty.kind in ('ptr', 'lambda', 'void'):
                    raise Unsupported('parameter `%s` of unsupported type %s' % (c['name'], node_type_str(c)))
                nm = self.fresh(c['name'])
                out = ct.ref and not ct.const
                env.vars[c['id']] = VarInfo(nm, ct.ty, orig=all_fields(ct.ty) if out else ())
                if out:
                    self.out_ids.append(c['id'])
                params.append((nm, ct.ty.coq))
                self.cparams.append(ct)
            elif k == 'CompoundStmt':
                body = c
            elif k == 'CXXCtorInitializer':
                inits.append(c)
        if body is None:
            raise Unsupported('no body (declaration only / not instantiated)')
        self.ret = VOID if self.kind == 'ctor' else parse_type(ret_s, self.overrides).ty
        if self.ret.kind in ('ptr', 'lambda'):
            raise Unsupported('unsupported return type ' + ret_s)
        pre = []
        for ci in inits:
            fld = (ci.get('anyInit') or {}).get('name')
            if not fld or not inner(ci):
                raise Unsupported('base/delegating constructor initializer')
            val = self.tr(inner(ci)[0], env, pre)
            pre.append(self.assign_path(env, 'this', [fld], val))
        end = K(lambda e: self.at_end(e), cheap=True)
        term = with_pre(pre, self.stmt(body, env, end, None))
        # resolve the exit placeholders
        rets = []
        walk(term, lambda t: rets.append(t) if isinstance(t, Ret) else None)
        may_throw = any(r.kind == 'throw' for r in rets)
        out_tys = [env.vars[i].ty for i in self.out_ids]
        res_tys = ([BOOL] if may_throw else []) + ([self.ret] if self.ret.kind != 'void' else []) + out_tys
        res_ty = tuple_ty(res_tys)

        def fix(t):
            if not isinstance(t, Ret):
                return t
            items = []
            if may_throw:
                items.append(Lit('true' if t.kind == 'throw' else 'false', BOOL))
            if self.ret.kind != 'void':
                items.append(t.value if t.value is not None else default_of(self.ret))
            items += t.outs
            if len(items) == 1:
                return items[0]
            return Tup(items, res_ty)
        term = rewrite(term, fix)
        term = rewrite(term, peephole)
        pos = {}
        if 'this' in env.vars:
            pos['this'] = 'this'
        pi = 0
        for c in inner(d):
            if c['kind'] == 'ParmVarDecl':
                pos[c['id']] = pi
                pi += 1
        info = TargetInfo(self.spec.get('name'), self.spec, self.cparams, this_info, self.ret, may_throw,
                          set(pos[i] for i in self.reads_input if i in pos),
                          set(pos[i] for i in self.passes if i in pos))
        return dict(params=params, res_ty=res_ty, term=term, info=info)

    def outs(self, env):
        res = []
        for i in self.out_ids:
            v = env.vars[i]
            if i == 'this' and self.kind == 'ctor' and v.undef:
                raise Unsupported('constructor may leave field(s) %s indeterminate' %
                                  ','.join('.'.join(p) for p in sorted(v.undef)))
            if v.orig:
                self.passes.add(i)
            res.append(self.cur(env, i))
        return res

    def at_end(self, env):
        if self.ret.kind != 'void':
            raise Unsupported('control may reach the end of a non-void function')
        return Ret('ret', None, self.outs(env))

    def cur(self, env, i):
        v = env.vars[i]
        return Var(v.name, v.ty) if v.bound else default_of(v.ty)

    # ------------------------------------------------------------------ variables
    def var_of(self, n, env):
        """AST lvalue base -> env key (or None)"""
        n = strip(n)
        if n.get('kind') == 'CXXThisExpr':
            return 'this' if 'this' in env.vars else None
        if n.get('kind') == 'DeclRefExpr':
            i = n['referencedDecl'].get('id')
            return i if i in env.vars else None
        return None

    def read_var(self, env, i, path=None):
        """term for reading variable i (whole, or starting with configured field path `path`)"""
        v = env.vars[i]
        if v.lam is not None:
            raise Unsupported('lambda `%s` used as a value' % v.name)
        bad = v.undef if path is None else (v.undef & {path, ()})
        if bad:
            raise Unsupported('read of possibly uninitialized `%s`' % v.name)
        if (v.orig if path is None else (v.orig & {path, ()})):
            self.reads_input.add(i)
        if not v.bound:
            raise Unsupported('read of unbound `%s`' % v.name)
        return Var(v.name, v.ty)

    def first_path(self, ty, names):
        if ty.kind != 'struct':
            return None
        for p in sorted((p for p, _, _ in struct_fields(ty)), key=len, reverse=True):
            if tuple(names[:len(p)]) == p:
                return p
        return None

    def assign_path(self, env, i, names, val):
        """(pattern, rhs) binding for  var[.names] = val ; updates the definedness state"""
        v = env.vars[i]
        if v.lam is not None:
            raise Unsupported('assignment to lambda')
        if not names:
            v.undef.clear()
            v.orig.clear()
            v.bound = True
            return (v.name, val)
        p = tuple(names)
        if v.ty.kind != 'struct' or p not in [q for q, _, _ in struct_fields(v.ty)]:
            raise Unsupported('assignment to .%s of `%s` is not a mapped field' % ('.'.join(names), v.name))
        base = Var(v.name, v.ty) if v.bound else default_of(v.ty)
        new = set_field(base, v.ty, p, val)
        v.undef.discard(p)
        v.undef.discard(())
        v.orig.discard(p)
        v.bound = True
        return (v.name, new)

    # ------------------------------------------------------------------ expressions
    def tr(self, e, env, pre):
        k = e.get('kind')
        if k in TRANSPARENT:
            return self.tr(inner(e)[0], env, pre)
        h = getattr(self, 'x_' + k, None)
        if h is None:
            raise Unsupported('unsupported expression node ' + str(k))
        return h(e, env, pre)

    def pure(self, e, env, what):
        pre = []
        t = self.tr(e, env, pre)
        if pre:
            raise Unsupported('call with out-parameters inside ' + what)
        return t

    def x_IntegerLiteral(self, e, env, pre):
        return Lit(str(int(e['value'])), self.ctype(e).ty, 'Z')

    def x_CXXBoolLiteralExpr(self, e, env, pre):
        return Lit('true' if e['value'] in (True, 'true') else 'false', BOOL)

    def x_FloatingLiteral(self, e, env, pre):
        if self.ctype(e).ty.kind != 'float':
            raise Unsupported('non-double floating literal')
        return float_lit(float(e['value']))

    def x_ImplicitValueInitExpr(self, e, env, pre):
        return default_of(self.ctype(e).ty)

    def x_CXXThisExpr(self, e, env, pre):
        if 'this' not in env.vars:
            raise Unsupported('use of `this` (no field map configured)')
        return self.read_var(env, 'this')

    def x_DeclRefExpr(self, e, env, pre):
        rd = e['referencedDecl']
        rk = rd.get('kind')
        if rk in ('ParmVarDecl', 'VarDecl'):
            i = rd.get('id')
            if i in env.vars:
                return self.read_var(env, i)
            if rk == 'VarDecl':
                ty = self.ctype(e).ty
                return Lit(self.world.global_const(self.tu, rd.get('name')), ty)
            raise Unsupported('reference to unknown variable ' + str(rd.get('name')))
        if rk == 'EnumConstantDecl':
            ty = self.ctype(e).ty
            if not ty.enum:
                raise Unsupported('enumerator of unknown enum type ' + node_type_str(e))
            return Lit(self.world.enum_const(ty.enum, rd['name']), ty)
        raise Unsupported('reference to %s %s' % (rk, rd.get('name')))

    def path_expr(self, e, env, pre):
        base, names = access_path(e)
        bk = base.get('kind')
        if bk == 'CXXThisExpr' and self.this_mode and self.this_mode[0] == 'params':
            if names and names[0] in self.this_mode[1]:
                ty = cfg.ty_from_key(cfg.THIS_PARAM_TYPES[names[0]])
                return resolve_path(Var(names[0], ty), names[1:])
            raise Unsupported('member `%s` of this is not in the field map' % '.'.join(names))
        i = self.var_of(base, env)
        if i is not None:
            v = env.vars[i]
            if not names:
                return self.read_var(env, i)
            p = self.first_path(v.ty, names)
            if p is None:
                raise Unsupported('field path .%s of `%s` (%s) is not in the field map' %
                                  ('.'.join(names), v.name, v.ty.key))
            return resolve_path(self.read_var(env, i, p), names, ' in `%s`' % v.name)
        if bk == 'CXXThisExpr':
            raise Unsupported('use of `this` (no field map configured)')
        if base is e or not names:
            raise Unsupported('unsupported lvalue expression ' + str(bk))
        return resolve_path(self.tr(base, env, pre), names)

    def x_MemberExpr(self, e, env, pre):
        return self.path_expr(e, env, pre)

    def x_ParenExpr(self, e, env, pre):
        return self.tr(inner(e)[0], env, pre)

    # ---- casts
    def cast(self, e, env, pre):
        ck = e.get('castKind')
        sub = inner(e)[0]
        if ck in ('LValueToRValue', 'NoOp', 'ConstructorConversion', 'DerivedToBase', 'UncheckedDerivedToBase'):
            return self.tr(sub, env, pre)
        dst = self.ctype(e).ty
        if ck == 'ToVoid':
            return self.tr(sub, env, pre)
        if ck == 'FloatingToIntegral':
            if dst.key != 'i64':
                raise Unsupported('double -> %s conversion (only int64_t is modelled)' % dst.key)
            s = strip(sub)
            if s.get('kind') == 'CallExpr':
                rd, _ = callee_ref(s)
                nm = rd.get('name') if rd else None
                if nm in ROUND_FUNCS and len(inner(s)) == 2 and self.ctype(s).ty.kind == 'float' \
                        and not self.world.is_target_name(nm):
                    return App(ROUND_FUNCS[nm], [self.tr(inner(s)[1], env, pre)], dst)
            return App('F2I64_trunc', [self.tr(sub, env, pre)], dst)
        x = self.tr(sub, env, pre)
        src = x.ty
        if ck == 'IntegralCast':
            if src.kind == 'bool':
                return App('b2z', [x], dst)
            if src.kind != 'int' or dst.kind != 'int':
                raise Unsupported('IntegralCast %s -> %s' % (src.key, dst.key))
            return self.int_convert(x, src, dst)
        if ck == 'IntegralToFloating':
            if src.kind == 'bool':
                x = App('b2z', [x], I32)
            n = lit_int(x)
            if n is not None and abs(n) <= (1 << 53):
                return Lit(str(n), F64, 'float')
            return App('Z2F', [x], F64)
        if ck == 'IntegralToBoolean':
            return App('negb', [Bin('Z', '=?', x, Lit('0', src, 'Z'), BOOL)], BOOL)
        if ck == 'FloatingToBoolean':
            return App('negb', [Bin('float', '=?', x, Lit('0', F64, 'float'), BOOL)], BOOL)
        if ck == 'FloatingCast':
            if src.kind == 'float' and dst.kind == 'float':
                return x
        raise Unsupported('cast kind %s (%s -> %s)' % (ck, src.key, dst.key))

    def int_convert(self, x, src, dst):
        slo, shi = int_range(src)
        dlo, dhi = int_range(dst)
        n = lit_int(x)
        if (dlo <= slo and shi <= dhi) or (n is not None and dlo <= n <= dhi):
            return retype(x, dst)
        if dst.signed:
            return App('wraps', [Lit(str(dst.bits), I32, 'Z'), x], dst)
        return self.wrap(x, dst)

    def wrap(self, x, ty):
        if ty.kind != 'int' or ty.signed:
            return x
        if ty.bits == 64:
            return App('wrap64', [x], ty)
        if ty.bits == 32:
            return App('wrap32', [x], ty)
        return App('wrapu', [Lit(str(ty.bits), I32, 'Z'), x], ty)

    x_ImplicitCastExpr = x_CXXStaticCastExpr = x_CStyleCastExpr = cast

    def x_CXXFunctionalCastExpr(self, e, env, pre):
        return self.cast(e, env, pre)

    # ---- operators
    def x_UnaryOperator(self, e, env, pre):
        op = e['opcode']
        sub = inner(e)[0]
        if op == '*':
            return self.path_expr(e, env, pre)
        if op in ('++', '--'):
            raise Unsupported('++/-- used as a value')
        if op == '&':
            raise Unsupported('address-of')
        x = self.tr(sub, env, pre)
        ty = self.ctype(e).ty
        if op == '+':
            return x
        if op == '!':
            return App('negb', [x], BOOL)
        if op == '-':
            if ty.kind == 'float':
                return App('PrimFloat.opp', [x], ty)
            n = lit_int(x)
            if n is not None and ty.signed:
                return Lit(str(-n), ty, 'Z')
            return self.wrap(App('Z.opp', [x], ty), ty)
        if op == '~':
            return self.wrap(App('Z.lnot', [x], ty), ty)
        raise Unsupported('unary operator ' + op)

    def arith(self, op, a, b, ty):
        if ty.kind == 'float':
            if op in '+-*/':
                return Bin('float', op, a, b, ty)
            raise Unsupported('operator %s on double' % op)
        if ty.kind != 'int':
            raise Unsupported('operator %s on %s' % (op, ty.key))
        if op in ('+', '-', '*'):
            return self.wrap(Bin('Z', op, a, b, ty), ty)
        fn = {'/': 'Z.quot', '%': 'Z.rem', '<<': 'Z.shiftl', '>>': 'Z.shiftr', '&': 'Z.land', '|': 'Z.lor',
              '^': 'Z.lxor'}.get(op)
        if fn is None:
            raise Unsupported('operator ' + op)
        t = App(fn, [a, b], ty)
        return self.wrap(t, ty) if op == '<<' else t

    def compare(self, op, a, b, opty):
        if opty.kind == 'bool':
            t = App('Bool.eqb', [a, b], BOOL)
            if op == '==':
                return t
            if op == '!=':
                return App('negb', [t], BOOL)
            raise Unsupported('ordering comparison on bool')
        sc = opty.scope
        if sc is None:
            raise Unsupported('comparison on ' + opty.key)
        if op == '==':
            return Bin(sc, '=?', a, b, BOOL)
        if op == '!=':
            return App('negb', [Bin(sc, '=?', a, b, BOOL)], BOOL)
        if op == '<':
            return Bin(sc, '<?', a, b, BOOL)
        if op == '>':
            return Bin(sc, '<?', b, a, BOOL)
        if op == '<=':
            return Bin(sc, '<=?', a, b, BOOL)
        if op == '>=':
            return Bin(sc, '<=?', b, a, BOOL)
        raise Unsupported('comparison ' + op)

    def ptr_compare(self, e, env):
        l, r = inner(e)
        bl, nl = access_path(l)
        br, nr = access_path(r)
        il, ir_ = self.var_of(bl, env), self.var_of(br, env)
        if il is None or il != ir_:
            raise Unsupported('pointer comparison')
        v = env.vars[il]
        tab = struct_cfg(v.ty).get('ptr_eq', {}) if v.ty.kind == 'struct' else {}
        g = tab.get((tuple(nl), tuple(nr)))
        if g is None:
            raise Unsupported('pointer comparison %s == %s not in the field map' % ('.'.join(nl), '.'.join(nr)))
        t = App(g, [self.read_var(env, il, ('#ptr',))], BOOL)
        return t if e['opcode'] == '==' else App('negb', [t], BOOL)

    def x_BinaryOperator(self, e, env, pre):
        op = e['opcode']
        l, r = inner(e)
        if op == '=' or op == ',' or op in ('.*', '->*'):
            raise Unsupported('operator `%s` used inside an expression' % op)
        if op in ('&&', '||'):
            return self.short_circuit(op, l, r, env, pre)
        if op in ('==', '!=', '<', '>', '<=', '>='):
            lt = self.ctype(l).ty
            if lt.kind == 'ptr':
                if op in ('==', '!='):
                    return self.ptr_compare(e, env)
                raise Unsupported('pointer ordering')
            a = self.tr(l, env, pre)
            n0 = len(pre)
            b = self.tr(r, env, pre)
            self.check_unseq(pre, n0, l)
            return self.compare(op, a, b, a.ty)
        a = self.tr(l, env, pre)
        n0 = len(pre)
        b = self.tr(r, env, pre)
        self.check_unseq(pre, n0, l)
        return self.arith(op, a, b, self.ctype(e).ty)

    def check_unseq(self, pre, n0, left):
        """two unsequenced operands: the right one may only have side effects if the left has none at all"""
        if len(pre) > n0 and n0 > 0:
            raise Unsupported('two calls with out-parameters in unsequenced operands')

    def short_circuit(self, op, l, r, env, pre):
        a = self.tr(l, env, pre)
        pre_r = []
        env_r = env.copy()
        b = self.tr(r, env_r, pre_r)
        if not pre_r:
            env.vars = env_r.vars
            return Bin('bool', '&&' if op == '&&' else '||', a, b, BOOL)
        changed = self.assigned(r, env)
        tmp = self.fresh('c')
        taken = with_pre(pre_r, Tup([b] + [self.cur(env_r, i) for i in changed]))
        skipped = Tup([Lit('false' if op == '&&' else 'true', BOOL)] + [self.cur(env, i) for i in changed])
        term = If(a, taken, skipped) if op == '&&' else If(a, skipped, taken)
        for i in changed:
            v, w = env.vars[i], env_r.vars[i]
            v.undef |= w.undef
            v.orig |= w.orig
            v.bound = True
        pre.append(([tmp] + [env.vars[i].name for i in changed], term))
        return Var(tmp, BOOL)

    def x_ConditionalOperator(self, e, env, pre):
        c, a, b = inner(e)
        ct = self.tr(c, env, pre)
        at = self.pure(a, env, 'a ?: branch')
        bt = self.pure(b, env, 'a ?: branch')
        return If(ct, at, bt, self.ctype(e).ty)

    def x_InitListExpr(self, e, env, pre):
        ty = self.ctype(e).ty
        if ty.kind != 'struct' or not struct_cfg(ty).get('aggregate'):
            raise Unsupported('initializer list for ' + ty.key)
        vals = [self.tr(c, env, pre) for c in inner(e)]
        if len(vals) != len(struct_fields(ty)):
            raise Unsupported('initializer list with %d of %d members' % (len(vals), len(struct_fields(ty))))
        return make_struct(ty, vals)

    def x_CXXConstructExpr(self, e, env, pre):
        ty = self.ctype(e).ty
        if ty.kind != 'struct':
            raise Unsupported('construction of ' + node_type_str(e))
        args = inner(e)
        keys = sig_keys((e.get('ctorType') or {}).get('qualType', ''), self.overrides)
        if keys is None:
            raise Unsupported('constructor %s' % (e.get('ctorType') or {}).get('qualType'))
        if len(args) == 1 and keys == [ty.key]:
            self.world.check_trivial_copy(self.tu, ty.struct)
            return self.tr(args[0], env, pre)
        ti = self.world.lookup_ctor(self.tu, ty.struct, keys)
        if len(args) != len(keys):
            raise Unsupported('constructor call with default arguments')
        return App(ti.name, [self.tr(a, env, pre) for a in args], ty)

    x_CXXTemporaryObjectExpr = x_CXXConstructExpr

    # ---- calls
    def x_CallExpr(self, e, env, pre):
        rd, _ = callee_ref(e)
        if rd is None:
            raise Unsupported('indirect call')
        name = rd.get('name')
        args = inner(e)[1:]
        ti = self.lookup(rd)
        if ti is not None:
            return self.call_target(ti, None, args, env, pre)
        ty = self.ctype(e).ty
        if name in ABS_FUNCS and len(args) == 1:
            x = self.tr(args[0], env, pre)
            if ty.kind == 'float':
                return App('PrimFloat.abs', [x], ty)
            if ty.kind == 'int' and ty.signed:
                return App('Z.abs', [x], ty)
        if name == 'sqrt' and len(args) == 1 and ty.kind == 'float':
            return App('PrimFloat.sqrt', [self.tr(args[0], env, pre)], ty)
        if name in ('max', 'lowest') and not args and ty.kind == 'float' and rd.get('kind') == 'CXXMethodDecl':
            # std::numeric_limits<double>::max() / lowest()
            m = Lit('DBL_MAX', F64)
            return m if name == 'max' else App('PrimFloat.opp', [m], F64)
        if name in ROUND_FUNCS:
            raise Unsupported('%s() whose result is not immediately converted to int64_t' % name)
        raise Unsupported('call to untranslated function `%s` : %s' % (name, (rd.get('type') or {}).get('qualType')))

    def lookup(self, rd, cls_struct=None, args=None):
        tq = (rd.get('type') or {}).get('qualType', '')
        if tq.startswith('<bound member') and args is not None:
            # MemberExpr callee: the JSON has no signature; the (converted) argument types are the parameter types
            try:
                keys = [self.ctype(a).ty.key for a in args]
            except Unsupported:
                return None
        else:
            keys = sig_keys(tq, self.overrides)
        if keys is None:
            return None
        return self.world.lookup_call(self.tu, rd.get('name'), keys, cls_struct)

    def x_CXXMemberCallExpr(self, e, env, pre):
        rd, obj = callee_ref(e)
        if rd is None or obj is None:
            raise Unsupported('member call')
        o = strip(obj)
        oty = None
        try:
            oty = self.ctype(o).ty
            if oty.kind == 'ptr':
                oty = oty.pointee
        except Unsupported:
            pass
        if oty is None or oty.kind != 'struct':
            raise Unsupported('member call `%s` on an object of unmapped type' % rd.get('name'))
        ti = self.lookup(rd, oty.struct, inner(e)[1:])
        if ti is None:
            raise Unsupported('call to untranslated method `%s`' % rd.get('name'))
        return self.call_target(ti, o, inner(e)[1:], env, pre)

    def x_CXXOperatorCallExpr(self, e, env, pre):
        rd, _ = callee_ref(e)
        op = rd.get('name') if rd else None
        kids = inner(e)
        if op in ('operator->', 'operator*', 'operator[]'):
            return self.path_expr(e, env, pre)
        if op == 'operator()':
            o = strip(kids[1])
            i = self.var_of(o, env)
            if i is not None and env.vars[i].lam is not None:
                lam = env.vars[i].lam
                args = [self.tr(a, env, pre) for a in kids[2:]]
                if len(args) != len(lam['params']):
                    raise Unsupported('lambda call arity')
                return App(env.vars[i].name, args, lam['ret'], local=True)
            raise Unsupported('call operator on a non-lambda object')
        if op == 'operator=':
            raise Unsupported('assignment used inside an expression')
        if rd.get('kind') == 'CXXMethodDecl':
            o = strip(kids[1])
            oty = self.ctype(o).ty
            if oty.kind != 'struct':
                raise Unsupported('operator %s on unmapped type' % op)
            ti = self.lookup(rd, oty.struct)
            if ti is None:
                raise Unsupported('call to untranslated %s of %s' % (op, oty.key))
            return self.call_target(ti, o, kids[2:], env, pre)
        ti = self.lookup(rd)
        if ti is None:
            raise Unsupported('call to untranslated %s : %s' % (op, (rd.get('type') or {}).get('qualType')))
        return self.call_target(ti, None, kids[1:], env, pre)

    def call_parts(self, ti, obj, args, env, pre):
        """-> (App term, [('thr'|'ret'|'out', env key)])  ; evaluates the arguments"""
        if len(args) != len(ti.params):
            raise Unsupported('call of `%s` with default arguments' % ti.name)
        cargs, outs, seen = [], [], set()

        def out_arg(node, pos):
            i = self.var_of(strip(node), env)
            if i is None or i in seen:
                raise Unsupported('out-argument of `%s` is not a plain (distinct) variable' % ti.name)
            seen.add(i)
            v = env.vars[i]
            if v.undef and pos in ti.reads_input:
                raise Unsupported('`%s` may read indeterminate `%s`' % (ti.name, v.name))
            if v.orig and pos in ti.reads_input:
                self.reads_input.add(i)
            outs.append((i, pos))
            return self.cur(env, i)
        if ti.this and ti.this[0] == 'params':
            if not (self.this_mode and self.this_mode[0] == 'params'):
                raise Unsupported('call of member `%s` from a context without this-members' % ti.name)
            for pn in ti.this[1]:
                cargs.append(Var(pn, cfg.ty_from_key(cfg.THIS_PARAM_TYPES[pn])))
        elif ti.this and ti.this[0] == 'struct':
            if obj is None:
                raise Unsupported('method `%s` called without object' % ti.name)
            if ti.this[2]:
                cargs.append(out_arg(obj, 'this'))
            else:
                cargs.append(self.tr(obj, env, pre))
        for pos, (a, p) in enumerate(zip(args, ti.params)):
            if p.ref and not p.const:
                cargs.append(out_arg(a, pos))
            else:
                cargs.append(self.tr(a, env, pre))
        # value semantics are only right if no out-argument aliases another argument of the same call
        out_ids = set(i for i, _ in outs)
        nodes = list(args) + ([obj] if obj is not None else [])
        for a in nodes:
            if strip(a).get('kind') in ('DeclRefExpr', 'CXXThisExpr') and self.var_of(a, env) in out_ids:
                continue        # the out-argument itself (distinctness of out-arguments is checked above)
            for x in find_kinds(a, ('DeclRefExpr', 'CXXThisExpr')):
                r = self.var_of(x, env)
                if r in out_ids:
                    raise Unsupported('out-argument `%s` of `%s` also occurs in another argument (aliasing)' %
                                      (env.vars[r].name, ti.name))
        shape = (['thr'] if ti.may_throw else []) + (['ret'] if ti.ret.kind != 'void' else []) + \
            [('out', i, pos) for i, pos in outs]
        return App(ti.name, cargs, None), shape

    def bind_call(self, ti, app, shape, env, pre):
        """bind the results of an out-param call; returns the term denoting the C++ return value"""
        names, val = [], None
        for s in shape:
            if s == 'thr':
                names.append(self.fresh('throws'))
            elif s == 'ret':
                nm = self.fresh('r')
                names.append(nm)
                val = Var(nm, ti.ret)
            else:
                _, i, pos = s
                v = env.vars[i]
                v.bound = True
                if pos not in ti.passes:
                    v.undef.clear()
                    v.orig.clear()
                names.append(v.name)
        pre.append((names, app))
        return val, names

    def call_target(self, ti, obj, args, env, pre):
        if ti.may_throw:
            raise Unsupported('call of throwing `%s` other than as a statement' % ti.name)
        app, shape = self.call_parts(ti, obj, args, env, pre)
        if shape == ['ret']:
            app.ty = ti.ret
            return app
        if not shape:
            return Lit('tt', UNIT)
        val, _ = self.bind_call(ti, app, shape, env, pre)
        return val if val is not None else Lit('tt', UNIT)

    # ------------------------------------------------------------------ analyses
    def assigned(self, node, env):
        """env keys (declared outside `node`) that `node` may assign, in declaration order"""
        found = set()

        def base_id(n):
            b, _ = access_path(n)
            return self.var_of(b, env)

        def rec(n):
            if not isinstance(n, dict):
                return
            k = n.get('kind')
            if k == 'LambdaExpr':
                return
            kids = inner(n)
            if k == 'CompoundAssignOperator' or (k == 'BinaryOperator' and n.get('opcode') == '=') or \
                    (k == 'UnaryOperator' and n.get('opcode') in ('++', '--')):
                found.add(base_id(kids[0]))
            elif k in ('CallExpr', 'CXXMemberCallExpr', 'CXXOperatorCallExpr'):
                rd, obj = callee_ref(n)
                if rd is not None:
                    if k == 'CXXOperatorCallExpr' and rd.get('name') == 'operator=':
                        found.add(base_id(kids[1]))
                    else:
                        try:
                            cls = None
                            args = kids[1:]
                            o = obj
                            if k == 'CXXOperatorCallExpr' and rd.get('kind') == 'CXXMethodDecl':
                                o, args = kids[1], kids[2:]
                            if o is not None:
                                t = self.ctype(strip(o)).ty
                                t = t.pointee if t.kind == 'ptr' else t
                                cls = t.struct if t is not None else None
                            ti = self.lookup(rd, cls, args)
                        except Unsupported:
                            ti = None
                        if ti is not None:
                            for pos in ti.out_positions:
                                if pos == 'this':
                                    if o is not None:
                                        found.add(base_id(o))
                                elif pos < len(args):
                                    found.add(base_id(args[pos]))
            for c in kids:
                rec(c)
        rec(node)
        return [i for i in env.vars if i in found]

    def throwing_call(self, n):
        if n.get('kind') in ('CallExpr', 'CXXMemberCallExpr', 'CXXOperatorCallExpr'):
            rd, _ = callee_ref(n)
            if rd is not None:
                try:
                    ti = self.lookup(rd)
                except Unsupported:
                    ti = None
                return ti is not None and ti.may_throw
        return False

    def has_exit(self, s):
        """may `s` leave other than by falling through (return / throw / break out of s)?"""
        def rec(n):
            if not isinstance(n, dict):
                return False
            k = n.get('kind')
            if k == 'LambdaExpr':
                return False
            if k in ('ReturnStmt', 'CXXThrowExpr') or self.throwing_call(n):
                return True
            return any(rec(c) for c in inner(n))
        return rec(s) or self.count(s)[1] > 0

    def switch_blocks(self, s):
        body = inner(s)[-1]
        if body.get('kind') != 'CompoundStmt':
            raise Unsupported('switch body is not a compound statement')
        blocks = []
        for c in inner(body):
            labels = []
            while c.get('kind') in ('CaseStmt', 'DefaultStmt'):
                kids = inner(c)
                if c['kind'] == 'CaseStmt':
                    if len(kids) != 2:
                        raise Unsupported('case range')
                    labels.append(kids[0])
                    c = kids[1]
                else:
                    labels.append('default')
                    c = kids[0]
            if labels:
                blocks.append((labels, [c]))
            elif blocks:
                blocks[-1][1].append(c)
            else:
                if c.get('kind') != 'DeclStmt':
                    raise Unsupported('statement before the first case label')
        return blocks

    def count(self, s):
        """(number of fall-through exits, number of break exits), saturated at 2"""
        k = s.get('kind')
        cap = lambda x: min(x, 2)
        if k == 'CompoundStmt':
            return self.count_seq(inner(s))
        if k in ('ReturnStmt', 'CXXThrowExpr'):
            return (0, 0)
        if k == 'BreakStmt':
            return (0, 1)
        if k == 'IfStmt':
            kids = inner(s)
            if s.get('isConstexpr'):
                ch = self.constexpr_branch(s)
                return self.count(ch) if ch is not None else (1, 0)
            f1, b1 = self.count(kids[1])
            f2, b2 = self.count(kids[2]) if len(kids) > 2 else (1, 0)
            return (cap(f1 + f2), cap(b1 + b2))
        if k == 'SwitchStmt':
            blocks = self.switch_blocks(s)
            tot = 0
            for i in range(len(blocks)):
                f, b = self.count_seq([x for _, st in blocks[i:] for x in st])
                tot += f + b
            if not any('default' in l for l, _ in blocks):
                tot += 1
            return (cap(tot), 0)
        if k in TRANSPARENT and inner(s):
            return self.count(inner(s)[0])
        return (1, 0)

    def count_seq(self, lst):
        ft, brk = 1, 0
        for c in lst:
            if ft == 0:
                break
            f, b = self.count(c)
            brk = min(2, brk + ft * b)
            ft = min(2, ft * f)
        return (ft, brk)

    def constexpr_branch(self, s):
        kids = inner(s)
        v = kids[0].get('value')
        if kids[0].get('kind') != 'ConstantExpr' or v not in ('true', 'false', True, False):
            raise Unsupported('if constexpr without evaluated condition')
        if v in ('true', True):
            ch = kids[1]
        else:
            ch = kids[2] if len(kids) > 2 else None
        return ch

    # ------------------------------------------------------------------ statements
    def stmts(self, lst, i, env, k, brk):
        if i >= len(lst):
            return k.fn(env)
        cheap = (i + 1 >= len(lst) and k.cheap) or (i + 2 == len(lst) and simple_return(lst[i + 1]))
        rest = K(lambda e: self.stmts(lst, i + 1, e, k, brk), cheap=cheap)
        return self.stmt(lst[i], env, rest, brk)

    def stmt(self, s, env, k, brk):
        kd = s.get('kind')
        if kd in LOOPS or kd in ('CXXTryStmt', 'CoroutineBodyStmt', 'AsmStmt', 'GCCAsmStmt'):
            raise Unsupported('unsupported statement: %s%s' % (kd, ' (loops are not translated)' if kd in LOOPS[:4] else ''))
        if kd == 'CompoundStmt':
            return self.stmts(inner(s), 0, env, k, brk)
        if kd == 'NullStmt':
            return k.fn(env)
        if kd == 'DeclStmt':
            return self.decls(inner(s), 0, env, k)
        if kd == 'ReturnStmt':
            pre = []
            kids = inner(s)
            val = self.tr(kids[0], env, pre) if kids else None
            if (val is None) != (self.ret.kind == 'void'):
                raise Unsupported('return value / return type mismatch')
            return with_pre(pre, Ret('ret', val, self.outs(env)))
        if kd == 'BreakStmt':
            if brk is None:
                raise Unsupported('break outside switch')
            return brk.fn(env)
        if kd == 'IfStmt':
            return self.if_stmt(s, env, k, brk)
        if kd == 'SwitchStmt':
            return self.switch_stmt(s, env, k, brk)
        if kd in ('CaseStmt', 'DefaultStmt'):
            raise Unsupported('case label outside the top level of a switch body')
        return self.expr_stmt(s, env, k)

    def decls(self, lst, i, env, k):
        if i >= len(lst):
            return k.fn(env)
        d = lst[i]
        rest = lambda: self.decls(lst, i + 1, env, k)
        if d.get('kind') in ('TypedefDecl', 'TypeAliasDecl', 'StaticAssertDecl', 'UsingDecl', 'EmptyDecl'):
            return rest()
        if d.get('kind') != 'VarDecl':
            raise Unsupported('local declaration ' + str(d.get('kind')))
        if d.get('storageClass') == 'static' or d.get('tls'):
            raise Unsupported('static local variable')
        ct = self.ctype(d)
        init = [c for c in inner(d) if not c['kind'].endswith('Attr')]
        if ct.ty.kind == 'lambda':
            lam = strip(init[0]) if init else None
            if lam is None or lam.get('kind') != 'LambdaExpr':
                raise Unsupported('lambda variable without lambda initializer')
            name = self.fresh(d['name'])
            fun, info = self.lambda_fun(lam)
            env.vars[d['id']] = VarInfo(name, ct.ty, lam=info)
            return Let(name, fun, rest())
        if ct.ty.kind in ('ptr', 'void'):
            raise Unsupported('local variable `%s` of type %s' % (d.get('name'), node_type_str(d)))
        if ct.ref and not ct.const:
            raise Unsupported('local non-const reference `%s`' % d.get('name'))
        name = self.fresh(d['name'])
        if not init:
            env.vars[d['id']] = VarInfo(name, ct.ty, undef=all_fields(ct.ty), bound=False)
            return rest()
        pre = []
        val = self.tr(init[0], env, pre)
        env.vars[d['id']] = VarInfo(name, ct.ty)
        return with_pre(pre, Let(name, val, rest()))

    def lambda_fun(self, lam):
        rec = [c for c in inner(lam) if c.get('kind') == 'CXXRecordDecl']
        if not rec or any(c.get('kind') == 'FieldDecl' for c in inner(rec[0])):
            raise Unsupported('lambda with captures')
        ops = [c for c in inner(rec[0]) if c.get('kind') == 'CXXMethodDecl' and c.get('name') == 'operator()']
        if len(ops) != 1:
            raise Unsupported('generic lambda')
        sub = FT(ops[0], dict(name='<lambda>', kind='func', this=('none',), types=self.overrides), self.world, self.tu)
        sub.used = set(self.used)
        r = sub.translate()
        if r['info'].out_positions or r['info'].may_throw:
            raise Unsupported('lambda with out-parameters')
        return Fun(r['params'], r['term']), dict(params=[p.ty for p in r['info'].params], ret=r['info'].ret)

    def expr_stmt(self, s, env, k):
        e = strip(s)
        kd = e.get('kind')
        kids = inner(e)
        pre = []
        if kd == 'CXXThrowExpr':
            return Ret('throw', None, self.outs(env))
        if kd == 'BinaryOperator' and e.get('opcode') == '=':
            val = self.tr(kids[1], env, pre)
            pre.append(self.assign_lhs(kids[0], val, env))
        elif kd == 'CompoundAssignOperator':
            lt = (e.get('computeLHSType') or {}).get('qualType')
            rt = (e.get('computeResultType') or {}).get('qualType')
            ty = self.ctype(e).ty
            for t in (lt, rt):
                if t is not None and parse_type(t, self.overrides).ty.key != ty.key:
                    raise Unsupported('compound assignment with implicit conversion (%s)' % t)
            cur = self.tr(kids[0], env, pre)
            rhs = self.tr(kids[1], env, pre)
            pre.append(self.assign_lhs(kids[0], self.arith(e['opcode'][:-1], cur, rhs, ty), env))
        elif kd == 'UnaryOperator' and e.get('opcode') in ('++', '--'):
            ty = self.ctype(e).ty
            cur = self.tr(kids[0], env, pre)
            pre.append(self.assign_lhs(kids[0], self.arith(e['opcode'][0], cur, Lit('1', ty, 'Z'), ty), env))
        elif kd == 'CXXOperatorCallExpr' and op_name(e) == 'operator=':
            lty = self.ctype(strip(kids[1])).ty
            if lty.kind != 'struct':
                raise Unsupported('operator= on unmapped type')
            self.world.check_trivial_copy(self.tu, lty.struct)
            val = self.tr(kids[2], env, pre)
            pre.append(self.assign_lhs(kids[1], val, env))
        elif kd in ('CallExpr', 'CXXMemberCallExpr', 'CXXOperatorCallExpr') and self.throwing_call(e):
            rd, obj = callee_ref(e)
            ti = self.lookup(rd)
            app, shape = self.call_parts(ti, None, kids[1:], env, pre)
            envt = env.copy()
            if shape == ['thr']:
                app.ty = BOOL
                thrown = Ret('throw', None, self.outs(envt))
                return with_pre(pre, If(app, thrown, k.fn(env)))
            _, names = self.bind_call(ti, app, shape, env, pre)
            # at a throw exit the out-arguments hold whatever the callee left in them
            thrown = Ret('throw', None, self.outs(env.copy()))
            return with_pre(pre, If(Var(names[0], BOOL), thrown, k.fn(env)))
        else:
            self.tr(e, env, pre)      # evaluated for its effects (out-parameters) only
        return with_pre(pre, k.fn(env))

    def assign_lhs(self, lhs, val, env):
        b, names = access_path(lhs)
        if strip(b).get('kind') == 'CXXThisExpr' and self.this_mode and self.this_mode[0] == 'params':
            raise Unsupported('assignment to a member of this')
        i = self.var_of(b, env)
        if i is None:
            raise Unsupported('assignment to something that is not a local variable / out-parameter')
        return self.assign_path(env, i, names, val)

    # ---- control flow with join points
    def joined(self, s, env, k, brk, body_fn):
        if self.count(s)[0] <= 1 or k.cheap:
            return body_fn(k, brk)
        M = self.assigned(s, env)
        exits = []

        def merged():
            env2 = env.copy()
            for i in M:
                v = env2.vars[i]
                v.bound = True
                if exits:
                    v.undef, v.orig = set(), set()
                for e in exits:
                    v.undef |= e.vars[i].undef
                    v.orig |= e.vars[i].orig
            return env2
        if not self.has_exit(s):
            if not M:
                body_fn(K(lambda e: Lit('tt', UNIT), cheap=True), None)   # still checked for unsupported nodes
                return k.fn(env)
            kk = K(lambda e: (exits.append(e), Tup([self.cur(e, i) for i in M]))[1], cheap=True)
            body = body_fn(kk, None)
            env2 = merged()
            return Let([env.vars[i].name for i in M], body, k.fn(env2))
        kname = self.fresh('k')

        def call(e):
            exits.append(e)
            return App(kname, [self.cur(e, i) for i in M] or [Lit('tt', UNIT)], None, local=True)
        body = body_fn(K(call, cheap=True), brk)
        env2 = merged()
        params = [(env.vars[i].name, env.vars[i].ty.coq) for i in M] or [('_', 'unit')]
        return Let(kname, Fun(params, k.fn(env2)), body)

    def if_stmt(self, s, env, k, brk):
        if s.get('hasInit') or s.get('hasVar'):
            raise Unsupported('if statement with initializer / condition variable')
        kids = inner(s)
        if s.get('isConstexpr'):
            ch = self.constexpr_branch(s)
            return self.stmt(ch, env, k, brk) if ch is not None else k.fn(env)

        def body(kk, bb):
            pre = []
            c = self.tr(kids[0], env, pre)
            a = self.stmt(kids[1], env.copy(), kk, bb)
            b = self.stmt(kids[2], env.copy(), kk, bb) if len(kids) > 2 else kk.fn(env.copy())
            return with_pre(pre, If(c, a, b))
        return self.joined(s, env, k, brk, body)

    def switch_stmt(self, s, env, k, brk):
        if s.get('hasInit') or s.get('hasVar'):
            raise Unsupported('switch statement with initializer / condition variable')
        blocks = self.switch_blocks(s)
        cond = inner(s)[0]

        def body(kk, bb):
            pre = []
            c = self.tr(cond, env, pre)
            if not isinstance(c, (Var, Lit)):
                nm = self.fresh('sw')
                pre.append((nm, c))
                c = Var(nm, c.ty)
            arms, dflt = [], None
            for bi, (labels, _) in enumerate(blocks):
                seq = [x for _, st in blocks[bi:] for x in st]
                arm = self.stmts(seq, 0, env.copy(), kk, kk)
                tests = [self.compare('==', c, self.pure(l, env, 'a case label'), c.ty) for l in labels if l != 'default']
                if 'default' in labels:
                    dflt = arm
                if tests:
                    t = tests[0]
                    for u in tests[1:]:
                        t = Bin('bool', '||', t, u, BOOL)
                    arms.append((t, arm))
            term = dflt if dflt is not None else kk.fn(env.copy())
            for t, arm in reversed(arms):
                term = If(t, arm, term)
            return with_pre(pre, term)
        return self.joined(s, env, k, brk, body)


# ----------------------------------------------------------------------------- small helpers
def simple_return(s):
    """`return;` / `return <literal or variable>;` -- cheaper to duplicate than to bind as a join point"""
    if s.get('kind') != 'ReturnStmt':
        return False
    kids = inner(s)
    if not kids:
        return True
    e = strip(kids[0])
    while e.get('kind') in CASTS and inner(e):
        e = strip(inner(e)[0])
    return e.get('kind') in ('IntegerLiteral', 'CXXBoolLiteralExpr', 'FloatingLiteral', 'DeclRefExpr')


def float_lit(f):
    import math
    if math.isnan(f) or math.isinf(f):
        raise Unsupported('non-finite literal')
    if f == int(f) and abs(f) <= (1 << 53):
        txt = str(int(f))
        if f == 0 and math.copysign(1.0, f) < 0:
            txt = '-0'
        return Lit(txt, F64, 'float')
    h = f.hex()            # exact: 0x1.8p+1
    return Lit(h, F64, 'float')


def retype(x, ty):
    if isinstance(x, Lit):
        return Lit(x.text, ty, x.scope)
    if isinstance(x, Var):
        return Var(x.name, ty)
    x.ty = ty
    return x


def peephole(t):
    # let x := v in x   ==>   v
    if isinstance(t, Let) and isinstance(t.pat, str) and isinstance(t.body, Var) and t.body.name == t.pat:
        return t.rhs
    if isinstance(t, Let) and isinstance(t.pat, list) and len(t.pat) == 1 and isinstance(t.body, Var) \
            and t.body.name == t.pat[0]:
        return t.rhs
    if isinstance(t, Tup) and len(t.items) == 1:
        return t.items[0]
    # b2z a =? b2z b   ==>   Bool.eqb a b     (b2z is injective)
    if isinstance(t, Bin) and t.op == '=?' and t.scope == 'Z':
        a, b = t.a, t.b
        if isinstance(a, App) and isinstance(b, App) and a.fn == 'b2z' and b.fn == 'b2z':
            return App('Bool.eqb', [a.args[0], b.args[0]], BOOL)
    return t
