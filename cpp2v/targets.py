"""Configuration of cpp2v: C++ type map, struct/field maps, translation units and the target list.

Only this file knows about Clipper2; trans.py is a generic (small-subset) C++ -> Gallina translator.
"""
from ir import Ty, int_ty, BOOL, F64, VOID

# ----------------------------------------------------------------------------- scalar / struct types
INT_KEYS = {
    'i8': (8, True), 'i16': (16, True), 'i32': (32, True), 'i64': (64, True), 'i128': (128, True),
    'u8': (8, False), 'u16': (16, False), 'u32': (32, False), 'u64': (64, False), 'u128i': (128, False),
}

ENUMS = ['FillRule', 'ClipType', 'PathType', 'Location']

# struct configs: `fields` = list of (C++ access path, Coq getter or None for identity, type key).
# The order of `fields` is the argument order of `ctor` (None = Coq tuple).
STRUCTS = {
    'pt': dict(coq='pt', ctor=None, dflt='dflt_pt',
               fields=[(('x',), 'px', 'i64'), (('y',), 'py', 'i64')]),
    'ptd': dict(coq='ptd', ctor=None, dflt='dflt_ptd',
                fields=[(('x',), 'pdx', 'f64'), (('y',), 'pdy', 'f64')]),
    'u128': dict(coq='u128', ctor=None, aggregate=True,
                 fields=[(('lo',), 'u128_lo', 'u64'), (('hi',), 'u128_hi', 'u64')]),
    'rect': dict(coq='Rect64', ctor='mkRect64',
                 fields=[(('left',), 'r_left', 'i64'), (('top',), 'r_top', 'i64'),
                         (('right',), 'r_right', 'i64'), (('bottom',), 'r_bottom', 'i64')]),
    'active': dict(coq='Active', ctor='mkActive',
                   fields=[(('bot',), 'bot', 'pt'), (('top',), 'top', 'pt'), (('curr_x',), 'curr_x', 'i64'),
                           (('dx',), 'dx', 'f64'), (('wind_dx',), 'wind_dx', 'i32'),
                           (('wind_cnt',), 'wind_cnt', 'i32'), (('wind_cnt2',), 'wind_cnt2', 'i32'),
                           (('local_min', 'polytype'), 'polytype', 'enum:PathType'),
                           (('local_min', 'is_open'), 'is_open', 'bool')]),
    'inode': dict(coq='inode', ctor=None,
                  fields=[(('pt',), 'in_pt', 'pt'), (('edge1', 'curr_x'), 'in_e1x', 'i64'),
                          (('edge2', 'curr_x'), 'in_e2x', 'i64')]),
    'outpt3': dict(coq='OutPt3', ctor='mkOutPt3',
                   fields=[(('pt',), 'op_pt', 'pt'), (('prev', 'pt'), 'op_prev_pt', 'pt'),
                           (('next', 'pt'), 'op_next_pt', 'pt')],
                   ptr_eq={(('next', 'next'), ('prev',)): 'op_ring3',
                           (('prev',), ('next', 'next')): 'op_ring3',
                           (('prev', 'prev'), ('next',)): 'op_ring3',
                           (('next',), ('prev', 'prev')): 'op_ring3'}),
    # std::unique_ptr<LocalMinima> seen only through ->vertex->pt
    'locmin': dict(coq='pt', ctor=None, fields=[(('vertex', 'pt'), None, 'pt')]),
    # a Path64 of which only elements 0..3 are read (RectClip64::rect_as_path_)
    'rectpath': dict(coq='rectpath', ctor=None,
                     fields=[(('[0]',), 'rp0', 'pt'), (('[1]',), 'rp1', 'pt'),
                             (('[2]',), 'rp2', 'pt'), (('[3]',), 'rp3', 'pt')]),
}

CXX_TYPES = {
    'long': 'i64', 'long long': 'i64', 'int64_t': 'i64', 'int': 'i32', 'short': 'i16',
    'signed char': 'i8', 'char': 'i8', '__int128': 'i128', '__int128_t': 'i128',
    'unsigned long': 'u64', 'unsigned long long': 'u64', 'uint64_t': 'u64', 'size_t': 'u64',
    'unsigned int': 'u32', 'uint32_t': 'u32', 'unsigned short': 'u16', 'unsigned char': 'u8',
    'unsigned __int128': 'u128i', '__uint128_t': 'u128i',
    'bool': 'bool', 'double': 'f64', 'void': 'void',
    'Point<long>': 'pt', 'Point64': 'pt', 'Point<int64_t>': 'pt',
    'Point<double>': 'ptd', 'PointD': 'ptd',
    'Rect<long>': 'rect', 'Rect64': 'rect', 'Rect<int64_t>': 'rect',
    'Active': 'active', 'IntersectNode': 'inode', 'OutPt': 'outpt3', 'UInt128Struct': 'u128',
    'LocalMinima_ptr': 'locmin', 'std::unique_ptr<LocalMinima>': 'locmin',
    'std::unique_ptr<LocalMinima, std::default_delete<LocalMinima>>': 'locmin',
}
for _e in ENUMS:
    CXX_TYPES[_e] = 'enum:' + _e

RECTPATH_TYPES = {'Path64': 'rectpath', 'Path<long>': 'rectpath', 'Path<int64_t>': 'rectpath',
                  'std::vector<Point<long>>': 'rectpath',
                  'std::vector<Point<long>, std::allocator<Point<long>>>': 'rectpath'}


def ty_from_key(key):
    if key in INT_KEYS:
        return int_ty(*INT_KEYS[key])
    if key.startswith('enum:'):
        return int_ty(32, True, enum=key[5:])
    if key == 'bool':
        return BOOL
    if key == 'f64':
        return F64
    if key == 'void':
        return VOID
    if key in STRUCTS:
        return Ty('struct', STRUCTS[key]['coq'], key, struct=key)
    raise KeyError(key)


# identifiers that local C++ names must not shadow (Coq keywords + every global the generator emits)
RESERVED = set('''
as at cofix else end exists exists2 fix for forall fun if IF in let match mod return then using where with
Prop Set Type SProp by
pt px py pt_eqb ptd pdx pdy u128 u128_lo u128_hi u128_val Rect64 mkRect64 r_left r_top r_right r_bottom
Active mkActive bot top curr_x dx wind_dx wind_cnt wind_cnt2 polytype is_open inode in_pt in_e1x in_e2x
OutPt3 mkOutPt3 op_pt op_prev_pt op_next_pt op_ring3 rectpath rp0 rp1 rp2 rp3 dflt_pt dflt_ptd
b2z z2b f2b wrap64 wrap32 wrapu wraps DBL_MAX Z2F F2I64_trunc F2I64_round F2I64_rne
negb andb orb xorb true false tt unit bool Z float fst snd pair path paths cross dot
'''.split())

# ----------------------------------------------------------------------------- translation units
# kind 'stub': a generated TU that includes the header and instantiates the templates for int64_t.
# kind 'file': the library .cpp itself.
CORE_STUB = r'''
#include CPP2V_CORE_H
namespace Clipper2Lib {
void cpp2v_stub_() {
  Point64 a, b, c, d, ip;
  int p = 0, ec = 0;
  (void)CrossProductSign(a, b, c);
  (void)IsCollinear(a, b, c);
  (void)CrossProduct(a, b, c);
  (void)DotProduct(a, b, c);
  (void)PerpendicDistFromLineSqrd(a, b, c);
  (void)GetSegmentIntersectPt(a, b, c, d, ip);
  (void)GetClosestPointOnSegment(a, b, c);
  (void)MidPoint(a, b);
  (void)Sqr<int64_t>(1); (void)Sqr<double>(1.0);
  (void)GetSign<int64_t>(1); (void)GetSign<double>(1.0);
  (void)(a == b); (void)(a != b);
  (void)Point64(int64_t(1), int64_t(2));
  CheckPrecisionRange(p, ec);
}
}
'''

IF128 = '#if (defined(__clang__) || defined(__GNUC__)) && UINTPTR_MAX >= UINT64_MAX'

TUS = {
    'core': dict(kind='stub', flags=[]),
    'core_portable': dict(kind='stub', flags=[], patch=(IF128, '#if 0')),
    'core_hi': dict(kind='stub', flags=['-DCLIPPER2_HI_PRECISION=1']),
    'core_noexc': dict(kind='stub', flags=['-fno-exceptions']),
    'engine': dict(kind='file', path='src/clipper.engine.cpp', flags=[]),
    'rect': dict(kind='file', path='src/clipper.rectclip.cpp', flags=[]),
}

FILES = {
    'core': dict(out='Gen_core.v', imports=[], sources=['include/clipper2/clipper.core.h']),
    'engine': dict(out='Gen_engine.v', imports=['Gen_core'],
                   sources=['src/clipper.engine.cpp', 'include/clipper2/clipper.engine.h',
                            'include/clipper2/clipper.core.h']),
    'rect': dict(out='Gen_rect.v', imports=['Gen_core'],
                 sources=['src/clipper.rectclip.cpp', 'include/clipper2/clipper.rectclip.h',
                          'include/clipper2/clipper.core.h']),
}

PT3 = ['pt', 'pt', 'pt']


def T(name, file, tu, cname=None, sig=None, filt=None, kind='func', **kw):
    d = dict(name=name, file=file, tu=tu, cname=cname or name, sig=sig, filt=filt or cname or name, kind=kind,
             cls=None, this=None, default=True, types={}, optional=False)
    d.update(kw)
    return d


PF = 'Clipper2Lib::Point'   # one class dump serves all Point<long> members

TARGETS = [
    # ---------------------------------------------------------------- clipper.core.h
    T('FillRule', 'core', 'core', kind='enum'),
    T('precision_error_i', 'core', 'core', kind='const'),
    T('CLIPPER2_MAX_DEC_PRECISION', 'core', 'core', kind='const'),
    T('scale_error_i', 'core', 'core', kind='const'),
    T('non_pair_error_i', 'core', 'core', kind='const'),
    T('undefined_error_i', 'core', 'core', kind='const'),
    T('range_error_i', 'core', 'core', kind='const'),
    T('DoError', 'core', 'core', sig=['i32']),
    T('DoError_noexc', 'core', 'core_noexc', cname='DoError', sig=['i32'], default=False),
    T('Point64_Init', 'core', 'core', cname='Init', sig=['i64', 'i64'], filt=PF, kind='method',
      cls=('Point', 'long'), this=('struct', 'pt')),
    T('Point64_ctor0', 'core', 'core', cname='Point', sig=[], filt=PF, kind='ctor',
      cls=('Point', 'long'), this=('struct', 'pt')),
    T('Point64_ctor', 'core', 'core', cname='Point', sig=['i64', 'i64'], filt=PF, kind='ctor',
      cls=('Point', 'long'), this=('struct', 'pt')),
    T('Point64_eq', 'core', 'core', cname='operator==', sig=['pt', 'pt'], filt=PF, cls=('Point', 'long')),
    T('Point64_neq', 'core', 'core', cname='operator!=', sig=['pt', 'pt'], filt=PF, cls=('Point', 'long')),
    T('MidPoint', 'core', 'core', sig=['pt', 'pt']),
    T('Sqr_i64', 'core', 'core', cname='Sqr', sig=['i64']),
    T('Sqr_d', 'core', 'core', cname='Sqr', sig=['f64']),
    T('CheckPrecisionRange', 'core', 'core', sig=['i32', 'i32']),
    T('CheckPrecisionRange_noexc', 'core', 'core_noexc', cname='CheckPrecisionRange', sig=['i32', 'i32'],
      default=False),
    T('TriSign', 'core', 'core', sig=['i64']),
    T('Multiply', 'core', 'core', sig=['u64', 'u64']),
    T('UInt128Struct_eq', 'core', 'core', cname='operator==', sig=['u128'], filt='UInt128Struct', kind='method',
      cls=('UInt128Struct', None), this=('struct', 'u128')),
    T('ProductsAreEqual_int128', 'core', 'core', cname='ProductsAreEqual', sig=['i64'] * 4),
    T('ProductsAreEqual_portable', 'core', 'core_portable', cname='ProductsAreEqual', sig=['i64'] * 4,
      default=False),
    T('CrossProductSign_int128', 'core', 'core', cname='CrossProductSign', sig=PT3),
    T('CrossProductSign_portable', 'core', 'core_portable', cname='CrossProductSign', sig=PT3, default=False),
    T('IsCollinear', 'core', 'core', sig=PT3),
    T('CrossProduct', 'core', 'core', sig=PT3),
    T('DotProduct', 'core', 'core', sig=PT3),
    T('PerpendicDistFromLineSqrd', 'core', 'core', sig=PT3),
    T('GetSegmentIntersectPt_lo', 'core', 'core', cname='GetSegmentIntersectPt', sig=['pt'] * 5),
    T('GetSegmentIntersectPt_hi', 'core', 'core_hi', cname='GetSegmentIntersectPt', sig=['pt'] * 5, default=False),
    T('GetSign_i64', 'core', 'core', cname='GetSign', sig=['i64']),
    T('GetSign_d', 'core', 'core', cname='GetSign', sig=['f64']),
    T('SegmentsIntersect', 'core', 'core', sig=['pt'] * 4 + ['bool']),
    T('GetClosestPointOnSegment', 'core', 'core', sig=PT3),
    # ---------------------------------------------------------------- clipper.engine.cpp
    T('ClipType', 'engine', 'engine', kind='enum'),
    T('PathType', 'engine', 'engine', kind='enum'),
    T('LocMinSorter_call', 'engine', 'engine', cname='operator()', sig=['locmin', 'locmin'], filt='LocMinSorter',
      kind='method', cls=('LocMinSorter', None), this=('none',)),
    T('IsOdd', 'engine', 'engine', sig=['i32']),
    T('IsOpen', 'engine', 'engine', sig=['active']),
    T('GetDx', 'engine', 'engine', sig=['pt', 'pt']),
    T('TopX', 'engine', 'engine', sig=['active', 'i64']),
    T('GetPolyType', 'engine', 'engine', sig=['active']),
    T('IntersectListSort', 'engine', 'engine', sig=['inode', 'inode']),
    T('PtsReallyClose', 'engine', 'engine', sig=['pt', 'pt']),
    T('IsVerySmallTriangle', 'engine', 'engine', sig=['outpt3']),
    T('IsContributingClosed', 'engine', 'engine', sig=['active'], kind='method',
      this=('params', ['cliptype_', 'fillrule_'])),
    T('IsContributingOpen', 'engine', 'engine', sig=['active'], kind='method',
      this=('params', ['cliptype_', 'fillrule_'])),
    # ---------------------------------------------------------------- clipper.rectclip.cpp
    T('Location', 'rect', 'rect', kind='enum', filt='Clipper2Lib::Location'),
    T('GetLocation', 'rect', 'rect', sig=['rect', 'pt', 'enum:Location']),
    T('IsHorizontal', 'rect', 'rect', sig=['pt', 'pt']),
    T('GetSegmentIntersection', 'rect', 'rect', sig=['pt'] * 5),
    T('GetIntersection', 'rect', 'rect', sig=['rectpath', 'pt', 'pt', 'enum:Location', 'pt'],
      types=RECTPATH_TYPES, optional=True),
    T('GetAdjacentLocation', 'rect', 'rect', sig=['enum:Location', 'bool']),
    T('HeadingClockwise', 'rect', 'rect', sig=['enum:Location', 'enum:Location']),
    T('AreOpposites', 'rect', 'rect', sig=['enum:Location', 'enum:Location']),
    T('IsClockwise', 'rect', 'rect', sig=['enum:Location', 'enum:Location', 'pt', 'pt', 'pt']),
]

# types of the members read through `this` when this=('params', [...])
THIS_PARAM_TYPES = {'cliptype_': 'enum:ClipType', 'fillrule_': 'enum:FillRule'}
