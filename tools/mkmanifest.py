#!/usr/bin/env python3
"""Regenerate MANIFEST.json from the META dictionaries of checks/C??.py and tools/manifest_base.json."""
import json, os, sys, importlib, glob
root = os.path.dirname(os.path.dirname(os.path.abspath(__file__)))
sys.path.insert(0, os.path.join(root, 'lib')); sys.path.insert(0, root)
base = json.load(open(os.path.join(root, 'tools', 'manifest_base.json')))
props = [json.loads(l)['id'] for l in open(os.path.join(root, 'properties.jsonl')) if l.strip()]
checks, na = [], []
unclaimed = json.load(open(os.path.join(root, 'tools', 'unclaimed.json')))
for pid in props:
    if pid in unclaimed:
        na.append(dict(property_id=pid, reason=unclaimed[pid])); continue
    f = os.path.join(root, 'checks', pid + '.py')
    meta = None
    if os.path.exists(f):
        meta = getattr(importlib.import_module('checks.' + pid), 'META', None)
    if not meta or meta.get('not_applicable'):
        na.append(dict(property_id=pid, reason=(meta or {}).get('not_applicable', 'check not built yet (see DESIGN.md section 10 staging)')))
        continue
    checks.append(dict(
        property_id=pid,
        quick_cmd='./check %s --tier quick' % pid,
        thorough_cmd='./check %s --tier thorough' % pid,
        evidence_file='/verif/evidence/%s.json' % pid,
        replay_cmd_template='./check %s --replay {path}' % pid,
        engine=meta.get('engine', 'coq+correspondence'),
        level_claimed=dict(category=meta.get('category', 'proof'), text=meta['text'], design_ref=meta.get('design_ref', 'DESIGN.md 6 ' + pid)),
        level_note=meta['note'],
        technique=meta['technique']))
base['checks'] = checks
base['not_applicable'] = na
json.dump(base, open(os.path.join(root, 'MANIFEST.json'), 'w'), indent=1)
open(os.path.join(root, 'MANIFEST.json'), 'a').write('\n')
print('checks:', [c['property_id'] for c in checks], 'n/a:', [n['property_id'] for n in na])
