#!/usr/bin/env python3
"""tools/seedtest.py <PID> <srcdir> <name> [--checks C01,C03]

Confirm a seeded breaking change and run the registered checks against it.
  srcdir: directory holding patch.diff, demo.cpp (and NOTES.md) written by an independent sub-agent.
Steps (all in a scratch worktree of /repo under /tmp, removed at the end):
  1. demo on the unchanged tree must exit 0, with the patch applied must exit non-zero;
  2. the library must still build and the repository's unedited test suite must pass with the patch;
  3. `VERIF_REPO=<worktree> ./check <ID>` for the property (and any extra checks) is run and its verdict recorded.
The change is kept as /verif/seeded/<name>/ (patch.diff, demo.cpp, NOTES.md, meta.json) only if 1 and 2 hold."""
import json, os, re, shutil, subprocess, sys, time

VERIF = os.path.dirname(os.path.dirname(os.path.abspath(__file__)))


def sh(cmd, cwd=None, timeout=3600, env=None):
    e = dict(os.environ)
    if env:
        e.update(env)
    try:
        p = subprocess.run(cmd, cwd=cwd, shell=isinstance(cmd, str), stdout=subprocess.PIPE, stderr=subprocess.STDOUT,
                           text=True, errors='replace', timeout=timeout, env=e)
        return p.returncode, p.stdout
    except subprocess.TimeoutExpired as ex:
        return -9, 'TIMEOUT'


def demo_flags(src):
    txt = open(src).read()
    notes = os.path.join(os.path.dirname(src), 'NOTES.md')
    ntxt = open(notes).read() if os.path.exists(notes) else ''
    fl = []
    if ('CLIPPER2_HI_PRECISION' in txt and '#error' in txt) or '-DCLIPPER2_HI_PRECISION' in ntxt:
        fl.append('-DCLIPPER2_HI_PRECISION=1')
    if re.search(r'#\s*ifndef\s+USINGZ[^\n]*\n\s*#\s*error', txt):
        fl.append('-DUSINGZ')
    return fl


def build_demo(wt, demo, out):
    lib = os.path.join(wt, 'CPP', 'Clipper2Lib')
    cmd = ['g++', '-std=c++17', '-O1', '-w', '-I', os.path.join(lib, 'include')] + demo_flags(demo) + \
          [demo, os.path.join(lib, 'src', 'clipper.engine.cpp'), os.path.join(lib, 'src', 'clipper.offset.cpp'),
           os.path.join(lib, 'src', 'clipper.rectclip.cpp'), '-lpthread', '-o', out]
    return sh(cmd, timeout=600)


def main():
    pid, src, name = sys.argv[1], sys.argv[2], sys.argv[3]
    checks = [pid]
    if '--checks' in sys.argv:
        checks = sys.argv[sys.argv.index('--checks') + 1].split(',')
    wt = '/tmp/sv-' + name
    sh(['git', '-C', '/repo', 'worktree', 'remove', '--force', wt])
    shutil.rmtree(wt, ignore_errors=True)
    rc, out = sh(['git', '-C', '/repo', 'worktree', 'add', '--detach', wt, 'HEAD'])
    meta = dict(property=pid, name=name, repo_head=sh(['git', '-C', '/repo', 'rev-parse', '--short', 'HEAD'])[1].strip(),
                source='independent sub-agent given only the property text and a scratch worktree', ran=[])
    try:
        patch, demo = os.path.join(src, 'patch.diff'), os.path.join(src, 'demo.cpp')
        # 1a. demo on the unchanged tree
        rc, out = build_demo(wt, demo, wt + '.demo0')
        meta['demo_build_unchanged'] = rc
        rc0, out0 = sh([wt + '.demo0'], timeout=900) if rc == 0 else (None, out)
        meta['demo_unchanged_exit'] = rc0
        # apply
        rc, out = sh(['git', '-C', wt, 'apply', patch])
        if rc != 0:
            rc, out = sh(['git', '-C', wt, 'apply', '--3way', patch])
        meta['patch_applies'] = (rc == 0)
        if rc != 0:
            meta['error'] = 'patch does not apply to current /repo HEAD: ' + out[-500:]
            print(json.dumps(meta, indent=1)); return
        # 1b. demo with the change
        rc, out = build_demo(wt, demo, wt + '.demo1')
        meta['demo_build_changed'] = rc
        rc1, out1 = sh([wt + '.demo1'], timeout=900) if rc == 0 else (None, out)
        meta['demo_changed_exit'] = rc1
        meta['demo_changed_tail'] = (out1 or '')[-600:]
        # 2. test suite with the change
        t0 = time.time()
        rc, out = sh('cmake -G Ninja -S CPP -B _build -DUSE_EXTERNAL_GTEST=ON >/dev/null 2>&1 && cmake --build _build >/dev/null 2>&1 && '
                     'ctest --test-dir _build -j8 --timeout 900 2>&1 | tail -3', cwd=wt, timeout=3000)
        meta['tests'] = out.strip().splitlines()[0] if out.strip() else 'no output'
        meta['tests_pass'] = '100% tests passed' in out
        meta['ran'].append('cmake -G Ninja -S CPP -B _build -DUSE_EXTERNAL_GTEST=ON && cmake --build _build && ctest --test-dir _build -j8 (%.0fs)' % (time.time() - t0))
        shutil.rmtree(os.path.join(wt, '_build'), ignore_errors=True)
        confirmed = (rc0 == 0 and rc1 not in (0, None) and meta['tests_pass'])
        meta['confirmed'] = confirmed
        # 3. our checks
        meta['checks'] = {}
        for c in checks:
            t0 = time.time()
            rc, out = sh(['./check', c], cwd=VERIF, env={'VERIF_REPO': wt}, timeout=3600)
            vio = [l for l in out.splitlines() if l.startswith('VIOLATION')]
            detail = [l for l in out.splitlines() if l.startswith('  ')][:6]
            meta['checks'][c] = dict(exit=rc, violations=vio[:8], detail=[d[:300] for d in detail], wall_s=round(time.time() - t0))
            meta['ran'].append('VERIF_REPO=%s ./check %s' % (wt, c))
        meta['detected'] = any(v['exit'] == 1 for v in meta['checks'].values())
        meta['detected_with_input'] = any(v['exit'] == 1 and any('no-failing-input-found' not in x for x in v['violations'])
                                          for v in meta['checks'].values())
        if confirmed:
            dst = os.path.join(VERIF, 'seeded', name)
            os.makedirs(dst, exist_ok=True)
            for f in ('patch.diff', 'demo.cpp', 'NOTES.md'):
                if os.path.exists(os.path.join(src, f)):
                    shutil.copy(os.path.join(src, f), os.path.join(dst, f))
            notes = os.path.join(src, 'NOTES.md')
            meta['needs_to_manifest'] = 'see NOTES.md'
            with open(os.path.join(dst, 'meta.json'), 'w') as f:
                json.dump(meta, f, indent=1)
                f.write('\n')
        print(json.dumps(meta, indent=1))
    finally:
        for f in (wt + '.demo0', wt + '.demo1'):
            if os.path.exists(f):
                os.remove(f)
        sh(['git', '-C', '/repo', 'worktree', 'remove', '--force', wt])
        shutil.rmtree(wt, ignore_errors=True)
        sh(['git', '-C', '/repo', 'worktree', 'prune'])


main()
