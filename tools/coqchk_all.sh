#!/bin/sh
# Re-check the compiled development with Coq's independent checker and list every axiom the loaded libraries declare.
# (about 2.5 minutes; needs `./setup.sh` to have built the .vo files).  Output: coq/COQCHK.txt
cd "$(dirname "$0")/../coq" || exit 2
mods=""
for i in 01 02 03 04 05 06 07 08 09 10 11 12 13 14 15 16 17 18 19 20; do mods="$mods Clip.props.Properties_C$i"; done
timeout 3400 coqchk -silent -o -Q . Clip $mods > COQCHK.txt 2>&1
rc=$?
tail -8 COQCHK.txt
exit $rc
