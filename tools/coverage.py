#!/usr/bin/env python3
"""tools/coverage.py [run] [report]
run    : every quick check once with VERIF_COVERAGE=1 (harnesses rebuilt with gcov instrumentation, private cache entries)
report : sum the execution counts of all .gcda files per library source line and list the lines of
         clipper.engine.cpp / clipper.offset.cpp / clipper.rectclip.cpp / the headers that NO check executed
         -> /verif/coverage/uncovered.txt and /verif/coverage/summary.json
Supporting evidence only (where do the generators not reach?); nothing here decides a property."""
import glob, gzip, json, os, subprocess, sys

VERIF = os.path.dirname(os.path.dirname(os.path.abspath(__file__)))
BIN = os.path.join(VERIF, '.cache', 'bin')


def run():
    env = dict(os.environ, VERIF_COVERAGE='1')
    ids = ['C%02d' % i for i in range(1, 21)]
    for c in ids:
        p = subprocess.run(['./check', c], cwd=VERIF, env=env, stdout=subprocess.PIPE, stderr=subprocess.STDOUT, text=True)
        print(c, 'exit', p.returncode, (p.stdout.strip().splitlines() or ['?'])[-1][:120], flush=True)


def report():
    counts = {}
    funcs = {}
    for gcda in glob.glob(os.path.join(BIN, '*.gcda')):
        p = subprocess.run(['gcov', '--json-format', '--stdout', gcda], cwd=BIN, stdout=subprocess.PIPE, stderr=subprocess.DEVNULL)
        if p.returncode != 0 or not p.stdout:
            continue
        try:
            data = json.loads(p.stdout)
        except Exception:
            continue
        for f in data.get('files', []):
            name = f['file']
            if 'Clipper2Lib' not in name:
                continue
            key = name[name.index('Clipper2Lib'):]
            d = counts.setdefault(key, {})
            for l in f['lines']:
                d[l['line_number']] = d.get(l['line_number'], 0) + l['count']
            fd = funcs.setdefault(key, {})
            for fn in f.get('functions', []):
                k = (fn['demangled_name'] if 'demangled_name' in fn else fn['name'], fn['start_line'])
                fd[k] = fd.get(k, 0) + fn['execution_count']
    os.makedirs(os.path.join(VERIF, 'coverage'), exist_ok=True)
    summ = {}
    with open(os.path.join(VERIF, 'coverage', 'uncovered.txt'), 'w') as out:
        for key in sorted(counts):
            d = counts[key]
            un = sorted(l for l, c in d.items() if c == 0)
            summ[key] = dict(lines=len(d), executed=len(d) - len(un))
            src = None
            for root in ('/repo/CPP',):
                pth = os.path.join(root, key)
                if os.path.exists(pth):
                    src = open(pth, errors='replace').read().splitlines()
            out.write('== %s: %d of %d instrumented lines executed by some check\n' % (key, len(d) - len(un), len(d)))
            for l in un:
                out.write('%6d: %s\n' % (l, src[l - 1] if src and l <= len(src) else ''))
            uf = sorted(k for k, c in funcs.get(key, {}).items() if c == 0)
            if uf:
                out.write('-- functions never entered:\n')
                for n, sl in uf:
                    out.write('   %s (line %d)\n' % (n[:160], sl))
    json.dump(summ, open(os.path.join(VERIF, 'coverage', 'summary.json'), 'w'), indent=1)
    for k, v in summ.items():
        print('%-60s %5d / %5d' % (k, v['executed'], v['lines']))


if __name__ == '__main__':
    a = sys.argv[1:] or ['run', 'report']
    if 'run' in a:
        run()
    if 'report' in a:
        report()
