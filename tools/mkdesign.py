#!/usr/bin/env python3
"""Regenerate the data-driven tables of DESIGN.md (between <!-- BEGIN GENERATED x --> / <!-- END GENERATED x --> markers):
  status   : per property — claimed?, theorems in Properties_<ID>.v, technique (from checks/<ID>.py META)
  findings : fixed / known findings from known_findings.txt
  seeded   : seeded breaking changes (seeded/*/meta.json) and which check caught them"""
import glob, importlib, json, os, re, sys
root = os.path.dirname(os.path.dirname(os.path.abspath(__file__)))
sys.path.insert(0, os.path.join(root, 'lib')); sys.path.insert(0, root)


def status():
    man = json.load(open(os.path.join(root, 'MANIFEST.json')))
    claimed = {c['property_id'] for c in man['checks']}
    rows = ['| id | claimed | theorems in `props/Properties_<id>.v` | deciding technique (checks/<id>.py META) |', '|---|---|---|---|']
    for l in open(os.path.join(root, 'properties.jsonl')):
        pid = json.loads(l)['id']
        pf = os.path.join(root, 'coq', 'props', 'Properties_%s.v' % pid)
        thms = []
        if os.path.exists(pf):
            txt = re.sub(r'\(\*.*?\*\)', '', open(pf).read(), flags=re.S)
            thms = re.findall(r'^\s*(?:Theorem|Corollary)\s+([A-Za-z0-9_\']+)', txt, flags=re.M)
        tech = ''
        try:
            tech = importlib.import_module('checks.' + pid).META.get('technique', '')
        except Exception:
            pass
        part = [t for t in thms if t.endswith('_partial') or '_partial' in t]
        ref = [t for t in thms if '_refuted' in t]
        rows.append('| %s | %s | %d (%s%s) | %s |' % (
            pid, 'yes' if pid in claimed else 'no', len(thms),
            ', '.join('`%s`' % t for t in thms[:6]) + (' …' if len(thms) > 6 else ''),
            ('; refuted-form: %d' % len(ref)) if ref else '', tech.replace('|', '/')))
    return '\n'.join(rows)


def findings():
    fx, fd = [], []
    for line in open(os.path.join(root, 'known_findings.txt')):
        m = re.match(r'fixed:\s+property=(\S+)\s+(\S+)\s+(.*)', line.strip())
        if m:
            fx.append('| %s | `%s` | %s |' % (m.group(1), m.group(2), m.group(3).replace('|', '/')[:420]))
        m = re.match(r'finding:\s+property=(\S+)\s+key=(\S+)\s+(.*)', line.strip())
        if m:
            fd.append('| %s | `%s` | %s |' % (m.group(1), m.group(2), m.group(3).replace('|', '/')[:420]))
    out = ['**Repaired in /repo (one `fix:` commit each; the check is quiet on the repaired tree and reports the key again if it returns)**', '',
           '| property | commit | what failed |', '|---|---|---|'] + fx
    out += ['', '**Known findings (genuine, not repaired; matched by classifier key, anything else is still reported)**', '',
            '| property | key | what fails |', '|---|---|---|'] + fd
    return '\n'.join(out)


def seeded():
    rows = ['| seeded change | property | what it is / what it needs | confirmed (tests pass, demo fails only with it) | caught by | with a failing input |',
            '|---|---|---|---|---|---|']
    for d in sorted(glob.glob(os.path.join(root, 'seeded', '*'))):
        mp = os.path.join(d, 'meta.json')
        if not os.path.exists(mp):
            continue
        m = json.load(open(mp))
        caught = [c for c, v in m.get('checks', {}).items() if v.get('exit') == 1]
        missed = [c for c, v in m.get('checks', {}).items() if v.get('exit') == 0]
        summ = m.get('summary', '')
        if not summ:
            notes = os.path.join(d, 'NOTES.md')
            if os.path.exists(notes):
                for line in open(notes):
                    line = line.strip()
                    if line and not line.startswith('#'):
                        summ = line
                        break
        rows.append('| `seeded/%s` | %s | %s | %s | %s%s | %s |' % (
            os.path.basename(d), m.get('property', ''), summ.replace('|', '/')[:260],
            'yes' if m.get('confirmed') else 'NO',
            ', '.join(caught) if caught else '—', (' (not by: %s)' % ', '.join(missed)) if missed and caught else ('' if caught else ' **missed** by ' + ', '.join(missed)),
            'yes' if m.get('detected_with_input') else ('no-failing-input-found' if m.get('detected') else '—')))
    return '\n'.join(rows)


def main():
    p = os.path.join(root, 'DESIGN.md')
    s = open(p).read()
    for name, fn in (('status', status), ('findings', findings), ('seeded', seeded)):
        b, e = '<!-- BEGIN GENERATED %s -->' % name, '<!-- END GENERATED %s -->' % name
        if b in s and e in s:
            s = s[:s.index(b) + len(b)] + '\n' + fn() + '\n' + s[s.index(e):]
    open(p, 'w').write(s)


main()
