"""Seeded generators of INTEGER polygon inputs for the PolyTree nesting property ("PolyTree solutions carry the same
paths with correct nesting") and for rectilinear well-formedness tests.  All randomness through vf.Rng.

What the generators aim at (clipper.engine.cpp: ConvertHorzSegsToJoins / ProcessHorzJoins / DoSplitOp /
RecursiveCheckOwners / CheckSplitOwner): horizontal edges of opposite direction that coincide or partly overlap at the
same y in the output rings are joined, which splits one ring into outer + hole or merges two rings; the owners of the
resulting rings are then recomputed heuristically.  So the rectilinear families produce polygons whose horizontal edges
coincide / partly overlap: U shapes closed by a bar, combs, walls of rectangles, frames built from bars, staircase
rings, keyhole polygons (zero-width bridges), pixel contours touching at vertices, holes touching the outer boundary or
each other at a vertex or along part of an edge.

Public API
  gen_rectilinear_case(rng, k=None, flip=None)        -> (S, C, kind)
  gen_rectilinear_case_info(rng, k=None, flip=None)   -> (S, C, kind, info)    info: sub, depth, k, flip, transposed
  gen_lattice_case(rng)                               -> (S, C, kind)   overlapping rectangles on a small lattice
  gen_nested_genpos_case(rng, max_depth=8, box=400)   -> (S, C, kind)
  gen_nested_genpos_case_info(rng, max_depth, box)    -> (S, C, kind, info)    info: sub, depth, tries
  UPSTREAM                                            inline inputs of /repo/CPP/Tests/TestPolytree*.cpp
  load_test_file(path)                                -> [{caption, ct, fr, S, C, O, area, count}]
  perturb_case(rng, S, C, k)                          -> (S, C)
  is_rectilinear(paths), on_lattice(paths, k), no_consecutive_duplicates(paths)
A path is a list of (x, y) int tuples, a path set a list of paths.  ct: 1 Intersection 2 Union 3 Difference 4 Xor;
fr: 0 EvenOdd 1 NonZero 2 Positive 3 Negative (the C++ enum values)."""
import math
import os
import re
import sys

sys.path.insert(0, os.path.dirname(os.path.abspath(__file__)))
import polys  # noqa: E402

R = polys.rect          # counter-clockwise in y-up coordinates = positive Clipper area

RECT_FAMILIES = ['rects', 'frames', 'touching-holes', 'ujoin', 'stairs', 'issue-families']
_RECT_WEIGHTS = [2, 3, 3, 5, 3, 5]
LATTICES = [2, 2, 3, 4, 10, 1000]
STATS = dict(dropped=0, deduped=0)


# ----------------------------------------------------------------------------- predicates
def _edges(p):
    return [(p[i], p[(i + 1) % len(p)]) for i in range(len(p))]


def _rect_path_ok(p):
    """>= 3 vertices, every edge (including the closing one) axis-parallel and non-degenerate"""
    if len(p) < 3:
        return False
    for a, b in _edges(p):
        if (a[0] == b[0]) == (a[1] == b[1]):
            return False
    return True


def is_rectilinear(paths):
    """every edge, including the closing edge, of every path is axis-parallel and non-degenerate"""
    for p in paths:
        if len(p) < 2:
            return False
        for a, b in _edges(p):
            if (a[0] == b[0]) == (a[1] == b[1]):
                return False
    return True


def on_lattice(paths, k):
    return all(v[0] % k == 0 and v[1] % k == 0 for p in paths for v in p)


def no_consecutive_duplicates(paths):
    return all(a != b for p in paths for a, b in _edges(p)) if all(len(p) > 1 for p in paths) else False


# ----------------------------------------------------------------------------- path helpers
def _dedupe(p):
    out = []
    for v in p:
        if not out or out[-1] != v:
            out.append(v)
    while len(out) > 1 and out[0] == out[-1]:
        out.pop()
    return out


def _merge_collinear(p):
    """drop vertices in the middle of a straight run (keeps 180 degree reversal points)"""
    p = _dedupe(p)
    changed = True
    while changed and len(p) > 3:
        changed = False
        m = len(p)
        for i in range(m):
            a, b, c = p[i - 1], p[i], p[(i + 1) % m]
            d1 = (polys.sgn(b[0] - a[0]), polys.sgn(b[1] - a[1]))
            d2 = (polys.sgn(c[0] - b[0]), polys.sgn(c[1] - b[1]))
            if d1 == d2:
                p = p[:i] + p[i + 1:]
                changed = True
                break
    return p


def _sprinkle_collinear(rng, p, num, den):
    """insert lattice points in the interior of some edges (collinear consecutive vertices)"""
    out = []
    for a, b in _edges(p):
        out.append(a)
        L = abs(b[0] - a[0]) + abs(b[1] - a[1])
        if L >= 2 and (a[0] == b[0] or a[1] == b[1]) and rng.chance(num, den):
            t = rng.range(1, L - 1)
            out.append((a[0] + polys.sgn(b[0] - a[0]) * t, a[1] + polys.sgn(b[1] - a[1]) * t))
    return out


def _rot(rng, p):
    i = rng.below(len(p))
    return p[i:] + p[:i]


def _shift(ps, dx, dy):
    return [[(x + dx, y + dy) for (x, y) in p] for p in ps]


def _transpose(ps):
    """swap x and y, then reverse every path so that the orientation sense is kept"""
    return [[(y, x) for (x, y) in p][::-1] for p in ps]


def _bbox(ps):
    xs = [v[0] for p in ps for v in p]
    ys = [v[1] for p in ps for v in p]
    return min(xs), min(ys), max(xs), max(ys)


def _split_sc(rng, paths, num, den):
    """every path goes to C with probability num/den; S is never left empty"""
    S, C = [], []
    for p in paths:
        (C if rng.chance(num, den) else S).append(p)
    if not S and C:
        S.append(C.pop(rng.below(len(C))))
    return S, C


def _xmono(cols, keep_collinear=False):
    """x-monotone orthogonal polygon from consecutive columns (x0, x1, lo, hi), counter-clockwise"""
    pts = []
    for (a, b, lo, hi) in cols:
        pts += [(a, lo), (b, lo)]
    for (a, b, lo, hi) in reversed(cols):
        pts += [(b, hi), (a, hi)]
    return _dedupe(pts) if keep_collinear else _merge_collinear(pts)


# ----------------------------------------------------------------------------- family: rects
def _fam_rects(rng):
    n = rng.range(2, 8)
    L = rng.choice([3, 4, 6, 8, 12, 12])
    pc = rng.choice([(0, 1), (1, 3), (1, 2), (1, 2)])
    prev = rng.choice([(0, 1), (0, 1), (1, 4), (1, 2)])
    ps = []
    for _ in range(n):
        x0, y0 = rng.range(0, L - 1), rng.range(0, L - 1)
        x1, y1 = rng.range(x0 + 1, L), rng.range(y0 + 1, L)
        p = R(x0, y0, x1, y1)
        if rng.chance(*prev):
            p.reverse()
        ps.append(p)
    S, C = _split_sc(rng, ps, *pc)
    return S, C, dict(sub='rects-%d' % L, depth=None)


# ----------------------------------------------------------------------------- family: frames
FRAME_STYLES = ['hole', 'hole', 'same', 'bars-h', 'bars-h', 'bars-v', 'bars-x', 'pinwheel', 'uu', 'uu', 'cc', 'ubar', 'ubar']


def _frame_ring(rng, x0, y0, x1, y1, tl, tr, tb, tt, style):
    """paths forming a rectangular ring occupying the box with the given wall thicknesses (all counter-clockwise,
    except the inner rectangle of style 'hole')"""
    ix0, iy0, ix1, iy1 = x0 + tl, y0 + tb, x1 - tr, y1 - tt
    if style == 'uu' and iy1 - iy0 < 2:
        style = 'bars-h'
    if style == 'cc' and ix1 - ix0 < 2:
        style = 'bars-v'
    if style == 'hole':
        return [R(x0, y0, x1, y1), R(ix0, iy0, ix1, iy1)[::-1]]
    if style == 'same':           # EvenOdd: ring, NonZero: solid
        return [R(x0, y0, x1, y1), R(ix0, iy0, ix1, iy1)]
    if style == 'bars-h':         # uprights abut the horizontal bars along horizontal edges
        return [R(x0, y0, x1, iy0), R(x0, iy1, x1, y1), R(x0, iy0, ix0, iy1), R(ix1, iy0, x1, iy1)]
    if style == 'bars-v':
        return [R(x0, y0, ix0, y1), R(ix1, y0, x1, y1), R(ix0, y0, ix1, iy0), R(ix0, iy1, ix1, y1)]
    if style == 'bars-x':         # overlapping in the four corners
        return [R(x0, y0, x1, iy0), R(x0, iy1, x1, y1), R(x0, y0, ix0, y1), R(ix1, y0, x1, y1)]
    if style == 'pinwheel':
        return [R(x0, y0, ix1, iy0), R(ix1, y0, x1, iy1), R(ix0, iy1, x1, y1), R(x0, iy0, ix0, y1)]
    if style == 'uu':             # a U and an upside-down U abutting along (pieces of) horizontal edges
        yl = rng.range(iy0 + 1, iy1 - 1)
        yr = yl if rng.chance(1, 2) else rng.range(iy0 + 1, iy1 - 1)
        lower = [(x0, y0), (x1, y0), (x1, yr), (ix1, yr), (ix1, iy0), (ix0, iy0), (ix0, yl), (x0, yl)]
        upper = [(x0, yl), (ix0, yl), (ix0, iy1), (ix1, iy1), (ix1, yr), (x1, yr), (x1, y1), (x0, y1)]
        return [lower, upper]
    if style == 'cc':             # two C shapes abutting along vertical edges
        xb = rng.range(ix0 + 1, ix1 - 1)
        xt = xb if rng.chance(1, 2) else rng.range(ix0 + 1, ix1 - 1)
        left = [(x0, y0), (xb, y0), (xb, iy0), (ix0, iy0), (ix0, iy1), (xt, iy1), (xt, y1), (x0, y1)]
        right = [(xb, y0), (x1, y0), (x1, y1), (xt, y1), (xt, iy1), (ix1, iy1), (ix1, iy0), (xb, iy0)]
        return [left, right]
    # 'ubar': U closed by a bar lying on its prongs, the bar possibly covering the prong tops only partly
    U = [(x0, y0), (x1, y0), (x1, iy1), (ix1, iy1), (ix1, iy0), (ix0, iy0), (ix0, iy1), (x0, iy1)]
    bx0 = x0 if tl < 2 or rng.chance(1, 2) else rng.range(x0 + 1, ix0 - 1)
    bx1 = x1 if tr < 2 or rng.chance(1, 2) else rng.range(ix1 + 1, x1 - 1)
    return [U, R(bx0, iy1, bx1, y1)]


def _frames_build(rng, nr, st):
    """nr nested rings around a leaf rectangle; returns (paths, w, h, depth) with bounding box (0, 0, w, h);
    depth = nominal number of nested contours"""
    if nr == 0:
        w, h = rng.range(1, 3), rng.range(1, 3)
        return [R(0, 0, w, h)], w, h, 1
    kids = []
    m = 1
    if st['budget'] > 0 and rng.chance(st['sib'], 6):
        m = rng.range(2, 3)
        st['budget'] -= 1
        st['siblings'] = True
    if nr == 1 and m == 1 and rng.chance(1, 4):
        m = 0                                    # empty innermost hole
    for j in range(m):
        kids.append(_frames_build(rng, nr - 1 if j == 0 else rng.range(0, nr - 1), st))
    paths, cw, ch, cd = [], 0, 0, 0
    if not kids:
        cw, ch = rng.range(1, 3), rng.range(1, 3)
    else:
        mode = rng.choice(['h', 'v', 'diag'] if len(kids) == 2 else ['h', 'v'])
        if len(kids) == 1:
            mode = 'h'
        if mode == 'diag':                       # second sibling up-right of the first, (0,0) = touching at a corner
            gx, gy = rng.choice([0, 1, 1]), rng.choice([0, 1, 1])
            (p1, w1, h1, d1), (p2, w2, h2, d2) = kids
            paths = p1 + _shift(p2, w1 + gx, h1 + gy)
            cw, ch = w1 + gx + w2, h1 + gy + h2
            if gx == 0 and gy == 0:
                st['touch'] = True
        else:
            big = max((k[2] if mode == 'h' else k[1]) for k in kids)
            cur = 0
            for i, (p, w, h, d) in enumerate(kids):
                if i:
                    g = rng.choice([1, 1, 1, 1, 1, 1, 2, 2, 2, 0])
                    if g == 0:
                        st['touch'] = True
                    cur += g
                if mode == 'h':
                    paths += _shift(p, cur, rng.range(0, big - h))
                    cur += w
                else:
                    paths += _shift(p, rng.range(0, big - w), cur)
                    cur += h
            cw, ch = (cur, big) if mode == 'h' else (big, cur)
        cd = max(k[3] for k in kids)

    def pad():
        if kids and rng.chance(1, 150):
            st['touch'] = True
            return 0
        return rng.choice([1, 1, 1, 2])
    gl, gr, gb, gt = pad(), pad(), pad(), pad()
    tl, tr, tb, tt = [rng.choice([1, 1, 1, 2, 2, 3]) for _ in range(4)]
    W, H = tl + gl + cw + gr + tr, tb + gb + ch + gt + tt
    style = rng.choice(st['styles'])
    ring = _frame_ring(rng, 0, 0, W, H, tl, tr, tb, tt, style)
    st['nstyles'][style] = st['nstyles'].get(style, 0) + 1
    return ring + _shift(paths, tl + gl, tb + gb), W, H, cd + 2


def _fam_frames(rng):
    nr = rng.choice([1, 1, 2, 2, 2, 3, 3, 3, 4, 4, 5, 6, 7, 8])
    sib = rng.choice([0, 0, 1, 2, 3])
    simple = rng.chance(1, 4)
    st = dict(budget=rng.range(1, 3) if sib else 0, sib=sib, siblings=False, touch=False, nstyles={},
              styles=['hole', 'hole', 'same'] if simple else FRAME_STYLES)
    paths, w, h, depth = _frames_build(rng, nr, st)
    prev = rng.choice([(0, 1), (0, 1), (0, 1), (1, 4), (1, 2)])
    paths = [p[::-1] if rng.chance(*prev) else p for p in paths]
    pc = rng.choice([(0, 1), (0, 1), (1, 4), (1, 2)])
    S, C = _split_sc(rng, paths, *pc)
    sub = 'frames-sib' if st['siblings'] else 'frames'
    if st['touch']:
        sub += '-touch'
    return S, C, dict(sub=sub, depth=depth, rings=nr, touch=st['touch'], random_orient=prev[0] != 0)


# ----------------------------------------------------------------------------- family: touching-holes
def _place_touching_rects(rng, W, H, n, border_num, border_den):
    """n interior-disjoint rectangles inside [0,W]x[0,H] that touch each other at corners / along parts of edges and
    sometimes touch the border; returns list of (x0, y0, x1, y1)"""
    hs = []
    smax = max(1, min(4, min(W, H) - 2))

    def ok(r):
        lo = 0 if rng.chance(border_num, border_den) else 1
        if r[0] < lo or r[1] < lo or r[2] > W - lo or r[3] > H - lo or r[0] >= r[2] or r[1] >= r[3]:
            return False
        return all(not (r[0] < h[2] and h[0] < r[2] and r[1] < h[3] and h[1] < r[3]) for h in hs)
    tries = 0
    while len(hs) < n and tries < 200:
        tries += 1
        w, h = rng.range(1, smax), rng.range(1, smax)
        mode = rng.choice(['corner', 'corner', 'edge', 'edge', 'free']) if hs else 'free'
        if mode == 'free':
            x0, y0 = rng.range(0, W - w), rng.range(0, H - h)
        else:
            b = rng.choice(hs)
            if mode == 'corner':
                x0 = b[2] if rng.chance(1, 2) else b[0] - w
                y0 = b[3] if rng.chance(1, 2) else b[1] - h
            else:
                side = rng.below(4)
                if side == 0:
                    x0, y0 = b[2], rng.range(b[1] - h + 1, b[3] - 1)
                elif side == 1:
                    x0, y0 = b[0] - w, rng.range(b[1] - h + 1, b[3] - 1)
                elif side == 2:
                    x0, y0 = rng.range(b[0] - w + 1, b[2] - 1), b[3]
                else:
                    x0, y0 = rng.range(b[0] - w + 1, b[2] - 1), b[1] - h
        r = (x0, y0, x0 + w, y0 + h)
        if ok(r):
            hs.append(r)
    return hs


def _fam_touching_holes(rng):
    W, H = rng.range(5, 12), rng.range(5, 12)
    n = rng.range(2, 5)
    bn, bd = rng.choice([(0, 1), (1, 4), (1, 2), (1, 1)])
    hs = _place_touching_rects(rng, W, H, n, bn, bd)
    outer = R(0, 0, W, H)
    variant = rng.choice(['S-rev', 'S-rev', 'C-diff', 'mixed'])
    S, C = [outer], []
    for h in hs:
        p = R(*h)
        inS = variant == 'S-rev' or (variant == 'mixed' and rng.chance(1, 2))
        if inS:
            S.append(p if rng.chance(1, 10) else p[::-1])
        else:
            C.append(p[::-1] if rng.chance(1, 10) else p)
        if h[2] - h[0] >= 3 and h[3] - h[1] >= 3 and rng.chance(1, 2):     # island strictly inside the hole
            ix0, iy0 = rng.range(h[0] + 1, h[2] - 2), rng.range(h[1] + 1, h[3] - 2)
            S.append(R(ix0, iy0, rng.range(ix0 + 1, h[2] - 1), rng.range(iy0 + 1, h[3] - 1)))
    if rng.chance(1, 5):          # a second outer ring around everything (one more level)
        S += [R(-2, -2, W + 2, H + 2), R(-1, -1, W + 1, H + 1)[::-1]]
    return S, C, dict(sub='touching-holes-' + variant, depth=None, holes=len(hs))


# ----------------------------------------------------------------------------- family: ujoin
def _comb_unit(rng, np_=None, islands=True, force=None):
    """comb (base + prongs pointing up) plus a bar lying on the prong tops -> Union makes holes by horizontal joins.
    Returns (comb_paths, bar_paths, island_paths, info)."""
    force = force or {}
    np_ = np_ or rng.range(2, 5)
    pw = [rng.choice([1, 1, 2, 2, 3]) for _ in range(np_)]
    Hp = rng.range(1, 4)
    gaps, contents = [], []
    st0 = dict(budget=0, sib=0, siblings=False, touch=False, nstyles={}, styles=FRAME_STYLES)
    for _ in range(np_ - 1):
        if islands and rng.chance(1, 3):
            c = _frames_build(rng, rng.choice([0, 0, 0, 1]), st0)
            pl, pr = rng.range(1, 2), rng.range(1, 2)
            gaps.append(c[1] + pl + pr)
            Hp = max(Hp, c[2] + 2)
            contents.append((c, pl))
        else:
            gaps.append(rng.range(1, 4))
            contents.append(None)
    tb = rng.choice([1, 1, 2])
    el, er = rng.choice([0, 0, 0, 1, 2]), rng.choice([0, 0, 0, 1, 2])
    xs, x = [], el
    for i in range(np_):
        xs.append(x)
        x += pw[i] + (gaps[i] if i < np_ - 1 else 0)
    W = x + er
    ph = [Hp] * np_
    if Hp >= 2 and rng.chance(1, 5):
        ph[rng.below(np_)] = rng.range(1, Hp - 1)           # one prong does not reach the bar
    rep = force.get('rep') or rng.choice(['poly', 'poly', 'parts', 'mixed'])
    comb = []
    separate = [rep == 'parts' or (rep == 'mixed' and rng.chance(1, 2)) for _ in range(np_)]
    cols, x = [], 0
    for i in range(np_):
        if xs[i] > x:
            cols.append((x, xs[i], 0, tb))
        cols.append((xs[i], xs[i] + pw[i], 0, tb if separate[i] else tb + ph[i]))
        x = xs[i] + pw[i]
        if separate[i]:
            comb.append(R(xs[i], tb, xs[i] + pw[i], tb + ph[i]))
    if W > x:
        cols.append((x, W, 0, tb))
    comb.insert(0, _xmono(cols, keep_collinear=rng.chance(1, 4)))
    # the bar
    Ytop = tb + Hp
    bt = rng.choice([1, 1, 2])
    a, b = 0, np_ - 1
    if np_ >= 3 and rng.chance(1, 5):
        a = rng.range(0, np_ - 2)
        b = rng.range(a + 1, np_ - 1)

    def end(i, left, mode):
        lo, hi = xs[i], xs[i] + pw[i]
        if mode == 'partial' and pw[i] >= 2:
            return rng.range(lo + 1, hi - 1)
        if mode == 'over':
            return lo - rng.range(1, 2) if left else hi + rng.range(1, 2)
        if mode == 'corner':                     # touches the prong top at one vertex only: the 'hole' stays open
            return hi if left else lo
        return lo if left else hi
    modes = ['flush', 'flush', 'flush', 'over', 'partial', 'partial', 'partial'] + (['corner'] if rng.chance(1, 3) else [])
    ml = force.get('left') or rng.choice(modes)
    mr = force.get('right') or rng.choice(modes)
    bx0, bx1 = end(a, True, ml), end(b, False, mr)
    by0 = Ytop - 1 if (Hp >= 2 and rng.chance(1, 10)) else Ytop      # rarely a proper overlap instead of abutting
    bars = [R(bx0, by0, bx1, Ytop + bt)]
    if bx1 - bx0 >= 2 and rng.chance(1, 5):     # bar in two pieces, abutting or overlapping
        xm = rng.range(bx0 + 1, bx1 - 1)
        xo = min(bx1 - 1, xm + rng.choice([0, 0, 1])) if xm + 1 <= bx1 - 1 else xm
        bars = [R(bx0, by0, max(xm, xo), Ytop + bt), R(xm, by0, bx1, Ytop + rng.choice([bt, bt, bt + 1]))]
    isl = []
    for i, c in enumerate(contents):
        if c is None:
            continue
        (cp, cw, ch, cd), pl = c
        free = Hp - ch
        r = rng.below(8)
        pb = free if r == 0 else (0 if r == 1 else rng.range(1, max(1, free - 1)))   # touching the bar / standing on the base
        isl += _shift(cp, xs[i] + pw[i] + pl, tb + pb)
    info = dict(np=np_, rep=rep, left=ml, right=mr, W=W, top=Ytop + bt + 1)
    return comb, bars, isl, info


def _wall(rng):
    """rows of rectangles stacked on each other (rows share horizontal edges); enclosed gaps become holes"""
    nr = rng.range(2, 6)
    W = rng.range(5, 14)
    ps, y = [], 0
    for r in range(nr):
        h = rng.choice([1, 1, 2])
        full = (r == 0 or r == nr - 1) and rng.chance(1, 2)
        x = 0 if rng.chance(2, 3) else rng.range(1, 2)
        if full:
            ps.append(R(0, y, W, y + h))
        else:
            while x < W:
                w = min(W - x, rng.range(1, 5))
                ps.append(R(x, y, x + w, y + h))
                x += w + rng.choice([0, 1, 1, 2, 2, 3])
        y += h
    return ps


def _fam_ujoin(rng):
    v = rng.choice(['comb', 'comb', 'comb', 'stack', 'wall', 'wall'])
    if v == 'wall':
        ps = _wall(rng)
        if rng.chance(1, 3):
            ps = [p[::-1] if rng.chance(1, 4) else p for p in ps]
        S, C = _split_sc(rng, ps, *rng.choice([(0, 1), (0, 1), (1, 3)]))
        sub = 'ujoin-wall'
    else:
        S, C, y, dx = [], [], 0, 0
        for _ in range(1 if v == 'comb' else rng.range(2, 3)):
            comb, bars, isl, info = _comb_unit(rng)
            bar_in_c = rng.chance(1, 5)
            S += _shift(comb + isl, dx, y)
            (C if bar_in_c else S).extend(_shift(bars, dx, y))
            y += info['top'] - 1                 # the next storey stands on the bar of this one
            dx += rng.range(-2, 2)
        if rng.chance(1, 8):
            S = [p[::-1] if rng.chance(1, 3) else p for p in S]
        sub = 'ujoin-' + v
    if rng.chance(1, 5):                         # E shapes: prongs horizontal, joins along vertical edges
        S, C = _transpose(S), _transpose(C)
        sub += '-T'
    return S, C, dict(sub=sub, depth=None)


# ----------------------------------------------------------------------------- family: stairs
def _stairs_monotone(rng):
    n = rng.range(2, 7)
    cols, x = [], 0
    lo = rng.range(0, 3)
    hi = lo + rng.range(1, 4)
    for i in range(n):
        w = rng.choice([1, 1, 2, 3])
        cols.append((x, x + w, lo, hi))
        x += w
        nlo = rng.range(lo - 2, hi - 1)
        nhi = rng.range(max(nlo, lo) + 1, max(nlo, lo) + 4)
        if rng.chance(1, 12):
            nlo, nhi = hi, hi + rng.range(1, 2)   # pinch: consecutive columns touch at one vertex only
        lo, hi = nlo, nhi
    return _xmono(cols, keep_collinear=rng.chance(1, 3))


def _diamond(cx, cy, r, sx, sy):
    cols = []
    for i in range(-r, r):
        h = (r - max(abs(i), abs(i + 1)) + 1) * sy
        cols.append((cx + i * sx, cx + (i + 1) * sx, cy - h, cy + h))
    return _xmono(cols)


def _orth_walk(rng):
    """closed rectilinear walk alternating horizontal and vertical moves; may self-intersect / self-overlap"""
    m = rng.range(2, 6)
    L = rng.range(3, 8)

    def seq():
        while True:
            s = [rng.range(0, L)]
            for _ in range(m - 1):
                v = rng.range(0, L - 1)
                s.append(v if v < s[-1] else v + 1)
            if s[0] != s[-1]:
                return s
    xs, ys = seq(), seq()
    p = []
    for i in range(m):
        p.append((xs[i], ys[i]))
        p.append((xs[(i + 1) % m], ys[i]))
    return p


def _fam_stairs(rng):
    v = rng.choice(['monotone', 'monotone', 'diamonds', 'walk', 'walk', 'mix'])
    ps = []
    if v == 'monotone':
        for _ in range(rng.range(1, 3)):
            ps += _shift([_stairs_monotone(rng)], rng.range(0, 4), rng.range(0, 4))
    elif v == 'diamonds':
        r = rng.range(2, 7)
        sx, sy = rng.choice([1, 1, 2]), rng.choice([1, 1, 2])
        i = 0
        while r >= 1 and len(ps) < 8:
            p = _diamond(0, 0, r, sx, sy)
            ps.append(p[::-1] if i % 2 else p)
            r -= rng.choice([1, 1, 2, 2, 3])
            i += 1
        if rng.chance(1, 3):
            ps = [p[::-1] if rng.chance(1, 2) else p for p in ps]
    elif v == 'walk':
        for _ in range(rng.range(1, 3)):
            ps.append(_orth_walk(rng))
    else:
        ps.append(_stairs_monotone(rng))
        ps.append(_orth_walk(rng))
        if rng.chance(1, 2):
            x0, y0 = rng.range(0, 5), rng.range(0, 5)
            ps.append(R(x0, y0, x0 + rng.range(1, 4), y0 + rng.range(1, 4)))
    if v != 'diamonds' and rng.chance(1, 3):
        ps = [p[::-1] if rng.chance(1, 2) else p for p in ps]
    S, C = _split_sc(rng, ps, *rng.choice([(0, 1), (1, 3), (1, 2)]))
    return S, C, dict(sub='stairs-' + v, depth=len(ps) if v == 'diamonds' else None)


# ----------------------------------------------------------------------------- family: issue-families
def _keyhole(rng):
    """#618 / TestPolytreeHoles4: outer rectangle whose holes are reached over zero-width bridges (the path runs to a
    hole, around it, on to the next hole, and back over the same edges), plus islands in the holes"""
    m = rng.range(1, 4)
    holes, x = [], rng.range(1, 2)
    yb = []
    lvl = 0
    for i in range(m):
        w, h = rng.range(1, 4), rng.range(1, 6)
        y0 = rng.range(lvl - h, lvl)
        holes.append((x, y0, x + w, y0 + h))
        yb.append(lvl)
        x += w + rng.range(1, 2)
        lvl = rng.range(y0, y0 + h)
    mb, mt = rng.choice([1, 1, 1, 2, 0]), rng.choice([1, 1, 1, 2, 0])
    W = x - rng.choice([0, 0, 0, 1])             # rarely the last hole touches the right border
    if W <= holes[-1][2]:
        W = holes[-1][2] + (0 if rng.chance(1, 2) else 1)
    ylo = min(h[1] for h in holes) - mb
    yhi = max(h[3] for h in holes) + mt
    if yhi - ylo < 2:
        yhi += 1
    pts = [(0, ylo), (W, ylo), (W, yhi), (0, yhi), (0, yb[0])]

    def visit(i):
        x0, y0, x1, y1 = holes[i]
        out = [(x0, yb[i]), (x0, y1), (x1, y1)]
        if i + 1 < m:
            out.append((x1, yb[i + 1]))
            out += visit(i + 1)
            out.append((x1, yb[i + 1]))
        out += [(x1, y0), (x0, y0), (x0, yb[i])]
        return out
    pts += visit(0)
    pts.append((0, yb[0]))
    path = _dedupe(pts)
    S = [path]
    for h in holes:
        if h[2] - h[0] >= 3 and h[3] - h[1] >= 3 and rng.chance(2, 3):
            ix0, iy0 = rng.range(h[0] + 1, h[2] - 2), rng.range(h[1] + 1, h[3] - 2)
            S.append(R(ix0, iy0, rng.range(ix0 + 1, h[2] - 1), rng.range(iy0 + 1, h[3] - 1)))
    S = _shift(S, 0, -ylo)
    return S, [], 'keyhole'


def _u_shape(x0, x1, ybase, ytip, t):
    """U whose base is at ybase and whose two prong tips are at ytip (ytip > ybase: prongs up, else prongs down)"""
    s = 1 if ytip > ybase else -1
    p = [(x0, ybase), (x1, ybase), (x1, ytip), (x1 - t, ytip), (x1 - t, ybase + s * t), (x0 + t, ybase + s * t), (x0 + t, ytip), (x0, ytip)]
    return p if s > 0 else p[::-1]


def _xor_abut(rng):
    """TestPolytreeHoles5: a wide subject rectangle and clip shapes (posts, U shapes, rectangles) that abut its
    horizontal edges from inside / outside or cross them; meant for Xor, also useful for Union / Difference"""
    W = rng.range(8, 16)
    a = 4
    b = a + rng.range(3, 6)
    S = [R(0, a, W, b)]
    C = []
    for _ in range(rng.range(2, 5)):
        top = rng.chance(1, 2)
        e, s = (b, 1) if top else (a, -1)        # edge y and the outward direction
        t = rng.choice(['post', 'u-out', 'u-in', 'rect-in', 'rect-edge'])
        x0 = rng.range(0, W - 3)
        if t == 'post':
            w = rng.range(1, 2)
            y1 = e + s * rng.range(1, 3)
            y0 = rng.choice([e, e, e - s * rng.range(1, b - a - 1), e - s * (b - a), e - s * (b - a + 1)])
            C.append(R(x0, min(y0, y1), x0 + w, max(y0, y1)))
        elif t in ('u-out', 'u-in'):
            w = rng.range(3, min(6, W - x0))
            d = rng.range(2, 3) if t == 'u-out' else rng.range(2, max(2, b - a - 1))
            base = e + s * d if t == 'u-out' else e - s * d
            C.append(_u_shape(x0, x0 + w, base, e, 1))
        elif t == 'rect-in':
            w = rng.range(1, min(5, W - x0))
            y0 = rng.range(a + 1, b - 2) if b - a >= 3 else a
            C.append(R(x0, y0, x0 + w, rng.range(y0 + 1, b - 1) if y0 + 1 <= b - 1 else y0 + 1))
        else:
            w = rng.range(1, min(5, W - x0))
            d = rng.range(1, 2)
            y0, y1 = (e, e + s * d) if rng.chance(1, 2) else (e - s * d, e)
            C.append(R(x0, min(y0, y1), x0 + w, max(y0, y1)))
    return S, C, 'xor-abut'


def _strips(rng):
    """TestPolytreeHoles6: clip = full-width horizontal strips (+ a rectangle), subject = rectangles / staircase
    polygons many of whose horizontal edges lie on strip edges"""
    W, H = rng.range(8, 16), rng.range(8, 14)
    C, ys, y = [], [], rng.range(0, 2)
    while y < H - 1 and len(C) < 4:
        h = rng.range(1, 2)
        C.append(R(0, y, W, y + h))
        ys += [y, y + h]
        y += h + rng.range(1, 4)
    if rng.chance(1, 2):
        x0, y0 = rng.range(0, W - 2), rng.range(0, H - 2)
        C.append(R(x0, y0, x0 + rng.range(1, 4), y0 + rng.range(1, 4)))

    def yy():
        return rng.choice(ys) if rng.chance(2, 3) else rng.range(0, H)
    S = []
    for _ in range(rng.range(3, 6)):
        x0 = rng.range(0, W - 2)
        if rng.chance(1, 4):
            S += _shift([_stairs_monotone(rng)], x0, yy())
        else:
            y0 = yy()
            y1 = yy()
            if y0 == y1:
                y1 = y0 + rng.range(1, 2)
            S.append(R(x0, min(y0, y1), x0 + rng.range(1, 4), max(y0, y1)))
    return S, C, 'strips'


def _ubar(rng):
    """#618 / TestPolytreeHoles7: U (one polygon) closed by a bar that covers the second prong only partly"""
    comb, bars, isl, info = _comb_unit(rng, np_=rng.range(2, 3), islands=rng.chance(1, 3),
                                       force=dict(rep='poly', left=rng.choice(['flush', 'partial']), right='partial'))
    return comb + bars + isl, [], 'ubar'


def _trace(cells, connect8):
    """boundary loops of a set of unit cells, region on the left (outer loops counter-clockwise, holes clockwise).  At a
    vertex where two cells meet diagonally the loops either pass through (connect8: one loop touching itself) or turn
    back (two loops touching at the vertex)."""
    out = {}

    def add(a, b):
        out.setdefault(a, []).append(b)
    for (i, j) in sorted(cells):
        if (i, j - 1) not in cells:
            add((i, j), (i + 1, j))
        if (i + 1, j) not in cells:
            add((i + 1, j), (i + 1, j + 1))
        if (i, j + 1) not in cells:
            add((i + 1, j + 1), (i, j + 1))
        if (i - 1, j) not in cells:
            add((i, j + 1), (i, j))
    loops = []
    while out:
        start = min(out)
        cur = out[start].pop()
        if not out[start]:
            del out[start]
        loop, prev = [start], start
        while cur != start:
            loop.append(cur)
            nxt = out[cur]
            if len(nxt) == 1:
                n = nxt.pop()
            else:
                dx, dy = cur[0] - prev[0], cur[1] - prev[1]
                want = (cur[0] + dy, cur[1] - dx) if connect8 else (cur[0] - dy, cur[1] + dx)
                n = want if want in nxt else nxt[0]
                nxt.remove(n)
            if not nxt:
                del out[cur]
            prev, cur = cur, n
        loops.append(loop)
    return loops


def _pixels(rng):
    """PolytreeHoleOwner2.txt: contours traced around pixel regions; regions, holes and islands touch at vertices,
    abutting regions share edges"""
    w, h = rng.range(3, 9), rng.range(3, 9)
    dens = rng.choice([40, 55, 65, 75, 85])
    ncol = rng.choice([1, 1, 2])
    col = {}
    for i in range(w):
        for j in range(h):
            if rng.below(100) < dens:
                col[(i, j)] = rng.range(1, ncol)
    if not any(c == 1 for c in col.values()):
        col[(0, 0)] = 1
    connect8 = rng.chance(1, 2)
    runs = rng.chance(1, 4)
    keepc = rng.chance(1, 4)
    sets = []
    for c in range(1, ncol + 1):
        cells = set(k for k, v in col.items() if v == c)
        ps = []
        if runs:                                 # every maximal horizontal run of cells as one rectangle
            for j in range(h):
                i = 0
                while i < w:
                    if (i, j) in cells:
                        i0 = i
                        while (i, j) in cells:
                            i += 1
                        ps.append(R(i0, j, i, j + 1))
                    else:
                        i += 1
        else:
            for lp in _trace(cells, connect8):
                ps.append(_dedupe(lp) if keepc else _merge_collinear(lp))
        sets.append(ps)
    S = sets[0]
    C = []
    if ncol == 2:
        if rng.chance(1, 2):
            C = sets[1]
        else:
            S = S + sets[1]
    return S, C, 'pixels-runs' if runs else ('pixels-c8' if connect8 else 'pixels-c4')


def _diag_chain(rng):
    """TestPolytreeUnion / TestPolyTreeIntersection: equal squares overlapping diagonally; here a closed chain of
    overlapping squares around a hole, or an open diagonal chain"""
    s = rng.range(2, 5)
    d = rng.range(1, s)
    ps = []
    if rng.chance(1, 2):
        for i in range(rng.range(2, 5)):
            ps.append(R(i * d, i * d, i * d + s, i * d + s))
    else:
        a, b = rng.range(1, 3), rng.range(1, 3)
        pos = [(i, 0) for i in range(a)] + [(a, j) for j in range(b)] + [(a - i, b) for i in range(a)] + [(0, b - j) for j in range(b)]
        for (i, j) in pos:
            ps.append(R(i * d, j * d, i * d + s, j * d + s))
    if rng.chance(1, 2):
        ps = [p[::-1] for p in ps]               # upstream uses clockwise squares
    S, C = _split_sc(rng, ps, *rng.choice([(0, 1), (1, 2)]))
    return S, C, 'diag-chain'


def _upstream_rect(rng):
    """the rectilinear upstream inputs themselves, snapped to a unit lattice (Holes4-7 are multiples of 5 / 25 / 50000)"""
    u = rng.choice([u for u in UPSTREAM if u['name'] in ('TestPolytreeHoles4', 'TestPolytreeHoles5', 'TestPolytreeHoles6',
                                                          'TestPolytreeHoles7', 'TestPolytreeUnion', 'TestPolyTreeIntersection')])
    allp = u['S'] + u['C']
    g = 0
    for p in allp:
        for v in p:
            g = math.gcd(g, math.gcd(abs(v[0]), abs(v[1])))
    g = max(g, 1)
    f = lambda ps: [[(x // g, y // g) for (x, y) in p] for p in ps]
    return f(u['S']), f(u['C']), 'upstream-' + u['name'][4:]


def _fam_issue(rng):
    f = rng.choice([_keyhole, _keyhole, _keyhole, _xor_abut, _xor_abut, _strips, _strips, _ubar, _pixels, _pixels, _pixels,
                    _diag_chain, _upstream_rect])
    S, C, sub = f(rng)
    if f in (_keyhole, _xor_abut, _strips) and rng.chance(1, 4):
        S, C = _transpose(S), _transpose(C)
        sub += '-T'
    if f is not _upstream_rect and rng.chance(1, 6):
        S = [p[::-1] if rng.chance(1, 3) else p for p in S]
    return S, C, dict(sub=sub, depth=None)


# ----------------------------------------------------------------------------- rectilinear driver
_FAMS = {'rects': _fam_rects, 'frames': _fam_frames, 'touching-holes': _fam_touching_holes, 'ujoin': _fam_ujoin,
         'stairs': _fam_stairs, 'issue-families': _fam_issue}


def _pick_family(rng):
    t = rng.below(sum(_RECT_WEIGHTS))
    for name, w in zip(RECT_FAMILIES, _RECT_WEIGHTS):
        if t < w:
            return name
        t -= w
    return RECT_FAMILIES[-1]


def _finish(rng, S, C, k, flip):
    """clean up, sprinkle collinear vertices, rotate start vertices, shuffle path order, global flips, scale by k and
    translate by multiples of k"""
    def clean(ps):
        out = []
        for p in ps:
            q = _dedupe([(int(x), int(y)) for (x, y) in p])
            if _rect_path_ok(q):
                out.append(q)
            else:
                STATS['dropped'] += 1            # a family produced a degenerate path (self-test reports the count)
            if q != list(p):
                STATS['deduped'] += 1
        return out
    S, C = clean(S), clean(C)
    if not S:
        if C:
            S.append(C.pop())
        else:
            S = [R(0, 0, 2, 1)]
    if rng.chance(1, 6):
        S = [_sprinkle_collinear(rng, p, 1, 4) for p in S]
        C = [_sprinkle_collinear(rng, p, 1, 4) for p in C]
    S = [_rot(rng, p) for p in S]
    C = [_rot(rng, p) for p in C]
    if rng.chance(1, 2):
        rng.shuffle(S)
        rng.shuffle(C)
    if flip is None:
        flip = (rng.chance(1, 3), rng.chance(1, 2))
    fx, fy = bool(flip[0]), bool(flip[1])
    x0, y0, x1, y1 = _bbox(S + C)
    keep_sense = (fx != fy) and rng.chance(3, 4)     # a single flip inverts orientations: mostly restore them

    def tf(ps):
        out = []
        for p in ps:
            q = [((x0 + x1 - x) if fx else x, (y0 + y1 - y) if fy else y) for (x, y) in p]
            out.append(q[::-1] if keep_sense else q)
        return out
    S, C = tf(S), tf(C)
    dx, dy = rng.range(-40, 40) * k, rng.range(-40, 40) * k
    return polys.scale_translate(S, k, dx, dy), polys.scale_translate(C, k, dx, dy), (fx, fy)


def gen_rectilinear_case_info(rng, k=None, flip=None, family=None):
    if k is None:
        k = rng.choice(LATTICES)
    fam = family or _pick_family(rng)
    S, C, info = _FAMS[fam](rng)
    S, C, fl = _finish(rng, S, C, k, flip)
    info = dict(info)
    info.update(k=k, flip=fl)
    return S, C, fam, info


def gen_rectilinear_case(rng, k=None, flip=None, family=None):
    """(S, C, kind): axis-parallel polygons, every coordinate a multiple of k (k from LATTICES when None), so distinct
    features are >= k >= 2 apart while exact coincidences (shared edges, touching vertices) are frequent.
    flip = (flip_x, flip_y) forces the global mirror (random when None).  kind is one of RECT_FAMILIES."""
    S, C, fam, _ = gen_rectilinear_case_info(rng, k, flip, family)
    return S, C, fam


# ----------------------------------------------------------------------------- general-position nested shapes
def _even_star(rng, n, cx, cy, rmin, rmax):
    """star-shaped polygon with jittered evenly spaced directions (counter-clockwise, centre well inside)"""
    step = 3600.0 / n
    a0 = rng.below(3600)
    j = int(step * 0.25)
    pts = []
    for i in range(n):
        a = a0 + i * step + rng.range(-j, j)
        r = rng.range(rmin, rmax)
        pts.append((cx + int(round(r * math.cos(a * math.pi / 1800))), cy + int(round(r * math.sin(a * math.pi / 1800)))))
    return _dedupe(pts)


def _inradius(p, cx, cy):
    """distance from (cx,cy) to the boundary of the counter-clockwise polygon p if every edge sees the centre on its
    left (negative otherwise)"""
    best = None
    for a, b in _edges(p):
        L = math.hypot(b[0] - a[0], b[1] - a[1])
        if L == 0:
            return -1.0
        d = polys.cross(a, b, (cx, cy)) / L
        best = d if best is None else min(best, d)
    return best if best is not None else -1.0


def _ring(rng, cx, cy, R_, loose):
    n = rng.range(5, 8) if R_ < 40 else (rng.range(7, 10) if R_ < 120 else rng.range(8, 13))
    rmin = max(3, R_ - rng.range(0, max(1, R_ // 10)))
    if loose and rng.chance(1, 3):
        p = polys.star_polygon(rng, n, cx, cy, rmin, R_)
        if len(p) >= 3 and _inradius(p, cx, cy) >= 0.55 * R_:
            return p
    return _even_star(rng, n, cx, cy, rmin, R_)


def _nest(rng, cx, cy, R_, depth, level, out, st):
    ring = _ring(rng, cx, cy, R_, st['loose'])
    if len(ring) < 3:
        return
    out.append((level, ring))
    st['depth'] = max(st['depth'], level)
    if depth <= 1:
        return
    safe = int(_inradius(ring, cx, cy)) - 5
    if safe < 12:
        return
    m = 1
    if st['sib'] and safe >= 45 and st['budget'] > 0 and rng.chance(st['sib'], 4):
        m = rng.range(2, 3)
        st['budget'] -= 1
        st['siblings'] = True
    if m == 1:
        off = rng.range(0, safe // 8)
        a = rng.below(3600) * math.pi / 1800
        r2 = safe - off - 1
        if not st['tight']:
            r2 = r2 * rng.range(80, 100) // 100
        if r2 >= 8:
            _nest(rng, cx + int(round(off * math.cos(a))), cy + int(round(off * math.sin(a))), r2, depth - 1, level + 1, out, st)
        return
    r = int(safe / (1.0 + 1.0 / math.sin(math.pi / m))) - 2
    D = safe - r - 1
    a0 = rng.below(3600)
    for j in range(m):
        a = (a0 + j * 3600.0 / m) * math.pi / 1800
        rj = r if j == 0 else max(8, r * rng.range(50, 100) // 100)
        dj = depth - 1 if j == 0 else rng.range(1, depth - 1)
        _nest(rng, cx + int(round(D * math.cos(a))), cy + int(round(D * math.sin(a))), rj, dj, level + 1, out, st)


def _assign(rng, rings, orient, pc):
    S, C = [], []
    for lvl, p in rings:
        if orient == 'alt':
            q = p[::-1] if lvl % 2 == 0 else p
        elif orient == 'same':
            q = p
        else:
            q = p[::-1] if rng.chance(1, 2) else p
        (C if rng.chance(*pc) else S).append(q)
    if not S and C:
        S.append(C.pop(0))
    return S, C


def _gp_nested(rng, max_depth, box, sib):
    depth = rng.range(1, max_depth)
    st = dict(loose=depth <= 5, tight=depth >= 6, sib=sib, budget=rng.range(1, 3), siblings=False, depth=0)
    R0 = box * rng.range(60, 100) // 100 if depth < 6 else box * rng.range(85, 100) // 100
    out = []
    _nest(rng, rng.range(-box // 10, box // 10), rng.range(-box // 10, box // 10), R0, depth, 1, out, st)
    S, C = _assign(rng, out, rng.choice(['alt', 'alt', 'alt', 'same', 'rand', 'rand']), rng.choice([(0, 1), (0, 1), (1, 4), (1, 2)]))
    kind = 'siblings' if st['siblings'] else 'nested-d%d' % st['depth']
    return S, C, kind, dict(sub=kind, depth=st['depth'])


def _gp_crossing(rng, max_depth, box):
    """two nests with different centres whose rings cross: Intersection / Xor / Difference give deep nestings of
    pieces that are not input rings"""
    st = dict(loose=False, tight=False, sib=0, budget=0, siblings=False, depth=0)
    R0 = box * rng.range(50, 80) // 100
    a, b = [], []
    _nest(rng, 0, 0, R0, rng.range(1, min(4, max_depth)), 1, a, st)
    d = rng.range(R0 // 4, R0)
    ang = rng.below(3600) * math.pi / 1800
    _nest(rng, int(round(d * math.cos(ang))), int(round(d * math.sin(ang))), R0 * rng.range(60, 110) // 100,
          rng.range(1, min(4, max_depth)), 1, b, st)
    o = rng.choice(['alt', 'alt', 'rand'])
    Sa, _ = _assign(rng, a, o, (0, 1))
    Sb, _ = _assign(rng, b, o, (0, 1))
    if rng.chance(1, 4):
        return Sa + Sb, [], 'crossing', dict(sub='crossing-S', depth=None)
    return Sa, Sb, 'crossing', dict(sub='crossing', depth=None)


def _gp_issue(rng, box, u=None):
    """upstream issue inputs scaled, rotated by a random angle and jittered vertex occurrence by vertex occurrence:
    coincident / retraced edges become slivers and small crossings in general position"""
    u = u or rng.choice(UPSTREAM)
    allp = u['S'] + u['C']
    g = 0
    for p in allp:
        for v in p:
            g = math.gcd(g, math.gcd(abs(v[0]), abs(v[1])))
    g = max(g, 1)
    x0, y0, x1, y1 = _bbox(allp)
    # the smallest gap between distinct x (or y) values, after division by g, decides the scale: it becomes ~4 jitter
    # amplitudes (capped so that coordinates stay below ~2e7)
    m = None
    for ax in (0, 1):
        vs = sorted(set(v[ax] // g for p in allp for v in p))
        for a, b in zip(vs, vs[1:]):
            m = b - a if m is None else min(m, b - a)
    amp = rng.range(20, 80)
    big = max(abs(x0), abs(y0), abs(x1), abs(y1)) // g + 1
    want = (4 * amp + m - 1) // m
    sc = max(1, min(want, 20000000 // big))
    if sc < want:                                # capped (#942): larger jitter instead, its features are wide
        amp *= rng.range(2, 6)
    th = rng.below(3600) * math.pi / 1800 if rng.chance(3, 4) else 0.0
    c, s = math.cos(th), math.sin(th)
    mx, my = (x0 + x1) // 2, (y0 + y1) // 2

    def tf(ps):
        out = []
        for p in ps:
            q = []
            for (x, y) in p:
                X, Y = (x - mx) * sc / g, (y - my) * sc / g
                q.append((int(round(X * c - Y * s)) + rng.range(-amp, amp), int(round(X * s + Y * c)) + rng.range(-amp, amp)))
            q = _dedupe(q)
            if len(q) >= 3:
                out.append(q)
        return out
    # consecutive duplicates of the originals are removed BEFORE jittering (they are not the point of these tests)
    S = tf([_dedupe(p) for p in u['S']])
    C = tf([_dedupe(p) for p in u['C']])
    return S, C, 'issue-genpos', dict(sub='issue-genpos-' + u['name'][4:], depth=None)


FALLBACK_GENPOS = ([R(-120, -110, 130, 125), [(-60, -50), (5, 66), (70, -42)]], [], 'nested-d2')


def gen_nested_genpos_case_info(rng, max_depth=8, box=400):
    fam = rng.choice(['nested', 'nested', 'nested', 'nested', 'siblings', 'siblings', 'siblings', 'crossing', 'crossing', 'issue'])
    u = rng.choice(UPSTREAM) if fam == 'issue' else None
    for t in range(100):
        if fam == 'nested':
            S, C, kind, info = _gp_nested(rng, max_depth, box, 0)
        elif fam == 'siblings':
            S, C, kind, info = _gp_nested(rng, max(2, max_depth), box, rng.range(2, 4))
        elif fam == 'crossing':
            S, C, kind, info = _gp_crossing(rng, max_depth, box)
        else:
            S, C, kind, info = _gp_issue(rng, box, u)
            if t >= 40:
                fam = 'nested'
        if S and polys.general_position(S + C):
            info['tries'] = t + 1
            return S, C, kind, info
    S, C, kind = FALLBACK_GENPOS
    return [list(p) for p in S], [list(p) for p in C], kind, dict(sub='fallback', depth=2, tries=100)


def gen_lattice_case(rng):
    """(S, C, kind): 2-6 subject and 0-4 clip rectangles (a quarter of them reversed) whose corners lie on a lattice of
    4..8 lines of spacing 2 per axis: many coincident, collinear-overlapping and touching edges; holes and islands arise
    from the arrangement (and from reversed rectangles under NonZero/Positive/Negative)."""
    n = rng.range(4, 8)

    def rr():
        x0 = rng.below(n - 1); x1 = rng.range(x0 + 1, n - 1)
        y0 = rng.below(n - 1); y1 = rng.range(y0 + 1, n - 1)
        r = R(2 * x0, 2 * y0, 2 * x1, 2 * y1)
        return r if rng.chance(3, 4) else list(reversed(r))
    S = [rr() for _ in range(rng.range(2, 6))]
    C = [rr() for _ in range(rng.below(5))]
    return S, C, 'lattice%d' % n


def gen_nested_genpos_case(rng, max_depth=8, box=400):
    """(S, C, kind): NON-rectilinear nested shapes satisfying polys.general_position(S + C).
    kinds: 'nested-dN' (N strictly nested star rings, random orientation, some in C), 'siblings' (2-3 disjoint stars
    inside the same parent at some levels, each possibly with its own nest), 'crossing' (two nests whose rings cross),
    'issue-genpos' (scaled / rotated / jittered upstream issue inputs; these ignore `box`)."""
    S, C, kind, _ = gen_nested_genpos_case_info(rng, max_depth, box)
    return S, C, kind


# ----------------------------------------------------------------------------- upstream inputs
def _mk(*v):
    """MakePath"""
    assert len(v) % 2 == 0
    return [(v[i], v[i + 1]) for i in range(0, len(v), 2)]


UPSTREAM = [
    dict(name='TestPolytreeHoles3', ct=1, fr=1,
         expect='solution.Count() == 1 && solution[0]->Count() == 2',
         S=[_mk(1072,501, 1072,501, 1072,539, 1072,539, 1072,539, 870,539,
                870,539, 870,539, 870,520, 894,520, 898,524, 911,524, 915,520, 915,520, 936,520,
                940,524, 953,524, 957,520, 957,520, 978,520, 983,524, 995,524, 1000,520, 1021,520,
                1025,524, 1038,524, 1042,520, 1038,516, 1025,516, 1021,520, 1000,520, 995,516,
                983,516, 978,520, 957,520, 953,516, 940,516, 936,520, 915,520, 911,516, 898,516,
                894,520, 870,520, 870,516, 870,501, 870,501, 870,501, 1072,501)],
         C=[_mk(870,501, 971,501, 971,539, 870,539)]),
    dict(name='TestPolytreeHoles4', ct=2, fr=1,          # #618
         expect='solution.Count() == 1 && solution[0]->Count() == 3',
         S=[_mk(50,500, 50,300, 100,300, 100,350, 150,350,
                150,250, 200,250, 200,450, 350,450, 350,200, 400,200, 400,225, 450,225,
                450,175, 400,175, 400,200, 350,200, 350,175, 200,175, 200,250, 150,250,
                150,200, 100,200, 100,300, 50,300, 50,125, 500,125, 500,500),
            _mk(250,425, 250,375, 300,375, 300,425)],
         C=[]),
    dict(name='TestPolytreeHoles5', ct=4, fr=1,
         expect='tree.Count() == 3 && tree[2]->Count() == 2',
         S=[_mk(0,30, 400,30, 400,100, 0,100)],
         C=[_mk(20,30, 30,30, 30,150, 20,150),
            _mk(200,0, 300,0, 300,30, 280,30, 280,20, 220,20, 220,30, 200,30),
            _mk(200,50, 300,50, 300,80, 200,80)]),
    dict(name='TestPolytreeHoles6', ct=4, fr=1,          # #618
         expect='tree.Count() == 3 && tree[2]->Count() == 1',
         S=[_mk(150,50, 200,50, 200,100, 150,100),
            _mk(125,100, 150,100, 150,150, 125,150),
            _mk(225,50, 300,50, 300,80, 225,80),
            _mk(225,100, 300,100, 300,150, 275,150, 275,175, 260,175,
                260,250, 235,250, 235,300, 275,300, 275,275, 300,275, 300,350, 225,350),
            _mk(300,150, 350,150, 350,175, 300,175)],
         C=[_mk(0,0, 400,0, 400,50, 0,50),
            _mk(0,100, 400,100, 400,150, 0,150),
            _mk(260,175, 325,175, 325,275, 260,275)]),
    dict(name='TestPolytreeHoles7', ct=2, fr=1,          # #618
         expect='polytree.Count() == 1 && polytree[0]->Count() == 1',
         S=[_mk(0, 0, 100000, 0, 100000, 100000, 200000, 100000,
                200000, 0, 300000, 0, 300000, 200000, 0, 200000),
            _mk(0, 0, 0, -100000, 250000, -100000, 250000, 0)],
         C=[]),
    dict(name='TestPolytreeHoles8', ct=2, fr=1,          # #942
         expect='solution.Count() == 1 && solution[0]->Count() == 2 && (*solution[0])[1]->Count() == 1',
         S=[_mk(1588700,-8717600, 1616200,-8474800,
                1588700,-8474800),
            _mk(13583800,-15601600, 13582800,-15508500,
                13555300,-15508500, 13555500,-15182200, 13010900,-15185400),
            _mk(956700,-3092300, 1152600,3147400, 25600,3151700),
            _mk(22575900,-16604000, 31286800,-12171900,
                31110200,4882800, 30996200,4826300, 30414400,5447400, 30260000,5391500,
                29662200,5805400, 28844500,5337900, 28435000,5789300, 27721400,5026400,
                22876300,5034300, 21977700,4414900, 21148000,4654700, 20917600,4653400,
                19334300,12411000, -2591700,12177200, 53200,3151100, -2564300,12149800,
                7819400,4692400, 10116000,5228600, 6975500,3120100, 7379700,3124700,
                11037900,596200, 12257000,2587800, 12257000,596200, 15227300,2352700,
                18444400,1112100, 19961100,5549400, 20173200,5078600, 20330000,5079300,
                20970200,4544300, 20989600,4563700, 19465500,1112100, 21611600,4182100,
                22925100,1112200, 22952700,1637200, 23059000,1112200, 24908100,4181200,
                27070100,3800600, 27238000,3800700, 28582200,520300, 29367800,1050100,
                29291400,179400, 29133700,360700, 29056700,312600, 29121900,332500,
                29269900,162300, 28941400,213100, 27491300,-3041500, 27588700,-2997800,
                22104900,-16142800, 13010900,-15603000, 13555500,-15182200,
                13555300,-15508500, 13582800,-15508500, 13583100,-15154700,
                1588700,-8822800, 1588700,-8379900, 1588700,-8474800, 1616200,-8474800,
                1003900,-630100, 1253300,-12284500, 12983400,-16239900),
            _mk(198200,12149800, 1010600,12149800, 1011500,11859600),
            _mk(21996700,-7432000, 22096700,-7432000, 22096700,-7332000)],
         C=[]),
    # TestPolytreeUnion.cpp / TestPolytreeIntersection.cpp: subject[0] is NOT positive, so the tests take the Negative
    # branch (the union one additionally sets ReverseSolution(true): key rs)
    dict(name='TestPolytreeUnion', ct=2, fr=3, rs=True,
         expect='solution.Count() == 1 && solution[0]->Polygon().size() == 8 && !IsPositive(solution[0]->Polygon())',
         S=[_mk(0,0, 0,5, 5,5, 5,0), _mk(1,1, 1,6, 6,6, 6,1)],
         C=[]),
    dict(name='TestPolyTreeIntersection', ct=1, fr=3,
         expect='solution.Count() == 1 && solution[0]->Polygon().size() == 4',
         S=[_mk(0,0, 0,5, 5,5, 5,0)],
         C=[_mk(1,1, 1,6, 6,6, 6,1)]),
]

_CT = [('INTERSECTION', 1), ('UNION', 2), ('DIFFERENCE', 3), ('XOR', 4)]
_FR = [('EVENODD', 0), ('NONZERO', 1), ('POSITIVE', 2), ('NEGATIVE', 3)]


def _parse_path_line(line):
    """CPP/Utils/ClipFileLoad.cpp GetPath: integers separated by spaces and at most one comma; stops at the first thing
    that is not an integer; needs at least one complete point"""
    pts, pos, n = [], 0, len(line)
    vals = []
    while True:
        while pos < n and line[pos] == ' ':
            pos += 1
        m = re.compile(r'-?[0-9]+').match(line, pos)
        if not m or (m.group(0).startswith('-') and len(m.group(0)) == 1):
            break
        vals.append(int(m.group(0)))
        pos = m.end()
        while pos < n and line[pos] == ' ':
            pos += 1
        if pos < n and line[pos] == ',':
            pos += 1
    for i in range(0, len(vals) - 1, 2):
        pts.append((vals[i], vals[i + 1]))
    return pts


def load_test_file(path):
    """parse a /repo/Tests/*.txt file (format of CPP/Utils/ClipFileLoad.cpp LoadTestNum) into a list of dicts
    {caption, ct, fr, S, C, O, area, count}; ct / fr are the C++ enum values (0 = NoClip / EvenOdd when absent)"""
    with open(path, 'r', errors='replace') as f:
        lines = f.read().replace('\r', '').split('\n')
    tests, cur, section = [], None, None
    for line in lines:
        if section is not None and cur is not None:
            pts = _parse_path_line(line)
            if pts:
                cur[section].append(pts)
                continue
            section = None
        if 'CAPTION:' in line:
            cur = dict(caption=line.split('CAPTION:', 1)[1].strip(), ct=0, fr=0, S=[], C=[], O=[], area=None, count=None)
            tests.append(cur)
            continue
        if cur is None:
            continue
        hit = False
        for name, v in _CT:
            if name in line:
                cur['ct'] = v
                hit = True
                break
        if hit:
            continue
        for name, v in _FR:
            if name in line:
                cur['fr'] = v
                hit = True
                break
        if hit:
            continue
        if 'SOL_AREA' in line or 'SOL_COUNT' in line:
            m = re.search(r'-?[0-9]+', line.split(':', 1)[1] if ':' in line else '')
            if m:
                cur['area' if 'SOL_AREA' in line else 'count'] = int(m.group(0))
        elif 'SUBJECTS_OPEN' in line:
            section = 'O'
        elif 'SUBJECTS' in line:
            section = 'S'
        elif 'CLIPS' in line:
            section = 'C'
    return tests


# ----------------------------------------------------------------------------- mutation of stored rectilinear cases
def perturb_case(rng, S, C, k):
    """one small structure-preserving mutation of a rectilinear case on lattice k: move a whole path by a lattice step,
    move one edge (all vertices of one path sharing an x or a y) by a lattice step, reverse a path, or move a path
    between S and C.  Returns new lists; the result stays rectilinear, on the lattice, without degenerate edges."""
    S = [list(p) for p in S]
    C = [list(p) for p in C]
    for _ in range(30):
        where = [(0, i) for i in range(len(S))] + [(1, i) for i in range(len(C))]
        if not where:
            break
        w, i = rng.choice(where)
        P = S if w == 0 else C
        p = P[i]
        op = rng.choice(['move', 'edge', 'edge', 'edge', 'reverse', 'swap'])
        if op == 'move':
            dx, dy = rng.choice([(1, 0), (-1, 0), (0, 1), (0, -1), (1, 1), (1, -1), (-1, 1), (-1, -1)])
            s = k * rng.choice([1, 1, 1, 2])
            P[i] = [(x + dx * s, y + dy * s) for (x, y) in p]
            return S, C
        if op == 'edge':
            ax = rng.below(2)
            val = rng.choice(sorted(set(v[ax] for v in p)))
            d = k if rng.chance(1, 2) else -k
            q = [((x + d if x == val else x), y) if ax == 0 else (x, (y + d if y == val else y)) for (x, y) in p]
            if _rect_path_ok(q):
                P[i] = q
                return S, C
            continue
        if op == 'reverse':
            P[i] = p[::-1]
            return S, C
        if w == 0 and len(S) > 1:
            C.append(S.pop(i))
            return S, C
        if w == 1:
            S.append(C.pop(i))
            return S, C
    return S, C


# ----------------------------------------------------------------------------- self-test
def _bucket(n):
    for b in (4, 8, 16, 32, 64, 128, 256, 512):
        if n <= b:
            return '<=%d' % b
    return '>512'


def _pip(pt, p):
    """even-odd point in polygon (pt not on the boundary)"""
    c = False
    for a, b in _edges(p):
        if (a[1] > pt[1]) != (b[1] > pt[1]):
            # x coordinate of the edge at height pt[1], compared exactly
            lhs = (pt[0] - a[0]) * (b[1] - a[1])
            rhs = (b[0] - a[0]) * (pt[1] - a[1])
            if (lhs < rhs) == (b[1] > a[1]):
                c = not c
    return c


def _print_hist(title, h, key=None):
    print(title)
    for kk in sorted(h, key=key):
        print('   %-28s %d' % (kk, h[kk]))


if __name__ == '__main__':
    import time
    sys.path.insert(0, os.path.join(os.path.dirname(os.path.dirname(os.path.abspath(__file__))), 'lib'))
    import vf
    N = 2000
    t0 = time.time()
    # transcription sanity
    for u in UPSTREAM:
        assert set(u) >= {'name', 'S', 'C', 'ct', 'fr'} and all(len(p) >= 3 for p in u['S'] + u['C'])
    for fn in ('PolytreeHoleOwner.txt', 'PolytreeHoleOwner2.txt', 'Polygons.txt', 'Lines.txt'):
        pth = os.path.join(vf.REPO, 'Tests', fn)
        if os.path.exists(pth):
            ts = load_test_file(pth)
            print('load_test_file %-24s %d tests, %d subject paths, %d clip paths, %d open paths' % (
                fn, len(ts), sum(len(t['S']) for t in ts), sum(len(t['C']) for t in ts), sum(len(t['O']) for t in ts)))
            assert ts and all(t['ct'] in (1, 2, 3, 4) for t in ts)
    rng = vf.Rng(1, 0)
    kinds, subs, depth, nvert, npath, lat, flips = {}, {}, {}, {}, {}, {}, {}

    def bump(h, x):
        h[x] = h.get(x, 0) + 1
    for i in range(N):
        S, C, kind, info = gen_rectilinear_case_info(rng)
        k = info['k']
        assert kind in RECT_FAMILIES
        assert S and all(len(p) >= 3 for p in S + C), (kind, info, S, C)
        assert is_rectilinear(S + C), (kind, info, S, C)
        assert on_lattice(S + C, k), (kind, info)
        assert no_consecutive_duplicates(S + C), (kind, info)
        bump(kinds, kind)
        bump(subs, info['sub'])
        bump(lat, k)
        bump(flips, 'x%d y%d' % (info['flip'][0], info['flip'][1]))
        if info.get('depth') is not None:
            bump(depth, '%s %2d' % (kind, info['depth']))
        bump(nvert, _bucket(sum(len(p) for p in S + C)))
        bump(npath, _bucket(len(S + C)))
        # perturbation keeps the invariants
        S2, C2 = perturb_case(rng, S, C, k)
        assert S2 and is_rectilinear(S2 + C2) and on_lattice(S2 + C2, k) and all(len(p) >= 3 for p in S2 + C2)
    t1 = time.time()
    print('rectilinear: %d cases in %.1fs; degenerate paths dropped / de-duplicated by _finish: %d / %d' % (
        N, t1 - t0, STATS['dropped'], STATS['deduped']))
    _print_hist(' kinds', kinds)
    _print_hist(' sub-kinds', subs)
    _print_hist(' lattice k', lat)
    _print_hist(' flips', flips)
    _print_hist(' nominal contour depth (frames: 2 per ring + leaf; stairs: diamond rings)', depth)
    _print_hist(' total vertices', nvert, key=lambda s: (len(s), s))
    _print_hist(' paths', npath, key=lambda s: (len(s), s))
    # determinism
    a = gen_rectilinear_case(vf.Rng(7, 3))
    b = gen_rectilinear_case(vf.Rng(7, 3))
    assert a == b
    rng = vf.Rng(1, 1)
    kinds, subs, depth, nvert, tries, inC = {}, {}, {}, {}, {}, 0
    for i in range(N):
        S, C, kind, info = gen_nested_genpos_case_info(rng)
        assert S and all(len(p) >= 3 for p in S + C)
        assert no_consecutive_duplicates(S + C)
        assert polys.general_position(S + C), (kind, info)
        assert not is_rectilinear(S + C) or info['sub'] == 'fallback'
        if kind.startswith('nested-d') or kind == 'siblings':
            # the rings really are strictly nested / disjoint and the claimed depth is the real one
            assert not polys.crossings(S + C), (kind, info)
            rings = S + C
            d = 1 + max(sum(1 for q in rings if q is not p and _pip(p[0], q)) for p in rings)
            assert d == info['depth'], (kind, info, d)
        bump(kinds, kind)
        bump(subs, info['sub'])
        if info.get('depth') is not None:
            bump(depth, '%2d' % info['depth'])
        bump(nvert, _bucket(sum(len(p) for p in S + C)))
        bump(tries, _bucket(info['tries']))
        inC += 1 if C else 0
    t2 = time.time()
    print('general position: %d cases in %.1fs (%d with a non-empty clip set)' % (N, t2 - t1, inC))
    _print_hist(' kinds', kinds)
    _print_hist(' sub-kinds', subs)
    _print_hist(' nesting depth (nested / siblings)', depth)
    _print_hist(' total vertices', nvert, key=lambda s: (len(s), s))
    _print_hist(' attempts', tries, key=lambda s: (len(s), s))
    a = gen_nested_genpos_case(vf.Rng(9, 2))
    b = gen_nested_genpos_case(vf.Rng(9, 2))
    assert a == b
    print('self-test OK in %.1fs' % (time.time() - t0))
