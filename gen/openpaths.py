"""Seeded generators of open polylines on top of the closed-path families of gen/polys.py (C05, reusable by C04/C15).
All randomness through vf.Rng.  `gp_open_py` is only a fast PRE-filter; the hypothesis of the check is the Coq
predicate model/OpenClipSpec.v general_position_open, evaluated by bin/oracle_openclip on every accepted case.

A case is (S, C, O, info): closed subject paths, clip paths, open subject polylines (2..8 vertices each) in a small
box (|coord| <= ~170); `polys.apply_regime` + `scale_open` move it exactly into the 7 coordinate regimes."""
import polys
from polys import cross, sgn, seg_far, cyc_edges


def open_edges(p):
    return [(p[i], p[i + 1]) for i in range(len(p) - 1)]


def proper(a, b, c, d):
    return sgn(cross(a, b, c)) * sgn(cross(a, b, d)) < 0 and sgn(cross(c, d, a)) * sgn(cross(c, d, b)) < 0


def gp_open_py(closed, O, tol=3):
    """python mirror of OpenClipSpec.gp_open (pre-filter only)"""
    ces = [e for p in closed for e in cyc_edges(p)]
    cvs = [v for p in closed for v in p]
    for p in O:
        if len(p) < 2:
            return False
        for a, b in open_edges(p):
            if a == b:
                return False
    oes = [e for p in O for e in open_edges(p)]
    for p in O:
        for v in p:
            for c, d in ces:
                if not seg_far(tol, 1, v, c, d):
                    return False
    for v in cvs:
        for a, b in oes:
            if not seg_far(tol, 1, v, a, b):
                return False
    for a, b in oes:
        for i, (c, d) in enumerate(ces):
            if not proper(a, b, c, d):
                continue
            dx1, dy1, dx2, dy2 = b[0] - a[0], b[1] - a[1], d[0] - c[0], d[1] - c[1]
            det = dx1 * dy2 - dy1 * dx2
            t = (c[0] - a[0]) * dy2 - (c[1] - a[1]) * dx2
            ad = abs(det)
            q = ((a[0] * det + t * dx1) * sgn(det), (a[1] * det + t * dy1) * sgn(det))
            for k, (g0, g1) in enumerate(ces):
                if k == i:
                    continue
                if not seg_far(tol * ad, 1, q, (g0[0] * ad, g0[1] * ad), (g1[0] * ad, g1[1] * ad)):
                    return False
    return True


def open_self_clear_py(O, tol=3):
    """python mirror of OpenClipSpec.open_self_clear (pre-filter only): every open vertex is >= tol from every open
    segment it is not an end of by index"""
    for pi, p in enumerate(O):
        for vi, v in enumerate(p):
            for qi, q in enumerate(O):
                for ei, (a, b) in enumerate(open_edges(q)):
                    if pi == qi and (ei == vi or ei + 1 == vi):
                        continue
                    if not seg_far(tol, 1, v, a, b):
                        return False
    return True


def count_crossings(closed, O):
    ces = [e for p in closed for e in cyc_edges(p)]
    return sum(1 for p in O for a, b in open_edges(p) for c, d in ces if proper(a, b, c, d))


# ----------------------------------------------------------------------------- open polyline families
FAMILIES = ['walk', 'through', 'inside-out', 'zigzag-flat', 'axis', 'shared-y', 'near-edge', 'two-point',
            'flat-extremum', 'flat-extremum', 'peak-horz', 'peak-horz']
# shapes of the BROAD judged class (closed paths in general position, open polylines arbitrary): open vertices 0..3 units from
# the closed edge the path has just crossed, hairpins 1-2 units wide through an edge, vertices grazing an edge, fold-backs,
# first = last loops.  1 case in 4; never scaled (scaling would move them out of "near"), only translated.
BROAD_FAMILIES = ['near-cross', 'near-cross', 'near-cross', 'hairpin', 'hairpin', 'graze', 'tip-cross', 'tip-cross', 'spike', 'loop', 'horz-spike', 'horz-spike']
DEGENERATE_FAMILIES = BROAD_FAMILIES
BROAD_OFFSETS = [0, 0, 1000, 10 ** 6, 2 ** 29, 2 ** 39, 2 ** 51]


def _edge_frame(rng, closed):
    """a point P on a closed edge (float), unit tangent and unit normal"""
    es = [e for p in closed for e in cyc_edges(p)]
    a, b = rng.choice(es)
    t = rng.range(15, 85) / 100.0
    dx, dy = b[0] - a[0], b[1] - a[1]
    L = max(1e-9, (dx * dx + dy * dy) ** 0.5)
    return (a[0] + t * dx, a[1] + t * dy), (dx / L, dy / L), (-dy / L, dx / L)


def _at(P, T, N, u, v):
    return (int(round(P[0] + T[0] * u + N[0] * v)), int(round(P[1] + T[1] * u + N[1] * v)))


def broad_path(rng, closed, box, fam):
    P, T, N = _edge_frame(rng, closed)
    s = rng.choice([-1, 1])
    if fam == 'near-cross':
        # ... far point, [more points], a vertex 0..3 units beyond the edge just crossed, then 1 (mostly) or 2 more points on that side
        d = rng.range(0, 300) / 100.0
        pts = [_at(P, T, N, rng.range(-40, 40), -s * rng.range(15, 110))]
        if rng.chance(1, 3):
            pts.insert(0, _at(P, T, N, rng.range(-80, 80), -s * rng.range(20, 130)))
        pts.append(_at(P, T, N, 0, s * d))
        pts.append(_at(P, T, N, rng.range(-60, 60), s * rng.range(8, 90)))
        if rng.chance(1, 4):
            pts.append(_at(P, T, N, rng.range(-60, 60), s * rng.range(8, 90)))
        if rng.chance(1, 2):
            pts.reverse()
        return pts
    if fam == 'hairpin':
        # in through the edge and out again 1-2 units further along it (three points, or with a tail)
        w = rng.choice([1, 1, 2, 2, 3])
        depth = rng.range(5, 80)
        out = rng.range(10, 110)
        A = _at(P, T, N, 0, -s * out)
        apex = _at(P, T, N, rng.range(0, 1), s * depth)
        B = _at(P, T, N, w, -s * (out + rng.range(-5, 5)))
        pts = [A, apex, B]
        if rng.chance(1, 4):
            pts.append(_at(P, T, N, rng.range(-50, 50), -s * rng.range(20, 120)))
        return pts
    if fam == 'tip-cross':
        # a long segment passing 0..5 units from a closed VERTEX (through the tip just below its apex, or just missing it)
        v = rng.choice([q for p in closed for q in p])
        qx, qy = v[0] + rng.range(-5, 5), v[1] + rng.range(-5, 5)
        ux, uy = rng.range(-20, 20), rng.range(-20, 20)
        if (ux, uy) == (0, 0):
            ux = 1
        k1, k2 = rng.range(3, 9), rng.range(3, 9)
        pts = [(qx - ux * k1, qy - uy * k1), (qx + ux * k2, qy + uy * k2)]
        if rng.chance(1, 3):
            pts.append((pts[-1][0] + rng.range(-60, 60), pts[-1][1] + rng.range(-60, 60)))
        return pts
    if fam == 'graze':
        # approaches an edge to within 0..3 units and turns back without (or barely) crossing
        d = rng.range(-100, 300) / 100.0
        return [_at(P, T, N, -rng.range(20, 90), -s * rng.range(10, 90)), _at(P, T, N, 0, -s * d), _at(P, T, N, rng.range(20, 90), -s * rng.range(10, 90))]
    return open_path(rng, closed, box, fam)


def _interior_point(rng, closed, box):
    """a point near the centroid of one of the closed paths (often inside it)"""
    if not closed:
        return polys.rand_pt(rng, box)
    p = rng.choice(closed)
    cx = sum(v[0] for v in p) // len(p)
    cy = sum(v[1] for v in p) // len(p)
    return (cx + rng.range(-4, 4), cy + rng.range(-4, 4))


def _outside_point(rng, box):
    side = rng.below(4)
    r = box + rng.range(8, 40)
    t = rng.range(-box, box)
    return [(-r, t), (r, t), (t, -r), (t, r)][side]


def open_path(rng, closed, box, fam):
    n = rng.range(2, 8)
    if fam == 'walk':            # arbitrary polyline, self-crossing likely
        return [polys.rand_pt(rng, box + 20) for _ in range(n)]
    if fam == 'through':         # long chords through the whole figure, crossing every nested ring
        pts = [_outside_point(rng, box)]
        for _ in range(rng.range(1, 4)):
            pts.append(_outside_point(rng, box))
        return pts
    if fam == 'inside-out':      # starts (usually) inside a closed path, wanders, ends outside — or the reverse
        pts = [_interior_point(rng, closed, box)]
        for _ in range(n - 2):
            pts.append(polys.rand_pt(rng, box))
        pts.append(_outside_point(rng, box))
        if rng.chance(1, 2):
            pts.reverse()
        return pts
    if fam == 'zigzag-flat':     # nearly horizontal long segments (|dy| <= 2 over a long dx), alternating direction
        y = rng.range(-box, box)
        x = -box - rng.range(5, 30)
        pts = [(x, y)]
        d = 1
        for _ in range(n - 1):
            x = (box + rng.range(5, 30)) * d
            y += rng.range(-2, 2) if rng.chance(2, 3) else rng.range(3, 9)
            pts.append((x, y))
            d = -d
        return pts
    if fam in ('flat-extremum', 'horz-spike'):
        # comes in from above/below, runs along a horizontal line in 1-3 segments, leaves to the same or the other side;
        # 'horz-spike' reverses direction on the line (180 degree spike made of horizontal segments)
        y = rng.range(-box, box)
        x = rng.range(-box - 20, box + 20)
        side = rng.choice([-1, 1])
        pts = [(x + rng.range(-30, 30), y + side * rng.range(5, 60))] if rng.chance(4, 5) else []
        pts.append((x, y))
        d = rng.choice([-1, 1])
        for i in range(rng.range(1, 3)):
            nx = x + d * rng.range(20, 2 * box)
            lim = box + 60 - rng.range(0, 20)       # stay in the box: the regimes scale by up to 2^53 and |coordinates| must stay <= 2^61
            nx = max(-lim, min(lim, nx))
            if abs(nx - x) < 5:
                break
            x = nx
            pts.append((x, y))
            if fam == 'horz-spike':
                d = -d
        if rng.chance(4, 5):
            side2 = side if rng.chance(2, 3) else -side
            pts.append((x + rng.range(-30, 30), y + side2 * rng.range(5, 60)))
        return pts
    if fam == 'peak-horz':
        # one arm up to a peak, one edge down, then a horizontal segment that crosses the first arm (a proper self-crossing next to
        # a horizontal at the end or in the middle of a bound); mirrored in y and reversed at random
        x0, xp = rng.range(-box, box), rng.range(-box, box)
        y0 = rng.range(40, box + 20)
        yp = y0 - rng.range(80, 2 * box)
        yh = rng.range(yp + 20, y0 - 15)
        x2 = xp + rng.choice([-1, 1]) * rng.range(25, box)
        xa = x0 + (xp - x0) * (yh - y0) // (yp - y0)          # x of the first arm on the horizontal's scanline
        x3 = xa - (1 if x2 > xa else -1) * rng.range(15, box)
        pts = [(x0, y0), (xp, yp), (x2, yh), (x3, yh)]
        if rng.chance(1, 2):
            pts.append((x3 + rng.range(-40, 40), yh + rng.choice([-1, 1]) * rng.range(10, 80)))
        if rng.chance(1, 2):
            pts = [(x, -y) for x, y in pts]
        if rng.chance(1, 2):
            pts.reverse()
        return pts
    if fam == 'axis':            # exactly horizontal and vertical segments (incl. an entirely flat polyline)
        x, y = polys.rand_pt(rng, box)
        pts = [(x, y)]
        flat = rng.chance(1, 4)
        for i in range(n - 1):
            if flat or i % 2 == 0:
                x = rng.range(-box - 20, box + 20)
            else:
                y = rng.range(-box - 20, box + 20)
            pts.append((x, y))
        return pts
    if fam == 'shared-y':        # vertices on the scanlines of closed vertices (same y, different x)
        ys = [v[1] for p in closed for v in p] or [0]
        return [(rng.range(-box - 20, box + 20), rng.choice(ys)) if rng.chance(2, 3) else polys.rand_pt(rng, box) for _ in range(n)]
    if fam == 'spike':           # a -> b -> a (180 degree spike) and onwards
        a, b = polys.rand_pt(rng, box), polys.rand_pt(rng, box)
        pts = [a, b, a]
        for _ in range(rng.range(0, 3)):
            pts.append(polys.rand_pt(rng, box))
        return pts
    if fam == 'loop':            # first vertex == last vertex (still an open polyline)
        pts = [polys.rand_pt(rng, box) for _ in range(max(3, n - 1))]
        return pts + [pts[0]]
    if fam == 'near-edge':       # vertices 3..5 units from a closed edge (stress: near, but in general position)
        pts = []
        es = [e for p in closed for e in cyc_edges(p)]
        for _ in range(n):
            if es and rng.chance(2, 3):
                a, b = rng.choice(es)
                k = rng.range(1, 9)
                mx, my = (a[0] * k + b[0] * (10 - k)) // 10, (a[1] * k + b[1] * (10 - k)) // 10
                dx, dy = b[0] - a[0], b[1] - a[1]
                L = max(1, int((dx * dx + dy * dy) ** 0.5))
                off = rng.range(4, 6) * rng.choice([-1, 1])
                pts.append((mx - dy * off // L, my + dx * off // L))
            else:
                pts.append(polys.rand_pt(rng, box))
        return pts
    # two-point
    return [_outside_point(rng, box), _interior_point(rng, closed, box)] if rng.chance(1, 2) else \
        [polys.rand_pt(rng, box), polys.rand_pt(rng, box)]


def dedup(p):
    out = []
    for v in p:
        if not out or out[-1] != v:
            out.append(v)
    return out


def multiwound(rng, box):
    """closed path sets whose winding number reaches 2 (needed to exercise the |wind_cnt| = 1 tests)"""
    k = rng.below(3)
    cx, cy = rng.range(-20, 20), rng.range(-20, 20)
    if k == 0:      # concentric rings, same orientation
        ps, r = [], box * 3 // 4
        for _ in range(rng.range(2, 3)):
            ps.append(polys.star_polygon(rng, rng.range(4, 7), cx, cy, r * 4 // 5, r))
            r = r * 3 // 5
        if rng.chance(1, 3):
            ps = [list(reversed(p)) for p in ps]
        return ps
    if k == 1:      # spiral
        return [polys.spiral(rng, 2, rng.range(5, 7), cx, cy, box // 4, box // 4)]
    # two overlapping polygons of equal orientation
    a = polys.star_polygon(rng, rng.range(4, 7), cx - box // 5, cy, box // 3, box // 2)
    b = polys.star_polygon(rng, rng.range(4, 7), cx + box // 5, cy + rng.range(-10, 10), box // 3, box // 2)
    return [a, b]


def gen_open_case(rng, box=120, tries=60):
    """(S, C, O, info) passing the python pre-filters; info = dict(kinds, fams, crossings)"""
    for _ in range(400):
        mode = rng.below(10)
        if mode < 6:
            S, C, kinds = polys.gen_genpos_case(rng, box)
            if rng.chance(1, 6):
                S = []                     # open subjects only
                kinds = (-2, kinds[1])
        else:
            C = [p for p in multiwound(rng, box) if len(p) >= 3]
            S = polys.rand_path_set(rng, box, rng.below(8)) if rng.chance(2, 3) else []
            kinds = ('mw-clip', 'any')
            if rng.chance(1, 3):
                S, C = C, S
                kinds = ('any', 'mw-subj')
            if not polys.general_position(S + C):
                continue
        closed = S + C
        if not closed:
            continue
        O, fams = [], []
        want = rng.range(1, 3)
        broad = rng.chance(1, 4)           # the broad judged class: open polylines near closed edges / folding back
        for _ in range(tries):
            fam = rng.choice(BROAD_FAMILIES if broad and (not O or rng.chance(1, 2)) else FAMILIES)
            if fam in BROAD_FAMILIES:
                p = dedup(broad_path(rng, closed, box, fam))
                ok = len(p) >= 2
            else:
                p = dedup(open_path(rng, closed, box, fam))
                ok = len(p) >= 2 and gp_open_py(closed, [p]) and (broad or open_self_clear_py(O + [p]))
            if ok:
                O.append(p)
                fams.append(fam)
                if len(O) >= want:
                    break
        if not O:
            continue
        nx = count_crossings(closed, O)
        if nx == 0 and not rng.chance(1, 10):
            continue                       # mostly cases where something is actually cut
        return S, C, O, dict(kinds=kinds, fams=fams, crossings=nx, broad=broad)
    return [], [polys.rect(-40, -40, 30, 35)], [[(-60, -3), (50, 11)]], dict(kinds=(-1, -1), fams=['fallback'], crossings=2, broad=False)


# ----------------------------------------------------------------------------- open END families (coverage round, C05)
# Shapes aimed at what the sweep does at the END vertices of open paths and at horizontal edges next to local minima
# (ClipperBase::AddLocalMaxPoly's IsFront(e1) == IsFront(e2) test with its IsOpenEnd branches, InsertLocalMinimaIntoAEL's
# bound ordering when one bound starts with a horizontal): zig-zags with interior local minima AND maxima whose end vertices
# lie inside a closed path (hot when the sweep reaches them) and end going up or going down, several polylines sharing an
# end point, ends exactly on a closed vertex or on a lattice point of a closed edge, ends on the scanline of other
# vertices, horizontal first / last / interior segments at local minima and maxima heading left and right.
ENDS_FAMILIES = ['zz-ends-in', 'zz-ends-in', 'shared-ends', 'shared-ends', 'end-on-closed', 'end-on-closed', 'end-shared-y',
                 'horz-at-min', 'horz-at-min', 'horz-end-in']


def wn_py(p, q):
    """winding number of the closed path p about q (q not on p), crossing rule"""
    w = 0
    for a, b in cyc_edges(p):
        if a[1] <= q[1]:
            if b[1] > q[1] and cross(a, b, q) > 0:
                w += 1
        elif b[1] <= q[1] and cross(a, b, q) < 0:
            w -= 1
    return w


def _inside_pt(rng, closed, box, tol=4):
    """a point inside one of the closed paths and >= tol from every closed edge (falls back to a point near a centroid)"""
    es = [e for p in closed for e in cyc_edges(p)]
    for _ in range(40):
        p = rng.choice(closed)
        xs, ys = [v[0] for v in p], [v[1] for v in p]
        q = (rng.range(min(xs), max(xs)), rng.range(min(ys), max(ys)))
        if all(seg_far(tol, 1, q, a, b) for a, b in es) and wn_py(p, q) != 0:
            return q
    return _interior_point(rng, closed, box)


def _zigzag(rng, A, B, n, amp_lo=12, amp_hi=70):
    """n vertices from A to B: interior vertices spread along AB and pushed alternately up and down, so that the polyline has
    interior local minima and maxima; the first push is up or down at random (decides whether the path leaves A / reaches B
    going up or going down)"""
    s = rng.choice([-1, 1])
    pts = [A]
    for i in range(1, n - 1):
        x = A[0] + (B[0] - A[0]) * i // (n - 1) + rng.range(-6, 6)
        y = A[1] + (B[1] - A[1]) * i // (n - 1) + s * rng.range(amp_lo, amp_hi)
        pts.append((x, y))
        s = -s
    pts.append(B)
    return pts


def _lattice_on_edge(rng, a, b):
    """an integer point of the closed edge ab other than its ends when there is one, else a"""
    from math import gcd
    g = gcd(abs(b[0] - a[0]), abs(b[1] - a[1]))
    if g < 2:
        return a
    k = rng.range(1, g - 1)
    return (a[0] + (b[0] - a[0]) // g * k, a[1] + (b[1] - a[1]) // g * k)


def ends_paths(rng, closed, box, fam, O):
    """one or more open polylines of the END family `fam` (O = the polylines chosen so far)"""
    far = lambda: _outside_point(rng, box) if rng.chance(1, 2) else polys.rand_pt(rng, box + 20)
    if fam == 'zz-ends-in':
        A = _inside_pt(rng, closed, box)
        B = _inside_pt(rng, closed, box) if rng.chance(2, 3) else far()
        p = _zigzag(rng, A, B, rng.range(3, 9))
        if rng.chance(1, 2):
            p.reverse()
        return [p]
    if fam == 'shared-ends':
        # 2-3 polylines meeting in one point P with their first or last vertex, arriving from above and from below
        P = _inside_pt(rng, closed, box) if rng.chance(2, 3) else polys.rand_pt(rng, box)
        out = []
        for i in range(rng.range(2, 3)):
            side = rng.choice([-1, 1])
            Q = (P[0] + rng.range(-box, box), P[1] + side * rng.range(10, box))
            p = _zigzag(rng, Q, P, rng.range(2, 5), 8, 40)
            if rng.chance(1, 2):
                p.reverse()
            out.append(p)
        return out
    if fam == 'end-on-closed':
        # the last (or first) vertex is a closed vertex or a lattice point of a closed edge
        a, b = rng.choice([e for p in closed for e in cyc_edges(p)])
        P = a if rng.chance(1, 2) else _lattice_on_edge(rng, a, b)
        Q = _inside_pt(rng, closed, box) if rng.chance(1, 2) else far()
        p = _zigzag(rng, Q, P, rng.range(2, 6), 8, 50)
        if rng.chance(1, 2):
            p.reverse()
        return [p]
    if fam == 'end-shared-y':
        # end vertices (and an interior extremum) on the scanline of a closed vertex or of a vertex of another polyline
        ys = [v[1] for q in closed for v in q] + [v[1] for q in O for v in q]
        y = rng.choice(ys)
        A = (rng.range(-box, box), y)
        B = (rng.range(-box, box), rng.choice(ys)) if rng.chance(1, 2) else _inside_pt(rng, closed, box)
        p = _zigzag(rng, A, B, rng.range(3, 7))
        if len(p) > 3 and rng.chance(1, 2):
            i = rng.range(1, len(p) - 2)
            p[i] = (p[i][0], y)
        if rng.chance(1, 2):
            p.reverse()
        return [p]
    if fam == 'horz-at-min':
        # arm, horizontal run of 1-2 segments (heading left or right, also doubling back), arm on the same side: a local minimum
        # or maximum one of whose bounds starts with a horizontal; with prob 1/3 an arm is missing (horizontal first / last segment)
        x, y = _inside_pt(rng, closed, box) if rng.chance(1, 2) else polys.rand_pt(rng, box)
        side = rng.choice([-1, 1])
        d = rng.choice([-1, 1])
        run = [(x, y)]
        for i in range(rng.range(1, 2)):
            x = x + d * rng.range(8, box)
            run.append((x, y))
            if rng.chance(1, 4):
                d = -d
        arm = lambda v: (v[0] + rng.range(-50, 50), v[1] + side * rng.range(6, 90))
        k = rng.below(6)
        p = ([] if k == 0 else [arm(run[0])]) + run + ([] if k == 1 else [arm(run[-1])])
        if rng.chance(1, 3):
            p = p + _zigzag(rng, p[-1], far(), rng.range(2, 4))[1:]
        if rng.chance(1, 2):
            p.reverse()
        return [p]
    # 'horz-end-in': a horizontal first segment starting inside a closed path, then up or down and onwards
    A = _inside_pt(rng, closed, box)
    x = A[0] + rng.choice([-1, 1]) * rng.range(6, box)
    p = [A, (x, A[1])] + _zigzag(rng, (x, A[1]), far(), rng.range(2, 5))[1:]
    if rng.chance(1, 2):
        p.reverse()
    return [p]


def flat_closed(rng, box):
    """closed paths whose local minima and maxima carry horizontal edges (rectangle, trapezoid, flat-bottomed pentagon)"""
    x0, x1 = rng.range(-box, -10), rng.range(10, box)
    y0, y1 = rng.range(-box, -10), rng.range(10, box)
    k = rng.below(3)
    if k == 0:
        p = polys.rect(x0, y0, x1, y1)
    elif k == 1:
        p = [(x0, y0), (x1, y0), (x1 + rng.range(-40, 40), y1), (x0 + rng.range(-40, 40), y1)]
    else:
        p = [(x0, y0), (x1, y0), (x1 + rng.range(5, 40), (y0 + y1) // 2), ((x0 + x1) // 2, y1), (x0 - rng.range(5, 40), (y0 + y1) // 2)]
    if rng.chance(1, 2):
        p = list(reversed(p))
    if rng.chance(1, 2):
        k = rng.range(0, len(p) - 1)
        p = p[k:] + p[:k]
    return p



def gen_open_ends_case(rng, box=120):
    """(S, C, O, info) of the END families.  info['broad'] = the open polylines are NOT in general position by the python
    pre-filters (shared end points, ends on closed edges/vertices): such cases are only translated, never scaled."""
    for _ in range(400):
        mode = rng.below(10)
        if mode < 5:
            S, C, kinds = polys.gen_genpos_case(rng, box)
            if rng.chance(1, 4):
                S = []
                kinds = (-2, kinds[1])
        elif mode < 8:
            C = [flat_closed(rng, box)]
            S = [flat_closed(rng, box)] if rng.chance(1, 3) else polys.rand_path_set(rng, box, rng.below(8)) if rng.chance(1, 2) else []
            kinds = ('any', 'flat-closed')
            if rng.chance(1, 4):
                S, C = C, S
                kinds = ('flat-closed', 'any')
            if not polys.general_position(S + C):
                continue
        else:
            C = [p for p in multiwound(rng, box) if len(p) >= 3]
            S = []
            kinds = ('none', 'mw-clip')
            if not polys.general_position(S + C):
                continue
        closed = S + C
        if not closed:
            continue
        O, fams = [], []
        for _ in range(rng.range(1, 2)):
            fam = rng.choice(ENDS_FAMILIES)
            for attempt in range(12):
                ps = [dedup(p) for p in ends_paths(rng, closed, box, fam, O)]
                ps = [p for p in ps if len(p) >= 2 and max(abs(c) for v in p for c in v) <= box + 70]
                # families that can be in general position are redrawn a few times until they are (strict class); shared end
                # points and ends on closed edges never are (broad class)
                if fam in ('shared-ends', 'end-on-closed') or (ps and gp_open_py(closed, ps) and open_self_clear_py(O + ps)):
                    break
            if ps:
                O += ps
                fams.append(fam)
        O = O[:4]
        if not O:
            continue
        nx = count_crossings(closed, O)
        if nx == 0 and not rng.chance(1, 8):
            continue
        strict = gp_open_py(closed, O) and open_self_clear_py(O)
        return S, C, O, dict(kinds=kinds, fams=fams, crossings=nx, broad=not strict, ends=True)
    return [], [polys.rect(-40, -40, 30, 35)], [[(-60, -3), (0, 20), (10, -11)]], dict(kinds=(-1, -1), fams=['fallback'], crossings=1, broad=False, ends=True)


def end_shape_stats(O):
    """what the END families are meant to produce, counted on the generated polylines (evidence only): per polyline
    interior local extrema, ends reached going up / going down / horizontally (y axis of the library: up = smaller y),
    horizontal segments adjacent to a local extremum"""
    st = dict(paths=0, interior_extrema=0, end_up=0, end_down=0, end_horizontal=0, horz_at_extremum=0, horz_left=0, horz_right=0)
    for p in O:
        st['paths'] += 1
        dys = [b[1] - a[1] for a, b in open_edges(p)]
        nz = [d for d in dys if d != 0]
        st['interior_extrema'] += sum(1 for i in range(len(nz) - 1) if (nz[i] > 0) != (nz[i + 1] > 0))
        for d in (-dys[0], dys[-1]):          # direction in which the sweep-relevant end is reached, seen from the path
            st['end_horizontal' if d == 0 else 'end_up' if d < 0 else 'end_down'] += 1
        for i, (a, b) in enumerate(open_edges(p)):
            if a[1] != b[1]:
                continue
            st['horz_right' if b[0] > a[0] else 'horz_left'] += 1
            before = [d for d in dys[:i] if d != 0]
            after = [d for d in dys[i + 1:] if d != 0]
            if not before or not after or (before[-1] > 0) != (after[0] > 0):
                st['horz_at_extremum'] += 1
    return st


def horz_spike(O):
    """some open path has two consecutive horizontal segments of opposite direction (a horizontal 180-degree spike; before the
    fix of DoHorizontal the maxima pair was met too early, see triage/C05.md)"""
    for p in O:
        for i in range(len(p) - 2):
            a, b, c = p[i], p[i + 1], p[i + 2]
            if a[1] == b[1] == c[1] and (b[0] - a[0]) * (c[0] - b[0]) < 0:
                return True
    return False


def rounding_bound(S, C, O):
    """How far binary64 evaluation can put a cut point from the exact crossing (classification of failures on
    coordinates >= 2^53 only; exact rational arithmetic, result rounded up to an integer number of units).

    The engine computes a crossing of two input segments p1p2, q1q2 as p1 + t*(p2 - p1) with
    t = N/det, N = (p1-q1).x*d2.y - (p1-q1).y*d2.x, det = d1.y*d2.x - d2.y*d1.x in doubles (GetSegmentIntersectPt; either
    segment can be the first).  With unit roundoff u = 2^-53 the standard first-order forward error of that expression is
      |err t|   <= 4u * kappa + u,   kappa = (|A*d2.y| + |B*d2.x| + |d1.y*d2.x| + |d2.y*d1.x|) / |det|   (A, B = p1 - q1)
      |err x|   <= L*(4u*kappa + 2u) + 2u*M + 1,   L = max |d1| component, M = max |coordinate| (conversion of p1.x to
                   double, the final addition, truncation to int64)
    TopX / GetClosestPointOnSegment (used at horizontals and when the point falls outside the scanbeam) stay below the same
    bound.  The bound returned is 2 (second-order terms, the CLIPPER2_HI_PRECISION variant of the formula) * 1.5 (> sqrt 2,
    both coordinates) times that: ceil((L*(4*kappa + 2) + 2*M) / 2^51) + 3, maximised over all proper open x closed crossings
    and both roles."""
    from fractions import Fraction
    M = polys.maxabs([S, C, O])
    worst = Fraction(2 * M)
    ces = [e for p in S + C for e in cyc_edges(p)]
    for p in O:
        for a, b in open_edges(p):
            for c, d in ces:
                if not proper(a, b, c, d):
                    continue
                for (p1, p2, q1, q2) in ((a, b, c, d), (c, d, a, b)):
                    d1x, d1y, d2x, d2y = p2[0] - p1[0], p2[1] - p1[1], q2[0] - q1[0], q2[1] - q1[1]
                    det = d1y * d2x - d2y * d1x
                    A, B = p1[0] - q1[0], p1[1] - q1[1]
                    kappa = Fraction(abs(A * d2y) + abs(B * d2x) + abs(d1y * d2x) + abs(d2y * d1x), abs(det))
                    L = max(abs(d1x), abs(d1y))
                    worst = max(worst, L * (4 * kappa + 2) + 2 * M)
    return -((-worst.numerator) // (worst.denominator * 2 ** 51)) + 3


def shallow_margin(S, C, O):
    """Classification of strict-class coverage/length failures below 2^53.  The sweep orders edges at every scanline by
    x rounded to integers; where an open segment crosses a closed edge at a shallow angle theta the two stay within one unit
    of each other for about 2/sin(theta) units along the subject, and if scanlines of other vertices fall in that stretch the
    swap is noticed in a later scanbeam and the cut is clamped to that scanbeam's boundary: still within a unit of both
    lines, but displaced ALONG the subject by up to ~2/sin(theta).  Returns 3 + ceil(2/sin(theta_min)) over all proper
    open x closed crossings when that exceeds the property's 3 units by itself (sin(theta_min) < 2/3), else None."""
    from math import isqrt
    ces = [e for p in S + C for e in cyc_edges(p)]
    best = None       # (cross^2, |d1|^2 |d2|^2) with the smallest ratio
    for p in O:
        for a, b in open_edges(p):
            for c, d in ces:
                if not proper(a, b, c, d):
                    continue
                d1x, d1y, d2x, d2y = b[0] - a[0], b[1] - a[1], d[0] - c[0], d[1] - c[1]
                cr = d1x * d2y - d1y * d2x
                num, den = cr * cr, (d1x * d1x + d1y * d1y) * (d2x * d2x + d2y * d2y)
                if best is None or num * best[1] < best[0] * den:
                    best = (num, den)
    if best is None or 9 * best[0] >= 4 * best[1]:          # sin^2 >= 4/9
        return None
    num, den = best
    # ceil(2 * sqrt(den/num)) = ceil(sqrt(4 den / num))
    q = -((-4 * den) // num)
    r = isqrt(q)
    return 3 + (r if r * r == q else r + 1)


def scale_open(O, tf):
    k, dx, dy = tf
    return polys.scale_translate(O, k, dx, dy)


# ----------------------------------------------------------------------------- shrinking
def shrink_candidates(S, C, O):
    """one-step reductions: drop a path, drop a vertex (closed paths keep >= 3, open >= 2 vertices)"""
    out = []
    for name, ps, mn in (('S', S, 3), ('C', C, 3), ('O', O, 2)):
        for i in range(len(ps)):
            q = ps[:i] + ps[i + 1:]
            out.append(dict(S=q if name == 'S' else S, C=q if name == 'C' else C, O=q if name == 'O' else O))
    for name, ps, mn in (('S', S, 3), ('C', C, 3), ('O', O, 2)):
        for i, p in enumerate(ps):
            if len(p) <= mn:
                continue
            for j in range(len(p)):
                q = ps[:i] + [p[:j] + p[j + 1:]] + ps[i + 1:]
                out.append(dict(S=q if name == 'S' else S, C=q if name == 'C' else C, O=q if name == 'O' else O))
    return [c for c in out if c['O']]
