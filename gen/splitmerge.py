"""Seeded generator of rectilinear inputs aimed at ClipperBase::ProcessHorzJoins' MERGE branch with PolyTree output
(clipper.engine.cpp: `SetOwner(or2, or1); MoveSplits(or2, or1)`) in the situation where BOTH OutRecs already own split
lists: several storeys of combs (base + prongs, closed by a bar lying on the prong tops), each storey standing on the bar
of the one below, chambers ("n" shapes standing on a bar) with islands inside.  Every storey's holes are split off by
horizontal joins (the OutRec of the storey gets a split list); the next horizontal join then merges two such OutRecs.
The islands and inner chambers are exactly the rings whose parent can only be found through the split lists, so a tree
built after a wrong MoveSplits puts them at the wrong level.

  gen_splitmerge_case(rng) -> (S, C, kind)     all coordinates even (distinct values >= 2 apart), axis-parallel edges
All randomness through the rng argument (vf.Rng)."""
import os
import sys

sys.path.insert(0, os.path.dirname(os.path.abspath(__file__)))
import polys      # noqa: E402
import nesting    # noqa: E402

R = polys.rect


def _chamber(rng, x0, y0, w, h, t=1):
    """an 'n' shape (two legs and a lintel) of outer size w x h standing on y0, optionally with an island inside"""
    ps = [[(x0, y0), (x0 + t, y0), (x0 + t, y0 + h - t), (x0 + w - t, y0 + h - t), (x0 + w - t, y0), (x0 + w, y0),
           (x0 + w, y0 + h), (x0, y0 + h)]]
    if w - 2 * t >= 3 and h - t >= 3 and rng.chance(2, 3):
        ix = rng.range(x0 + t + 1, x0 + w - t - 2)
        iy = rng.range(y0 + 1, y0 + h - t - 2)
        ps.append(R(ix, iy, rng.range(ix + 1, x0 + w - t - 1), rng.range(iy + 1, y0 + h - t - 1)))
    return ps


def _storeys(rng):
    S, C, y, dx = [], [], 0, 0
    ns = rng.range(2, 4)
    for s in range(ns):
        comb, bars, isl, info = nesting._comb_unit(rng, force=dict(left=rng.choice(['flush', 'over', 'partial']),
                                                                  right=rng.choice(['flush', 'over', 'partial'])))
        unit = comb + isl
        if rng.chance(1, 2):                     # a chamber standing on the bar of this storey
            w, h = rng.range(3, 7), rng.range(2, 5)
            cx = rng.range(0, max(0, info['W'] - w))
            unit_top = _chamber(rng, cx, info['top'] - 1, w, h)
        else:
            unit_top = []
        bar_in_c = rng.chance(1, 5)
        S += nesting._shift(unit, dx, y)
        (C if bar_in_c else S).extend(nesting._shift(bars, dx, y))
        if unit_top and s == ns - 1:
            S += nesting._shift(unit_top, dx, y)
        elif unit_top:
            # the chamber stands between the prongs of the next storey only if it fits; otherwise keep it as an extra
            S += nesting._shift(unit_top, dx + info['W'] + rng.range(0, 2), y)
            S.append(R(dx, y + info['top'] - 2, dx + info['W'] + 12, y + info['top'] - 1)) if rng.chance(1, 2) else None
        y += info['top'] - 1
        dx += rng.range(-2, 2)
    return [p for p in S if p], C


def gen_splitmerge_case(rng):
    S, C = _storeys(rng)
    kind = 'splitmerge'
    if rng.chance(1, 2):                         # prongs pointing down: the sweep meets the closing bar first
        S = [[(x, -y) for x, y in p][::-1] for p in S]
        C = [[(x, -y) for x, y in p][::-1] for p in C]
        kind += '-flip'
    if rng.chance(1, 5):
        S, C = nesting._transpose(S), nesting._transpose(C)
        kind += '-T'
    if rng.chance(1, 8):
        S = [p[::-1] if rng.chance(1, 3) else p for p in S]
    k = rng.choice([2, 2, 4, 10])
    S = [[(x * k, y * k) for x, y in p] for p in S]
    C = [[(x * k, y * k) for x, y in p] for p in C]
    return S, C, kind
