"""Seeded generators of closed/open integer paths, general-position filtering, transformations, sample points.
Shared by the boolean-operation checks (C01, C03, C04, C05, C13, C15).  All randomness through vf.Rng.
The python `general_position` below is only a fast PRE-filter; the hypothesis of the theorems is the Coq
predicate base/GenPos.v, evaluated by `bin/oracle_region GENPOS` on every accepted case."""
import math


# ----------------------------------------------------------------------------- exact helpers
def cross(a, b, c):
    return (b[0] - a[0]) * (c[1] - b[1]) - (b[1] - a[1]) * (c[0] - b[0])


def sgn(x):
    return (x > 0) - (x < 0)


def dist2_pt_seg(q, a, b):
    """(num, den) exact squared distance"""
    L = (a[0] - b[0]) ** 2 + (a[1] - b[1]) ** 2
    t = (q[0] - a[0]) * (b[0] - a[0]) + (q[1] - a[1]) * (b[1] - a[1])
    if L == 0 or t <= 0:
        return ((q[0] - a[0]) ** 2 + (q[1] - a[1]) ** 2, 1)
    if t >= L:
        return ((q[0] - b[0]) ** 2 + (q[1] - b[1]) ** 2, 1)
    return (cross(a, b, q) ** 2, L)


def seg_far(tn, td, q, a, b):
    n, d = dist2_pt_seg(q, a, b)
    return tn * tn * d <= n * td * td


def cyc_edges(p):
    return [(p[i], p[(i + 1) % len(p)]) for i in range(len(p))]


def general_position(paths, tol=3):
    es = []
    for pi, p in enumerate(paths):
        if len(p) < 3:
            return False
        n = len(p)
        for i, (a, b) in enumerate(cyc_edges(p)):
            if a == b:
                return False
            es.append((pi, i, n, a, b))
    # bounding boxes for speed
    def bb(e):
        return (min(e[3][0], e[4][0]) - tol, min(e[3][1], e[4][1]) - tol, max(e[3][0], e[4][0]) + tol, max(e[3][1], e[4][1]) + tol)
    bbs = [bb(e) for e in es]
    for e in es:
        v = e[3]
        for f, fb in zip(es, bbs):
            if e[0] == f[0] and (e[1] == f[1] or (f[1] + 1) % f[2] == e[1]):
                continue
            if v[0] < fb[0] or v[0] > fb[2] or v[1] < fb[1] or v[1] > fb[3]:
                continue
            if not seg_far(tol, 1, v, f[3], f[4]):
                return False
    for i in range(len(es)):
        e = es[i]
        for j in range(i + 1, len(es)):
            f = es[j]
            if e[0] == f[0] and ((e[1] + 1) % e[2] == f[1] or (f[1] + 1) % f[2] == e[1]):
                continue
            a, b, c, d = e[3], e[4], f[3], f[4]
            if not (sgn(cross(a, b, c)) * sgn(cross(a, b, d)) < 0 and sgn(cross(c, d, a)) * sgn(cross(c, d, b)) < 0):
                continue
            dx1, dy1, dx2, dy2 = b[0] - a[0], b[1] - a[1], d[0] - c[0], d[1] - c[1]
            det = dx1 * dy2 - dy1 * dx2
            t = (c[0] - a[0]) * dy2 - (c[1] - a[1]) * dx2
            xn, yn = a[0] * det + t * dx1, a[1] * det + t * dy1
            ad = abs(det)
            q = (xn * sgn(det), yn * sgn(det))
            for k, g in enumerate(es):
                if k == i or k == j:
                    continue
                if not seg_far(tol * ad, 1, q, (g[3][0] * ad, g[3][1] * ad), (g[4][0] * ad, g[4][1] * ad)):
                    return False
    return True


def crossings(paths):
    """rounded proper crossing points of all edge pairs (for sample-point placement)"""
    es = [e for p in paths for e in cyc_edges(p)]
    out = []
    for i in range(len(es)):
        a, b = es[i]
        for j in range(i + 1, len(es)):
            c, d = es[j]
            if sgn(cross(a, b, c)) * sgn(cross(a, b, d)) < 0 and sgn(cross(c, d, a)) * sgn(cross(c, d, b)) < 0:
                dx1, dy1, dx2, dy2 = b[0] - a[0], b[1] - a[1], d[0] - c[0], d[1] - c[1]
                det = dx1 * dy2 - dy1 * dx2
                t = (c[0] - a[0]) * dy2 - (c[1] - a[1]) * dx2
                out.append(((a[0] * det + t * dx1) // det, (a[1] * det + t * dy1) // det))
    return out


# ----------------------------------------------------------------------------- shapes
def rand_pt(rng, box):
    return (rng.range(-box, box), rng.range(-box, box))


def rand_polygon(rng, n, box):
    """arbitrary (usually self-intersecting) polygon"""
    return [rand_pt(rng, box) for _ in range(n)]


def star_polygon(rng, n, cx, cy, rmin, rmax):
    """simple star-shaped polygon, counter-clockwise in y-up coordinates"""
    angs = sorted(rng.range(0, 3599) for _ in range(n))
    pts = []
    for a in angs:
        r = rng.range(rmin, rmax)
        pts.append((cx + int(round(r * math.cos(a * math.pi / 1800))), cy + int(round(r * math.sin(a * math.pi / 1800)))))
    # drop duplicates
    out = []
    for p in pts:
        if not out or out[-1] != p:
            out.append(p)
    if len(out) > 1 and out[0] == out[-1]:
        out.pop()
    return out


def spiral(rng, turns, steps_per_turn, cx, cy, r0, dr):
    """multiply wound closed path: winds `turns` times around (cx,cy) then returns"""
    pts = []
    n = turns * steps_per_turn
    for i in range(n):
        a = 2 * math.pi * i / steps_per_turn + 0.13
        r = r0 + dr * i / steps_per_turn + rng.range(-2, 2)
        pts.append((cx + int(round(r * math.cos(a))), cy + int(round(r * math.sin(a)))))
    return pts


def rect(x0, y0, x1, y1):
    return [(x0, y0), (x1, y0), (x1, y1), (x0, y1)]


def thin_triangle(rng, box):
    a = rand_pt(rng, box)
    b = (a[0] + rng.range(box // 2, box), a[1] + rng.range(-box // 8, box // 8))
    c = (b[0] + rng.range(-6, 6), b[1] + rng.range(4, 9))
    return [a, b, c]


def horz_rich(rng, box, n):
    """polygon with many horizontal edges (staircase up and back)"""
    x, y = rng.range(-box, 0), rng.range(-box, 0)
    pts = [(x, y)]
    for _ in range(n):
        x += rng.range(5, box // 3 + 5)
        pts.append((x, y))
        y += rng.range(4, box // 3 + 4)
        pts.append((x, y))
    x0 = pts[0][0] - rng.range(4, 12)
    pts.append((x0, y))
    return pts


def rand_path_set(rng, box, kind=None):
    kind = kind if kind is not None else rng.below(8)
    ps = []
    if kind == 0:      # one or two arbitrary polygons
        for _ in range(rng.range(1, 2)):
            ps.append(rand_polygon(rng, rng.range(3, 7), box))
    elif kind == 1:    # star polygons
        for _ in range(rng.range(1, 3)):
            ps.append(star_polygon(rng, rng.range(3, 9), rng.range(-box // 2, box // 2), rng.range(-box // 2, box // 2), box // 6, box // 2))
    elif kind == 2:    # nested rings with holes of both orientations
        cx, cy = rng.range(-box // 4, box // 4), rng.range(-box // 4, box // 4)
        r = box // 2
        for k in range(rng.range(2, 4)):
            p = star_polygon(rng, rng.range(4, 7), cx, cy, max(6, r * 3 // 4), r)
            if rng.chance(1, 2):
                p.reverse()
            ps.append(p)
            r = r * 3 // 5
            if r < 10:
                break
    elif kind == 3:    # spiral
        ps.append(spiral(rng, rng.range(2, 3), rng.range(5, 7), rng.range(-10, 10), rng.range(-10, 10), box // 6, box // 6))
    elif kind == 4:    # thin triangles
        for _ in range(rng.range(1, 3)):
            ps.append(thin_triangle(rng, box))
    elif kind == 5:    # horizontal-rich
        ps.append(horz_rich(rng, box, rng.range(2, 4)))
        if rng.chance(1, 2):
            ps.append(star_polygon(rng, rng.range(3, 6), 0, 0, box // 5, box // 2))
    elif kind == 6:    # rectangles + polygon
        for _ in range(rng.range(1, 2)):
            x0, y0 = rng.range(-box, box - 20), rng.range(-box, box - 20)
            ps.append(rect(x0, y0, x0 + rng.range(10, box), y0 + rng.range(10, box)))
        ps.append(rand_polygon(rng, rng.range(3, 5), box))
    else:              # mixed orientation set
        for _ in range(rng.range(2, 3)):
            p = star_polygon(rng, rng.range(3, 6), rng.range(-box // 2, box // 2), rng.range(-box // 2, box // 2), box // 8, box // 3)
            if rng.chance(1, 2):
                p.reverse()
            ps.append(p)
    return [p for p in ps if len(p) >= 3]


def gen_genpos_case(rng, box=120, tries=200):
    """(S, C, kinds) in general position (python pre-filter)"""
    for _ in range(tries):
        ks, kc = rng.below(8), rng.below(8)
        S = rand_path_set(rng, box, ks)
        C = rand_path_set(rng, box, kc) if not rng.chance(1, 10) else []
        if S and general_position(S + C):
            return S, C, (ks, kc)
    # fall back to something certainly fine
    return [rect(-40, -40, 30, 35)], [[(-10, -60), (55, 12), (-7, 50)]], (-1, -1)


# ----------------------------------------------------------------------------- transformations
def tf_paths(ps, f):
    return [[f(v) for v in p] for p in ps]


def scale_translate(ps, k, dx, dy):
    return tf_paths(ps, lambda v: (v[0] * k + dx, v[1] * k + dy))


REGIMES = [('small', 1, 0), ('1e3', 8, 1000), ('1e6', 7919, 10 ** 6), ('2^30', 2 ** 23, 2 ** 29),
           ('2^40', 2 ** 33, 2 ** 39), ('2^52', 2 ** 44, 2 ** 51), ('2^61', 2 ** 53, 2 ** 60)]


def apply_regime(rng, S, C, regime, box=120):
    """exact integer scaling + translation (preserves general position); coordinates end up near +-magnitude"""
    name, k, off = regime
    dx = rng.choice([-1, 0, 1]) * off
    dy = rng.choice([-1, 0, 1]) * off
    return scale_translate(S, k, dx, dy), scale_translate(C, k, dx, dy), (k, dx, dy)


def gen_flat_case(rng):
    """a subject triangle with two nearly horizontal edges (|dx/dy| of a few hundred), a clip triangle whose steep edge
    crosses them, and a small third triangle; centred on the origin so that negative coordinates occur (truncation
    toward zero differs there).  Exercises the nearly-horizontal branches of AddNewIntersectNode / TopX that steep
    random polygons never reach.  Returns (S, C, kinds); general position is decided by the caller's GENPOS filter."""
    L = rng.range(300, 3000)
    oy = rng.range(-60, 60)
    A = [(L, oy), (-L, oy - rng.range(6, 30)), (-L + rng.range(5, 40), oy + rng.range(5, 40))]
    B = [(rng.range(20, 100), oy + rng.range(3, 9)), (rng.range(-1500, -200), oy - rng.range(40, 90)), (rng.range(200, 500), oy - rng.range(40, 80))]
    D = [(rng.range(30, 60), oy - rng.range(8, 12)), (rng.range(30, 40), oy - rng.range(28, 34)), (rng.range(12, 24), oy - rng.range(30, 36))]
    sx = rng.choice([1, -1]); sy = rng.choice([1, -1])
    f = lambda p: [(sx * x, sy * y) for (x, y) in p]
    A, B, D = f(A), f(B), f(D)
    if rng.chance(1, 2):
        return [A, D], [B], ('flat', 'flat')
    return [A], [B, D], ('flat', 'flat')


def gen_flat_precise_case(rng):
    """like gen_flat_case, but the crossings of steep edges with the nearly horizontal edge are placed a tiny fraction
    (1/M, M = 500..3000) of a unit above or below integer scanlines on which other vertices lie: the situation in which
    the rounded curr_x values hide the swap until the next scanbeam and AddNewIntersectNode has to repair a computed
    intersection point that falls outside the scanbeam.  Up to four steep slivers cross the flat edge."""
    h = rng.choice([8, 10, 12, 14])
    M = rng.range(250, 1500) * 2
    L = M * h // 2                                   # flat edge (L, oy) -> (-L, oy - h): y(x) = oy - (L - x) / M
    oy = rng.range(-40, 40)
    A = [(L, oy), (-L, oy - h), (-L + rng.range(5, 40), oy + rng.range(12, 40))]
    js = list(range(4, h - 1))                       # away from the tip (L, oy), where A's two flat edges are < 3 units apart
    rng.shuffle(js)
    Bs, Ds = [], []
    for n, j in enumerate(js[:rng.range(2, 4)]):
        Y = oy - j                                   # the scanline
        x0 = L - M * j + rng.choice([1, -1])         # flat_y(x0) = Y +- 1/M
        up, dn = rng.range(25, 60), rng.range(25, 60)
        w = rng.range(60, 120) * rng.choice([1, -1])
        Bs.append([(x0 + rng.choice([0, 1]), Y + up), (x0 - rng.choice([0, 1]), Y - dn), (x0 + w, Y - dn - rng.range(2, 6))])
        far = L + 60 + 40 * n
        Ds.append([(far, Y), (far + rng.range(4, 9), Y + rng.range(7, 15)), (far + rng.range(10, 16), Y - rng.range(6, 13))])
    sx = rng.choice([1, -1]); sy = rng.choice([1, -1])
    f = lambda p: [(sx * x, sy * y) for (x, y) in p]
    A, Bs, Ds = f(A), [f(b) for b in Bs], [f(d) for d in Ds]
    if rng.chance(1, 2):
        return [A] + Ds, Bs, ('flatp', 'flatp')
    return [A], Bs + Ds, ('flatp', 'flatp')


def add_scanline_probes(rng, S, C, k=1, nmax=3):
    """Aim at the sweep's handling of a scanline that falls right next to an edge crossing: for up to `nmax` proper
    crossings of input edges add a small triangle far outside the bounding box (so general position is kept and
    nothing else changes) with one vertex whose y is within a few units (small coordinates) or a few binary64 ulps
    (huge coordinates) of the crossing's y.  That vertex ends a scanbeam just before/after the crossing, which is
    where AddNewIntersectNode's out-of-scanbeam corrections and the rounding of TopX decide the solution vertex.
    Returns new (S, C); coordinates are kept within +-(2^61 - 1)."""
    xs = crossings(S + C)
    if not xs:
        return S, C
    x0, y0, x1, y1 = bbox([S, C])
    lim = 2 ** 61 - 1
    cm = maxabs([S, C])
    ulp = max(1, cm >> 52)                       # spacing of doubles at this magnitude
    S, C = [list(p) for p in S], [list(p) for p in C]
    w, gap = 4 * k, 8 * k
    side = 1 if x1 + gap + nmax * 4 * w < lim else -1
    if side == -1 and x0 - gap - nmax * 4 * w < -lim:
        return S, C
    rng.shuffle(xs)
    xs = (xs * nmax)[:nmax]                      # several probes per crossing when there are few crossings
    for i, (cx, cy) in enumerate(xs):
        d = rng.range(-ulp // 4 - 3, ulp // 4 + 3) if rng.chance(2, 3) else rng.range(-ulp - 3, ulp + 3)
        X = (x1 + gap + i * 4 * w) if side == 1 else (x0 - gap - (i + 1) * 4 * w)
        h1, h2 = rng.range(2, 6) * k, rng.range(2, 6) * k
        ye = cy + d
        if not (-lim < ye - h2 and ye + h1 < lim):
            continue
        tri = [(X, ye), (X + w, ye + h1), (X + 2 * w, ye - h2)]
        if rng.chance(1, 2):
            tri.reverse()
        (S if rng.chance(1, 2) else C).append(tri)
    return S, C


def maxabs(pss):
    m = 0
    for ps in pss:
        for p in ps:
            for v in p:
                m = max(m, abs(v[0]), abs(v[1]))
    return m


def bbox(pss):
    xs = [v[0] for ps in pss for p in ps for v in p]
    ys = [v[1] for ps in pss for p in ps for v in p]
    return min(xs), min(ys), max(xs), max(ys)


# ----------------------------------------------------------------------------- sample points
def sample_points_doubled(rng, S, C, G, k=1, extra=()):
    """Sample points in DOUBLED coordinates (odd values = half-integers): a GxG grid of half-integer points over
    the bounding box (slightly enlarged), the 8 neighbours at distance 3..6 (times k) of every input vertex and
    every rounded crossing, and a few points outside the box."""
    x0, y0, x1, y1 = bbox([S, C])
    w, h = max(1, x1 - x0), max(1, y1 - y0)
    mx, my = w // 10 + 4 * k, h // 10 + 4 * k
    pts = set()
    for i in range(G):
        for j in range(G):
            x = x0 - mx + (w + 2 * mx) * i // (G - 1)
            y = y0 - my + (h + 2 * my) * j // (G - 1)
            pts.add((2 * x + 1, 2 * y + 1))
    for v in [v for p in S + C for v in p] + crossings(S + C) + list(extra):
        for dx, dy in ((1, 0), (-1, 0), (0, 1), (0, -1), (1, 1), (1, -1), (-1, 1), (-1, -1)):
            d = rng.range(3, 6) * k
            pts.add((2 * (v[0] + dx * d) + 1, 2 * (v[1] + dy * d) + 1))
    for _ in range(8):
        pts.add((2 * (x0 - mx - rng.range(1, 50) * k) + 1, 2 * rng.range(y0, y1) + 1))
        pts.add((2 * rng.range(x0, x1) + 1, 2 * (y1 + my + rng.range(1, 50) * k) + 1))
    return sorted(pts)


def double_paths(ps):
    return tf_paths(ps, lambda v: (2 * v[0], 2 * v[1]))
