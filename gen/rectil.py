"""Enumerators and seeded generators of closed rectilinear lattice paths for C02.
Everything is in small lattice coordinates; scaling/translation is applied by the harness (RECTILT).
All randomness through vf.Rng."""

ALL_OPTS = 0xFFFFFFFF


# ----------------------------------------------------------------------------- rectangles
def rects(n):
    """all axis-parallel rectangles with corners on the (n+1)x(n+1) lattice points of an n x n-cell lattice, as
    (x0, y0, x1, y1); C(n+1,2)^2 of them (100 for n = 4, 36 for n = 3)"""
    out = []
    for x0 in range(n + 1):
        for x1 in range(x0 + 1, n + 1):
            for y0 in range(n + 1):
                for y1 in range(y0 + 1, n + 1):
                    out.append((x0, y0, x1, y1))
    return out


def rect_path(r, cw=False):
    x0, y0, x1, y1 = r
    p = [(x0, y0), (x1, y0), (x1, y1), (x0, y1)]       # counter-clockwise in y-up coordinates = positive Clipper area
    return p[::-1] if cw else p


def oriented_rects(n):
    """both orientations of every rectangle"""
    return [rect_path(r, cw) for r in rects(n) for cw in (False, True)]


# ----------------------------------------------------------------------------- closed lattice walks
def closed_walks(n, maxsteps, canonical=True):
    """all closed walks of 2..maxsteps unit steps on the (n+1)x(n+1) lattice points (every visited lattice point is a
    vertex, so straight runs contain collinear vertices, reversals are zero-width spikes, repeated sections overlap).
    canonical=True keeps one representative per cyclic rotation class (the start vertex of a closed path is immaterial
    to the region; direction is kept: a walk and its reverse are different inputs)."""
    res = []
    seen = set()
    N = n + 1
    steps = ((1, 0), (0, 1), (-1, 0), (0, -1))

    def canon(p):
        m = len(p)
        return min(tuple(p[i:] + p[:i]) for i in range(m))

    def rec(path, remaining):
        x, y = path[-1]
        sx, sy = path[0]
        d = abs(x - sx) + abs(y - sy)
        if d > remaining:
            return
        if len(path) > 1 and d == 1 and remaining >= 1:
            # closing step back to the start completes a closed walk with len(path) vertices
            p = list(path)
            if canonical:
                c = canon(p)
                if c not in seen:
                    seen.add(c)
                    res.append(list(c))
            else:
                res.append(p)
        if remaining <= 1:
            return
        for dx, dy in steps:
            nx, ny = x + dx, y + dy
            if 0 <= nx < N and 0 <= ny < N:
                path.append((nx, ny))
                rec(path, remaining - 1)
                path.pop()

    for sx in range(N):
        for sy in range(N):
            rec([(sx, sy)], maxsteps)
    return res


def merge_collinear(p):
    """drop vertices in the middle of a straight run (keeps reversal points = spikes); closed path"""
    m = len(p)
    if m < 3:
        return list(p)
    out = []
    for i in range(m):
        a, b, c = p[i - 1], p[i], p[(i + 1) % m]
        d1 = (b[0] - a[0], b[1] - a[1])
        d2 = (c[0] - b[0], c[1] - b[1])
        if d1 == d2:
            continue
        out.append(b)
    return out


def walk_class(p):
    """coarse shape class of a closed walk, for evidence histograms and finding keys"""
    m = len(p)
    edges = {}
    spikes = 0
    for i in range(m):
        a, b, c = p[i - 1], p[i], p[(i + 1) % m]
        if a == c:
            spikes += 1
        e = (min(a, b), max(a, b))
        edges[e] = edges.get(e, 0) + 1
    rep_v = len(set(p)) < m
    overlap = any(v > 1 for v in edges.values())
    if spikes:
        return 'spike'
    if overlap:
        return 'overlap'
    if rep_v:
        return 'touch'
    return 'simple'


# ----------------------------------------------------------------------------- random degenerate walks
def random_walk(rng, n, maxlen=14):
    """a random closed rectilinear walk on the (n+1)x(n+1) lattice with variable step lengths, deliberate reversals
    (zero-width sections), retraced sections (overlap), duplicate vertices and repeated loops"""
    N = n + 1
    x, y = rng.below(N), rng.below(N)
    p = [(x, y)]
    horiz = rng.chance(1, 2)
    m = rng.range(3, maxlen)
    while len(p) < m:
        r = rng.below(100)
        if r < 8 and len(p) >= 2:
            # retrace the last k vertices backwards (zero-width section)
            k = rng.range(1, min(3, len(p) - 1))
            for j in range(k):
                p.append(p[-2 - 2 * j])
            x, y = p[-1]
            continue
        if r < 11:
            p.append((x, y))            # duplicate vertex
            continue
        if r < 16 and len(p) >= 4:
            # go to an earlier vertex along an L (creates touching / overlapping sections)
            tx, ty = p[rng.below(len(p))]
            if tx != x:
                p.append((tx, y))
            if ty != y:
                p.append((tx, ty))
            x, y = tx, ty
            continue
        if horiz:
            nx = rng.below(N)
            if nx != x or rng.chance(1, 10):
                x = nx
                p.append((x, y))
        else:
            ny = rng.below(N)
            if ny != y or rng.chance(1, 10):
                y = ny
                p.append((x, y))
        horiz = not horiz if not rng.chance(1, 6) else horiz     # sometimes continue straight (collinear vertex / reversal)
    # close with an L back to the start
    sx, sy = p[0]
    if rng.chance(1, 2):
        if x != sx:
            p.append((sx, y))
        # the closing edge (sx,y)->(sx,sy) is implicit
    else:
        if y != sy:
            p.append((x, sy))
    if p[-1] == p[0] and len(p) > 1 and not rng.chance(1, 8):
        p.pop()
    if rng.chance(1, 12):
        p = p + p                      # the same loop twice (winding +-2)
    if rng.chance(1, 2):
        p = p[::-1]
    return p


def is_rectilinear(p):
    m = len(p)
    return all(p[i][0] == p[(i + 1) % m][0] or p[i][1] == p[(i + 1) % m][1] for i in range(m))


def random_case(rng, n):
    """(S, C): 1-3 subject paths, 0-2 clip paths; a mix of random degenerate walks and rectangles sharing the lattice"""
    rs = rects(n)

    def one():
        if rng.chance(1, 3):
            return rect_path(rng.choice(rs), rng.chance(1, 3))
        while True:
            p = random_walk(rng, n)
            if is_rectilinear(p):
                return p
    S = [one() for _ in range(rng.choice([1, 1, 2, 2, 3]))]
    C = [one() for _ in range(rng.choice([0, 1, 1, 1, 2]))]
    return S, C


# ----------------------------------------------------------------------------- scales
SCALES = [('1', 1), ('7', 7), ('2^31', 1 << 31), ('2^58', 1 << 58)]


def transform_for(rng, n, k):
    """(k, ox, oy, tx, ty): v -> k*(v + (ox,oy)) + (tx,ty).  The lattice offset keeps |coordinate| <= 2^61 at k = 2^58
    (lattice coordinates 0..n, n <= 8, are centred); the extra translation t is a multiple of k (lattice translation)
    at the big scales so that every coordinate stays a lattice point of the scaled lattice, and arbitrary at k <= 7."""
    if k >= (1 << 58):
        ox, oy = -(n // 2) - rng.below(2) * 0, -(n // 2)
        return (k, ox, oy, 0, 0)
    if k >= (1 << 31):
        ox, oy = rng.range(-1000, 1000), rng.range(-1000, 1000)
        return (k, ox, oy, 0, 0)
    ox, oy = rng.range(-50, 50), rng.range(-50, 50)
    tx, ty = rng.range(-1000, 1000), rng.range(-1000, 1000)
    return (k, ox, oy, tx, ty)


def apply_transform(tf, ps):
    k, ox, oy, tx, ty = tf
    return [[(k * (x + ox) + tx, k * (y + oy) + ty) for (x, y) in p] for p in ps]
