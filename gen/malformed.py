"""C10 -- the malformed input stream and the case lines for harness/cx_fuzzapi.cpp.

Every case is a dict(line=<command line for cx_fuzzapi>, op=<command word>, regime=<name>, le29=<bool>, fam=<shape family>):
  le29  all coordinates AND |delta| are <= 2^29 (the "free of signed overflow" clause applies),
  regime name of the coordinate magnitude bound used for the case.
Magnitude bounds follow the property: boolean clipping |coords| <= 2^62, everything else <= 2^40.
Invalid enum values are generated ONLY for the uint8 parameters of the C export functions.
All randomness through vf.Rng."""
import math
import polys

P29, P40, P62 = 2 ** 29, 2 ** 40, 2 ** 62

# (name, M) coordinate regimes
REG_SMALL = [('tiny', 8), ('small', 200), ('1e3', 1000), ('1e6', 10 ** 6), ('2^29', P29)]
REG_MID = [('2^30', 2 ** 30), ('2^32', 2 ** 32), ('2^40', P40)]
REG_BIG = [('2^52', 2 ** 52), ('2^61', 2 ** 61), ('2^62', P62)]
REG_BOOL = REG_SMALL + REG_MID + REG_BIG
REG_OTHER = REG_SMALL + REG_MID


# ----------------------------------------------------------------------------- malformed shapes (small lattice)
def _pt(rng, b=4):
    return (rng.range(-b, b), rng.range(-b, b))


def _sq(x, y, s):
    return [(x, y), (x + s, y), (x + s, y + s), (x, y + s)]


def shape(rng, kind=None):
    """returns (paths, family-name); small integer coordinates (|c| <= ~130)"""
    k = kind if kind is not None else rng.below(26)
    if k == 0:
        return [], 'empty-list'
    if k == 1:
        return [[] for _ in range(rng.range(1, 3))], 'empty-paths'
    if k == 2:
        return [[_pt(rng)] for _ in range(rng.range(1, 3))], 'one-point'
    if k == 3:
        ps = []
        for _ in range(rng.range(1, 3)):
            a = _pt(rng)
            b = a if rng.chance(1, 4) else _pt(rng)
            ps.append([a, b])
        return ps, 'two-point'
    if k == 4:
        a = _pt(rng)
        return [[a] * rng.range(2, 9)], 'all-duplicates'
    if k in (5, 6, 7):
        n = rng.range(3, 9)
        ts = [rng.range(-6, 6) for _ in range(n)]
        y = rng.range(-3, 3)
        if k == 5:
            return [[(t, y) for t in ts]], 'collinear-horizontal'
        if k == 6:
            return [[(y, t) for t in ts]], 'collinear-vertical'
        return [[(t, t + y) for t in ts]], 'collinear-diagonal'
    if k == 8:
        s = rng.range(2, 6)
        sp = (rng.range(-8, 8), rng.range(-8, 8))
        p = [(0, 0), (s, 0), sp, (s, 0), (s, s), (0, s)]
        if rng.chance(1, 2):
            p = p[:2] + [sp, (s, 0), sp] + p[3:]
        return [p], 'spike'
    if k == 9:
        p = polys.star_polygon(rng, rng.range(3, 6), 0, 0, 3, 8) if rng.chance(1, 2) else _sq(0, 0, rng.range(1, 5))
        q = list(reversed(p)) if rng.chance(1, 2) else list(p)
        r = q[rng.below(len(q)):] + q[:0]
        ps = [p, q]
        if rng.chance(1, 3):
            ps.append(list(p))
        return ps, 'coincident'
    if k == 10:
        s = rng.range(2, 6)
        d = rng.range(1, s)
        ps = [_sq(0, 0, s), _sq(d, 0, s)] if rng.chance(1, 2) else [_sq(0, 0, s), _sq(s, rng.range(-s + 1, s - 1), s)]
        if rng.chance(1, 3):
            ps.append(_sq(0, s, s))
        return ps, 'overlapping-edges'
    if k == 11:
        a, b, c = _pt(rng), _pt(rng), _pt(rng)
        return [rng.choice([[a, b, a, b], [a, b, c, b, a], [a, b, c, b], [a, b, a]])], 'zero-area'
    if k == 12:
        c = _pt(rng, 1)
        p = []
        for _ in range(rng.range(2, 6)):
            p += [c, _pt(rng, 6)]
            if rng.chance(1, 3):
                p.append(_pt(rng, 6))
        return [p], 'revisits-point'
    if k == 13:
        y = rng.range(-2, 2)
        ps = [[(rng.range(-8, 8), y) for _ in range(rng.range(2, 6))]]
        if rng.chance(1, 2):
            ps.append([(-5, y), (5, y), (0, y + rng.range(1, 4))])
        if rng.chance(1, 3):
            ps.append([(-6, y), (6, y), (6, y - 3), (-6, y - 3)])
        return ps, 'horizontal-only'
    if k == 14:
        p = _sq(rng.range(-3, 0), rng.range(-3, 0), rng.range(1, 5))
        q = []
        for v in p:
            q += [v] * rng.range(1, 3)
        q.append(q[0])
        return [q], 'closing-duplicate'
    if k == 15:
        a = _pt(rng, 2)
        return [[a, (a[0] + 1, a[1]), (a[0], a[1] + 1)], [a, (a[0] + 1, a[1] + 1), (a[0] + 1, a[1])]][:rng.range(1, 2)], 'tiny-triangle'
    if k == 16:
        return [[(rng.range(0, 3), rng.range(0, 3)) for _ in range(rng.range(3, 12))] for _ in range(rng.range(1, 3))], 'lattice-random'
    if k == 17:
        a, fa = shape(rng, rng.below(17))
        b, fb = shape(rng, rng.below(17))
        return a + b, 'mixed'
    if k == 18:
        return polys.rand_path_set(rng, 120), 'wellformed'
    if k == 19:
        s = rng.range(2, 5)
        return [rng.choice([[(0, 0), (s, s), (s, 0), (0, s)], [(0, 0), (s, 0), (0, s), (0, 0), (-s, 0), (0, -s)],
                            [(-s, -s), (0, 0), (s, -s), (s, s), (0, 0), (-s, s)]])], 'bowtie'
    if k == 20:
        return [polys.horz_rich(rng, 60, rng.range(2, 5))], 'staircase'
    if k == 21:
        s = rng.range(1, 3)
        return [_sq(0, 0, s) for _ in range(rng.range(2, 6))], 'stacked-squares'
    if k == 22:
        return [polys.thin_triangle(rng, 120) for _ in range(rng.range(1, 3))], 'thin-triangles'
    if k == 23:
        # comb: many spikes on a base line (collinear overlaps + reversals)
        p = []
        for i in range(rng.range(2, 6)):
            p += [(2 * i, 0), (2 * i, rng.range(1, 5)), (2 * i, 0)]
        p += [(12, 0), (12, -2), (0, -2)]
        return [p], 'comb'
    if k == 24:
        # touching squares: shared vertex / shared edge grid
        ps = []
        for i in range(rng.range(2, 4)):
            for j in range(rng.range(1, 3)):
                if rng.chance(3, 4):
                    ps.append(_sq(2 * i, 2 * j, 2))
        return ps, 'touching-grid'
    n = rng.range(3, 10)
    return [polys.rand_polygon(rng, n, 20) for _ in range(rng.range(1, 3))], 'random-polygon'


def maxabs(ps):
    m = 0
    for p in ps:
        for v in p:
            m = max(m, abs(v[0]), abs(v[1]))
    return m


def place(rng, ps, M):
    """map small-lattice paths into magnitude M (exactly bounded by M)"""
    m = max(1, maxabs(ps))
    if M <= m:
        # clamp into the box
        return [[(max(-M, min(M, x)), max(-M, min(M, y))) for x, y in p] for p in ps]
    mode = rng.below(6)
    if mode == 0 or M < 4 * m:            # as is (or barely fits)
        return [list(p) for p in ps]
    if mode == 1:                          # exact scaling up to the bound
        k = M // m
        return [[(x * k, y * k) for x, y in p] for p in ps]
    if mode == 2:                          # small shape pushed into a corner of the box
        k = rng.choice([1, 1, 2, 3, 7])
        k = min(k, max(1, M // (4 * m)))
        sx, sy = rng.choice([-1, 1]), rng.choice([-1, 0, 1])
        dx, dy = sx * (M - m * k), sy * (M - m * k)
        return [[(x * k + dx, y * k + dy) for x, y in p] for p in ps]
    if mode == 3:                          # each path placed separately (differences up to 2M)
        out = []
        for p in ps:
            mp = max(1, maxabs([p]))
            k = rng.choice([1, max(1, M // (2 * mp)), max(1, M // mp)])
            sx, sy = rng.choice([-1, 0, 1]), rng.choice([-1, 0, 1])
            dx, dy = sx * (M - mp * k), sy * (M - mp * k)
            out.append([(x * k + dx, y * k + dy) for x, y in p])
        return out
    if mode == 4:                          # scaling by a non-round factor
        k = max(1, (M // m) * rng.range(1, 997) // 997)
        return [[(x * k, y * k) for x, y in p] for p in ps]
    # mode 5: some coordinates replaced by exact extremes
    k = max(1, M // (2 * m))
    out = []
    for p in ps:
        q = []
        for x, y in p:
            x, y = x * k, y * k
            if rng.chance(1, 4):
                x = rng.choice([-M, M, M - 1, -M + 1, 0])
            if rng.chance(1, 4):
                y = rng.choice([-M, M, M - 1, -M + 1, 0])
            q.append((x, y))
        out.append(q)
    return out


def fmt_paths(ps):
    out = [str(len(ps))]
    for p in ps:
        out.append(str(len(p)))
        for x, y in p:
            out.append('%d %d' % (x, y))
    return ' '.join(out)


def fmt_path(p):
    return ' '.join([str(len(p))] + ['%d %d' % v for v in p])


def fnum(x):
    if isinstance(x, float):
        if x != x:
            return 'nan'
        if x in (float('inf'), float('-inf')):
            return 'inf' if x > 0 else '-inf'
        return repr(x)
    return str(x)


def fmt_pathsd(ps, div=1):
    out = [str(len(ps))]
    for p in ps:
        out.append(str(len(p)))
        for x, y in p:
            out.append('%s %s' % (fnum(x / div if div != 1 else float(x)), fnum(y / div if div != 1 else float(y))))
    return ' '.join(out)


def fmt_pathd(p, div=1):
    return fmt_pathsd([p], div)[2:]


def pick_regime(rng, regs, idx):
    return regs[idx % len(regs)] if not rng.chance(1, 5) else rng.choice(regs)


def mal(rng, M):
    ps, fam = shape(rng)
    return place(rng, ps, M), fam


# ----------------------------------------------------------------------------- parameter grids
NAN, INF = float('nan'), float('inf')


def deltas(rng, M, size):
    """delta values; `size` ~ extent of the shape.  Huge deltas only make sense with the default arc tolerance."""
    base = [0.0, 0.49, -0.49, 0.5, -0.5, 0.51, 1.0, -1.0, 1e-13, -1e-13, 2.5, -2.5, 10.0, -10.0,
            size / 4.0, -size / 4.0, float(size), -float(size), 3.0 * size, -3.0 * size]
    return rng.choice(base)


MITERS = [2.0, 2.0, 2.0, 0.0, -1.0, 1.0, 1.0000001, 1e300, 1e-300, NAN, INF]
ARCTOLS = [0.0, 0.0, 0.0, -1.0, 0.25, 1e-13, 1e300, NAN]
PRECS = [2, 2, 0, -2, 4, 8, -8, 1]
BADPRECS = [9, -9, 100, -2147483648, 2147483647]
EPSS = [0.0, -1.0, 1e-9, 0.5, 1.0, 2.0, 10.0, 1e6, 1e300, NAN, INF]


def arc_ok(delta, at):
    """time bound of the offsetter: steps per circle ~ min(pi/acos(1 - at/|delta|), pi*|delta|).  With an explicit
    arc tolerance `at` in (1e-12, |delta|*1e-6) the step count is ~pi*|delta| PER VERTEX: excluded from the stream
    (it is a documented quality/performance knob, not a crash), everything else stays below ~2500 steps per circle."""
    if not (at == at) or at <= 1e-12:
        return True
    d = abs(delta)
    if not (d == d) or d == INF:
        return True
    return d <= 1000 or at >= d * 1e-6


# ----------------------------------------------------------------------------- case builders
def case(line, regime, le29, fam):
    return dict(line=line, op=line.split(' ', 1)[0], regime=regime, le29=le29, fam=fam)


def gen_bool(rng, n, regs=REG_BOOL):
    out = []
    for i in range(n):
        name, M = pick_regime(rng, regs, i)
        S, fs = mal(rng, M)
        C, fc = mal(rng, M) if not rng.chance(1, 6) else ([], 'none')
        O, fo = (mal(rng, M) if rng.chance(1, 3) else ([], 'none'))
        if rng.chance(1, 8):
            C = [list(p) for p in S]            # clip coincides with subject
        if rng.chance(1, 10):
            O = [list(p) for p in S]            # open subject lying on closed subject edges
        ct, fr = rng.range(0, 4), rng.range(0, 3)
        if rng.chance(7, 8):
            ct = rng.range(1, 4)
        pc, rs, mode, reuse = rng.below(2), rng.below(2), rng.below(8), (rng.below(4) if rng.chance(1, 3) else 0)
        le = maxabs(S + C + O) <= P29
        fam = '%s/%s/%s' % (fs, fc, fo)
        sel = rng.below(10)
        if sel < 5:
            out.append(case('B64 %d %d %d %d %d %d %s %s %s' % (ct, fr, pc, rs, mode, reuse, fmt_paths(S), fmt_paths(O), fmt_paths(C)), name, le, fam))
        elif sel < 7:
            fn = rng.below(7)
            out.append(case('F64 %d %d %d %s %s' % (fn, ct, fr, fmt_paths(S), fmt_paths(C)), name, le, fam))
        elif sel < 9:
            nm = rng.choice([0, 0, 0, 1, 2, 4, 7, 3])
            # the C boundary takes uint8 clip type / fill rule: invalid values are rejected by the API (-4/-3)
            ct8 = ct if rng.chance(5, 6) else rng.choice([5, 6, 17, 255])
            fr8 = fr if rng.chance(5, 6) else rng.choice([4, 5, 99, 255])
            out.append(case('%s %d %d %d %d %d %d %s %s %s' % (rng.choice(['XB64', 'XBT64']), ct8, fr8, pc, rs, nm, rng.below(2),
                                                              fmt_paths(S), fmt_paths(O), fmt_paths(C)), name, le, fam))
        else:
            out.append(case('MEAS %d %d %d %s' % (rng.below(2), rng.range(-M, M), rng.range(-M, M), fmt_paths(S + C)), name, le, fam)) \
                if M <= P40 else out.append(case('B64 %d %d %d %d %d 0 %s %s %s' % (ct, fr, pc, rs, mode, fmt_paths(S), fmt_paths(O), fmt_paths(C)), name, le, fam))
    return out


def gen_bool_seq(rng, n, regs=REG_BOOL):
    """BSEQ: a few path sets added REPEATEDLY, item by item in a random interleaved order, as closed subject, open subject
    and clip (directly or through ReuseableDataContainer64 objects): coincident closed paths, open paths lying on closed
    ones, the same polygon as subject and clip.  Biased towards Xor/EvenOdd and the PolyTree overloads (owner/split
    bookkeeping), where coincident edges produce split and re-joined output rings.
    `twice`: one container is added to the same clipper a second time (kind 8)."""
    out = []
    for i in range(n):
        name, M = pick_regime(rng, regs, i)
        nsets = rng.range(1, 3)
        sets = []
        for _ in range(nsets):
            k = rng.below(8)
            if k == 0:      # abutting rectangles with a collinear point and a closing duplicate, a short open path, a single point
                s0 = rng.range(2, 6) * 10
                ps = [[(0, 0), (s0 // 2, 0), (s0, 0), (s0, s0), (0, s0), (0, 0)], [(s0, 0), (2 * s0, 0), (2 * s0, s0), (s0, s0)],
                      [(s0 // 2, s0), (3 * s0 // 2, s0), (3 * s0 // 2, 5 * s0 // 3), (s0 // 2, 5 * s0 // 3)]]
                if rng.chance(1, 2):
                    ps.append([(s0 // 6, s0 // 6), (5 * s0 // 6, s0 // 6)])
                if rng.chance(1, 2):
                    ps.append([(s0 // 12, s0 // 12)])
                sets.append(ps)
            elif k == 1:
                sets.append([polys.rand_polygon(rng, rng.range(3, 5), 12) for _ in range(rng.range(1, 3))])
            elif k == 2:
                sets.append(shape(rng, rng.choice([9, 10, 21, 24]))[0])
            else:
                sets.append(shape(rng)[0])
        items = []
        pile = rng.chance(1, 4)
        if pile:            # ONE polygon piled up many times (mostly as subject): the output rings are split and re-joined repeatedly
            base = rng.choice([[(20, -20), (30, -20), (20, -10)], _sq(0, 0, rng.range(2, 9)), polys.rand_polygon(rng, rng.range(3, 6), 12),
                               [(0, 0), (10, 0), (20, 0), (20, 20), (0, 20), (0, 0)]])
            for _ in range(rng.range(4, 10)):
                items.append((rng.choice([0, 0, 0, 0, 0, 2, 1, 4, 6]), [base]))
            if rng.chance(1, 3):
                other = [p for ps in sets for p in ps]
                items.append((rng.choice([0, 2]), [rng.choice(other)] if other else [base]))
        for _ in range(0 if pile else rng.range(2, 9)):
            ps = rng.choice(sets)
            if rng.chance(1, 3) and len(ps) > 1:
                ps = [rng.choice(ps)]
            kind = rng.choice([0, 0, 0, 1, 1, 2])
            if rng.chance(1, 5):
                kind += 4
            items.append((kind, ps))
        twice = rng.chance(1, 100)
        if twice:
            pos = rng.below(len(items))
            items.insert(pos, (4 + rng.choice([0, 1, 2]), rng.choice(sets)))
            items.insert(rng.range(pos + 1, len(items)), (8, []))
        placed = place(rng, [p for _, ps in items for p in ps], M) if not rng.chance(1, 3) else None
        if placed is not None and (M < 4 * max(1, maxabs([p for _, ps in items for p in ps])) or True):
            # one common transformation for all items keeps coincident paths coincident
            allp = [p for _, ps in items for p in ps]
            m = max(1, maxabs(allp))
            kk = max(1, M // (2 * m)) if rng.chance(1, 2) else 1
            dx = rng.choice([0, 0, M - m * kk, -(M - m * kk)]) if M > 4 * m * kk else 0
            dy = rng.choice([0, 0, M - m * kk, -(M - m * kk)]) if M > 4 * m * kk else 0
            items = [(k, [[(max(-M, min(M, x * kk + dx)), max(-M, min(M, y * kk + dy))) for x, y in p] for p in ps]) for k, ps in items]
        ct = rng.choice([4, 4, 4, 1, 2, 3]) if not pile else rng.choice([4, 2, 4, 2, 1, 3])
        fr = rng.choice([0, 0, 0, 1, 2, 3])
        mode = rng.choice([1, 3, 1, 3, 5, 7, 0, 2])
        le = maxabs([p for _, ps in items for p in ps]) <= P29
        line = 'BSEQ %d %d %d %d %d %d %s' % (ct, fr, rng.below(2), rng.below(2), mode, len(items),
                                           ' '.join('%d %s' % (k, fmt_paths(ps)) for k, ps in items))
        out.append(case(line, name, le, 'seq-twice' if twice else 'seq'))
    return out


def _pinched(rng, box):
    """a polygon one of whose vertices lies on (or one lattice unit off) a non-adjacent edge of the same polygon"""
    n = rng.range(4, 7)
    p = polys.rand_polygon(rng, n, box) if rng.chance(2, 3) else [(rng.range(-box, box), rng.range(-box, box)) for _ in range(n)]
    e = rng.below(n)
    P, Q = p[e], p[(e + 1) % n]
    b = rng.choice([2, 3, 3, 4, 5, 7])
    a = rng.range(1, b - 1)
    R = (P[0] + (Q[0] - P[0]) * a // b + rng.choice([0, 0, 0, 1, -1]), P[1] + (Q[1] - P[1]) * a // b + rng.choice([0, 0, 0, 1, -1]))
    pos = (e + rng.range(2, max(2, n - 1))) % n
    q = list(p)
    q.insert(pos + 1 if pos != e else (e + 3) % (n + 1), R)
    return q


def _zigzag(rng, box):
    m = rng.choice([4, 5, 5, 6, 7])
    ang = (rng.range(-box, box), rng.range(-box, box))
    L = max(1, abs(ang[0]), abs(ang[1]))
    cx, cy = rng.range(0, box), rng.range(0, box)
    p = []
    for k in range(m):
        sg = 1 if k % 2 == 0 else -1
        t, w = rng.range(box // 3, box), rng.range(-8, 8)
        p.append((cx + sg * ang[0] * t // L - ang[1] * w // L + rng.range(-2, 2), cy + sg * ang[1] * t // L + ang[0] * w // L + rng.range(-2, 2)))
    return p


def gen_touch(rng, n):
    """small-coordinate polygons whose vertices lie on / within a fraction of a unit of their own or other paths' edges
    (pinched polygons, slivers, zigzags of nearly parallel edges, random self-intersecting n-gons): after rounding the
    output rings keep micro self-intersections and are split in CleanCollinear / FixSelfIntersects / DoSplitOp, which
    appends to outrec_list_ while the result builders walk it.  Up to 20 further small polygons all around, so that
    OutRecs precede and follow the split one and the list is at every capacity 1, 2, 4, 8, 16 when it grows.  Through
    Clipper64 / ClipperD objects, the free functions and the C exports, Paths and PolyTree results; the D entry points get
    coordinates with one or two decimals more than the precision (0..2), so that rounding moves vertices onto edges."""
    out = []
    for i in range(n):
        box = rng.choice([12, 30, 100, 100, 300, 1000])
        core = []
        for _ in range(rng.choice([1, 1, 1, 2, 3])):
            k = rng.below(6)
            if k <= 1:
                core.append(_pinched(rng, box))
            elif k == 2:
                core.append(_zigzag(rng, box))
            elif k == 3:
                core.append([(rng.range(0, box), rng.range(0, box)) for _ in range(rng.choice([5, 5, 6, 8, 11, 14]))])
            elif k == 4:      # a vertex of one polygon on an edge of another
                a = polys.rand_polygon(rng, rng.range(3, 6), box)
                P, Q = a[0], a[1]
                R = ((P[0] + Q[0]) // 2 + rng.choice([0, 0, 1]), (P[1] + Q[1]) // 2 + rng.choice([0, 0, -1]))
                core += [a, [R, (R[0] + rng.range(-box, box), R[1] + rng.range(-box, box)), (R[0] + rng.range(-box, box), R[1] + rng.range(-box, box))]]
            else:
                core.append([(27, 12), (24, 11), (75, 31), (30, 18), (95, 43)] if rng.chance(1, 2) else
                            [(0, 0), (-4000, 6000), (1497, 998), (-1000, 7000), (4000, 7500), (3000, 2000)])
        m = max(1, maxabs(core))
        pads = []
        npad = rng.choice([0, 0, 1, 1, 2, 3, 3, 4, 5, 6, 7, 8, 9, 11, 13, 15, 16, 17, 19, 20])
        s0 = max(2, m // 8)
        for j in range(npad):
            # small squares / triangles on a ring around the core (all four sides: before and after it in the sweep)
            gx, gy = rng.range(-3, 3), rng.range(-3, 3)
            if abs(gx) < 2 and abs(gy) < 2:
                gx = rng.choice([-3, -2, 2, 3])
            x0, y0 = gx * (m + 4 * s0) + rng.range(-s0, s0), gy * (m + 4 * s0) + rng.range(-s0, s0) + j * 3 * s0 * rng.choice([0, 1])
            pads.append(_sq(x0, y0, s0) if rng.chance(2, 3) else [(x0, y0), (x0 + s0, y0), (x0, y0 + s0)])
        S = core + pads
        rng.shuffle(S)
        C = []
        if rng.chance(1, 4):
            C = [polys.rand_polygon(rng, rng.range(3, 5), box)]
        ct = rng.choice([2, 2, 2, 1, 3, 4]) if C else rng.choice([2, 2, 2, 4, 3])
        fr = rng.choice([1, 0, 1, 0, 2, 3])
        pc, rs = rng.below(2), rng.below(2)
        mode = rng.choice([0, 0, 2, 1, 3, 4, 6, 5])
        fam = 'touch%d' % min(20, npad)
        sel = rng.below(12)
        if sel < 6:            # the double API (objects, free functions, exports)
            prec = rng.choice([2, 2, 1, 0, 2])
            extra = rng.choice([1, 2, 2])
            div = 10 ** (prec + extra)
            Sd, Cd = fmt_pathsd(S, div), fmt_pathsd(C, div)
            if sel < 3:
                out.append(case('BD %d %d %d %d %d %d %d %s %s %s' % (prec, ct, fr, pc, rs, mode, rng.choice([0, 0, 0, 1]), Sd, '0', Cd), 'small', True, fam))
            elif sel < 5:
                fn = rng.choice([0, 1, 3, 4, 4, 2, 5, 6])
                out.append(case('FD %d %d %d %d %s %s' % (fn, ct, fr, prec, Sd, Cd), 'small', True, fam))
            else:
                out.append(case('%s %d %d %d %d %d 0 0 %s %s %s' % (rng.choice(['XBD', 'XBD', 'XBTD']), prec, ct, fr, pc, rs, Sd, '0', Cd), 'small', True, fam))
        else:
            Si, Ci = fmt_paths(S), fmt_paths(C)
            if sel < 9:
                out.append(case('B64 %d %d %d %d %d %d %s %s %s' % (ct, fr, pc, rs, mode, rng.choice([0, 0, 0, 1, 3]), Si, '0', Ci), 'small', True, fam))
            elif sel < 11:
                fn = rng.choice([0, 1, 3, 4, 4, 2, 5, 6])
                out.append(case('F64 %d %d %d %s %s' % (fn, ct, fr, Si, Ci), 'small', True, fam))
            else:
                out.append(case('%s %d %d %d %d 0 0 %s %s %s' % (rng.choice(['XB64', 'XBT64']), ct, fr, pc, rs, Si, '0', Ci), 'small', True, fam))
    return out


def gen_bool_d(rng, n):
    """ClipperD / PathsD functions / export D: integer lattice shapes divided by 10^prec; scaled magnitudes stay <= 2^62 except
    for a few deliberately out-of-range cases (documented range error -> Clipper2Exception / error code)."""
    out = []
    for i in range(n):
        prec = rng.choice(PRECS) if not rng.chance(1, 12) else rng.choice(BADPRECS)
        p = max(-8, min(8, prec))
        name, M = pick_regime(rng, REG_BOOL, i)
        # ClipperD scales by 2^(ilogb(10^p)+1) <= 2*10^p; the doubles are <lattice int> / 10^max(0,p), so the scaled
        # integer coordinates are <= 2*|lattice int| (p >= 0) or smaller (p < 0)
        div = 10 ** max(0, p)
        Mi = max(1, M // 2)
        if rng.chance(1, 25):
            Mi = M * 4          # out of range on purpose (range check must report, not crash)
            name = name + '+out-of-range'
        S, fs = mal(rng, max(1, Mi))
        C, fc = mal(rng, max(1, Mi)) if not rng.chance(1, 6) else ([], 'none')
        O, fo = (mal(rng, max(1, Mi)) if rng.chance(1, 3) else ([], 'none'))
        ct, fr = rng.range(1, 4), rng.range(0, 3)
        pc, rs, mode, reuse = rng.below(2), rng.below(2), rng.below(8), (rng.below(3) if rng.chance(1, 3) else 0)
        le = maxabs(S + C + O) * 2 <= P29
        fam = '%s/%s/%s' % (fs, fc, fo)
        sel = rng.below(10)
        if sel < 5:
            out.append(case('BD %d %d %d %d %d %d %d %s %s %s' % (prec, ct, fr, pc, rs, mode, reuse, fmt_pathsd(S, div), fmt_pathsd(O, div), fmt_pathsd(C, div)), name, le, fam))
        elif sel < 7:
            out.append(case('FD %d %d %d %d %s %s' % (rng.below(7), ct, fr, prec, fmt_pathsd(S, div), fmt_pathsd(C, div)), name, le, fam))
        else:
            nm = rng.choice([0, 0, 0, 1, 2, 4, 7])
            ct8 = ct if rng.chance(5, 6) else rng.choice([5, 255])
            fr8 = fr if rng.chance(5, 6) else rng.choice([4, 255])
            out.append(case('%s %d %d %d %d %d %d %d %s %s %s' % (rng.choice(['XBD', 'XBTD']), prec, ct8, fr8, pc, rs, nm, rng.below(2),
                                                                 fmt_pathsd(S, div), fmt_pathsd(O, div), fmt_pathsd(C, div)), name, le, fam))
    return out


def _delta_for(rng, S, M):
    size = max(1, min(maxabs(S) if S else 1, 10 ** 7))
    ext = 1
    for p in S:
        if p:
            xs = [v[0] for v in p]
            ys = [v[1] for v in p]
            ext = max(ext, max(xs) - min(xs), max(ys) - min(ys))
    d = deltas(rng, M, min(ext, 2 ** 41))
    r = rng.below(40)
    if r == 0:
        d = NAN
    elif r == 1:
        d = rng.choice([float(P29), -float(P29)])
    elif r == 2:
        d = rng.choice([float(P40), -float(P40), 1e12])
    elif r == 3:
        d = rng.choice([INF, -INF, 1e300])
    return d


def gen_offset(rng, n):
    out = []
    for i in range(n):
        name, M = pick_regime(rng, REG_OTHER, i)
        S, fam = mal(rng, M)
        d = _delta_for(rng, S, M)
        ml, at = rng.choice(MITERS), rng.choice(ARCTOLS)
        if not arc_ok(d, at):
            at = 0.0
        jt, et = rng.below(4), rng.below(5)
        huge = (d != d) or abs(d) > 2 ** 41
        le = maxabs(S) <= P29 and (d == d) and abs(d) <= P29
        sel = rng.below(10)
        if sel < 4:
            out.append(case('INF64 %s %d %d %s %s %s' % (fnum(d), jt, et, fnum(ml), fnum(at), fmt_paths(S)), name, le, fam))
        elif sel < 7:
            ng = rng.range(1, 3)
            gs = []
            allp = list(S)
            for g in range(ng):
                ps = S if g == 0 else mal(rng, M)[0]
                allp += ps
                gs.append('%d %d %s' % (rng.below(4), rng.below(5), fmt_paths(ps)))
            le2 = maxabs(allp) <= P29 and (d == d) and abs(d) <= P29
            out.append(case('OFF %s %s %d %d %d %s %d %s' % (fnum(ml), fnum(at), rng.below(2), rng.below(2), rng.below(8), fnum(d), ng, ' '.join(gs)), name, le2, fam))
        elif sel < 9:
            # export: uint8 join/end type, any value
            jt8 = jt if rng.chance(3, 4) else rng.choice([4, 5, 100, 255])
            et8 = et if rng.chance(3, 4) else rng.choice([5, 6, 100, 255])
            out.append(case('%s %s %d %d %s %s %d %d %s' % (rng.choice(['XI64', 'XI1_64']), fnum(d), jt8, et8, fnum(ml), fnum(at), rng.below(2),
                                                           1 if rng.chance(1, 15) else 0, fmt_paths(S)), name, le, fam))
        else:
            prec = rng.choice(PRECS) if not rng.chance(1, 10) else rng.choice(BADPRECS)
            p = max(-8, min(8, prec))
            div = 10 ** max(0, p)
            mul = 10 ** max(0, p)
            # scaled coordinates and scaled delta stay in the 2^40 regime
            lim = max(1, M // mul) if p >= 0 else M
            S2, fam2 = mal(rng, lim)
            dd = d / mul if (d == d and abs(d) != INF) else d
            le3 = maxabs(S2) * mul <= P29 and (d == d) and abs(d) <= P29 and p <= 0
            if rng.chance(1, 2):
                out.append(case('INFD %s %d %d %s %d %s %s' % (fnum(dd), jt, et, fnum(ml), prec, fnum(at / mul if at == at and abs(at) < 1e200 else at), fmt_pathsd(S2, div)), name, le3, fam2))
            else:
                out.append(case('%s %s %d %d %d %s %s %d %d %s' % (rng.choice(['XID', 'XI1_D']), fnum(dd), jt, et, prec, fnum(ml), fnum(at / mul if at == at and abs(at) < 1e200 else at),
                                                                  rng.below(2), 1 if rng.chance(1, 15) else 0, fmt_pathsd(S2, div)), name, le3, fam2))
    return out


def rects_for(rng, S, M):
    m = maxabs(S) if S else 4
    m = max(m, 2)
    k = rng.below(12)
    l, r = sorted([rng.range(-m, m), rng.range(-m, m)])
    t, bt = sorted([rng.range(-m, m), rng.range(-m, m)])
    if k == 0:
        return (l, t, l, bt)                   # zero width
    if k == 1:
        return (r, bt, l, t)                   # inverted
    if k == 2:
        return (0, 0, 0, 0)
    if k == 3:
        return (-M, -M, M, M)                  # everything inside
    if k == 4:
        return (M - 1, M - 1, M, M)            # corner sliver
    if k == 5 and S and S[0]:
        x, y = S[0][0]
        return (x, y, min(M, x + max(1, m // 2)), min(M, y + max(1, m // 2)))   # corner on a vertex
    if k == 6:
        return (l, t, l + 1, t + 1) if l < M and t < M else (l - 1, t - 1, l, t)
    return (l, t, r, bt)


def gen_rect(rng, n):
    out = []
    for i in range(n):
        name, M = pick_regime(rng, REG_OTHER, i)
        S, fam = mal(rng, M)
        R = rects_for(rng, S, M)
        le = maxabs(S) <= P29 and max(abs(v) for v in R) <= P29
        sel = rng.below(10)
        if sel < 5:
            out.append(case('%s %d %d %d %d %d %s' % (rng.choice(['RC64', 'RCL64']), R[0], R[1], R[2], R[3], rng.below(2), fmt_paths(S)), name, le, fam))
        elif sel < 7:
            out.append(case('XRC64 %d %d %d %d %d %d %s' % (rng.below(2), 1 if rng.chance(1, 15) else 0, R[0], R[1], R[2], R[3], fmt_paths(S)), name, le, fam))
        else:
            prec = rng.choice(PRECS) if not rng.chance(1, 10) else rng.choice(BADPRECS)
            p = max(-8, min(8, prec))
            mul = 10 ** max(0, p)
            lim = max(1, M // mul)
            S2, fam2 = mal(rng, lim)
            R2 = rects_for(rng, S2, lim)
            le3 = maxabs(S2) * mul <= P29 and max(abs(v) for v in R2) * mul <= P29 and p <= 0
            rd = ' '.join(fnum(v / mul) for v in R2)
            if rng.chance(1, 2):
                out.append(case('%s %d %s %d %s' % (rng.choice(['RCD', 'RCLD']), prec, rd, rng.below(2), fmt_pathsd(S2, mul)), name, le3, fam2))
            else:
                out.append(case('XRCD %d %d %d %s %s' % (rng.below(2), 1 if rng.chance(1, 15) else 0, prec, rd, fmt_pathsd(S2, mul)), name, le3, fam2))
    return out


def gen_mink(rng, n):
    out = []
    for i in range(n):
        name, M = pick_regime(rng, REG_OTHER, i)
        # pattern + path: sums must stay <= 2^40
        half = max(1, M // 2)
        P, f1 = mal(rng, half)
        Q, f2 = mal(rng, half)
        pat = P[0] if P else []
        path = Q[0] if Q else []
        if rng.chance(1, 2) and len(pat) > 5:
            pat = pat[:5]
        le = maxabs([pat, path]) * 2 <= P29
        fam = f1 + '+' + f2
        sel = rng.below(10)
        if sel < 5:
            out.append(case('MK64 %d %d %s %s' % (rng.below(2), rng.below(2), fmt_path(pat), fmt_path(path)), name, le, fam))
        elif sel < 8:
            out.append(case('XMK %d %d %d %s %s' % (rng.below(2), rng.below(2), rng.choice([0, 0, 0, 0, 1, 2, 3]), fmt_path(pat), fmt_path(path)), name, le, fam))
        else:
            prec = rng.choice(PRECS)
            mul = 10 ** max(0, prec)
            lim = max(1, half // mul)
            P2, Q2 = mal(rng, lim)[0], mal(rng, lim)[0]
            pat2, path2 = (P2[0] if P2 else []), (Q2[0] if Q2 else [])
            le3 = maxabs([pat2, path2]) * 2 * mul <= P29 and prec <= 0
            out.append(case('MKD %d %d %d %s %s' % (rng.below(2), rng.below(2), prec, fmt_pathd(pat2, mul), fmt_pathd(path2, mul)), name, le3, fam))
    return out


def gen_utils(rng, n):
    out = []
    for i in range(n):
        name, M = pick_regime(rng, REG_OTHER, i)
        S, fam = mal(rng, M)
        le = maxabs(S) <= P29
        sel = rng.below(20)
        one = S[0] if S else []
        eps = rng.choice(EPSS)
        if sel == 0:
            out.append(case('TRIM %d %s' % (rng.below(2), fmt_path(one)), name, le, fam))
        elif sel == 1:
            prec = rng.choice(PRECS + BADPRECS[:2])
            mul = 10 ** max(0, min(8, prec))
            S2 = mal(rng, max(1, M // mul))[0]
            out.append(case('TRIMD %d %d %s' % (prec, rng.below(2), fmt_pathd(S2[0] if S2 else [], mul)), name, maxabs(S2) * mul <= P29 and prec <= 0, fam))
        elif sel == 2:
            out.append(case('SIMP %s %d %s' % (fnum(eps), rng.below(2), fmt_paths(S)), name, le, fam))
        elif sel == 3:
            out.append(case('SIMPD %s %d %s' % (fnum(eps), rng.below(2), fmt_pathsd(S, rng.choice([1, 10, 3]))), name, le, fam))
        elif sel == 4:
            out.append(case('RDP %s %s' % (fnum(eps), fmt_paths(S)), name, le, fam))
        elif sel == 5:
            out.append(case('RDPD %s %s' % (fnum(eps), fmt_pathsd(S, rng.choice([1, 10, 7]))), name, le, fam))
        elif sel == 6:
            out.append(case('SDUP %d %s' % (rng.below(2), fmt_paths(S)), name, le, fam))
        elif sel == 7:
            out.append(case('SDUPD %d %s' % (rng.below(2), fmt_pathsd(S, rng.choice([1, 4]))), name, le, fam))
        elif sel == 8:
            out.append(case('SNEAR %s %d %s' % (fnum(rng.choice([0.0, -1.0, 1.0, 2.0, 4.5, 1e30, NAN])), rng.below(2), fmt_paths(S)), name, le, fam))
        elif sel == 9:
            out.append(case('SNEARD %s %d %s' % (fnum(rng.choice([0.0, 1.0, 0.01, 1e30, NAN])), rng.below(2), fmt_pathsd(S, rng.choice([1, 10]))), name, le, fam))
        elif sel == 10:
            # Ellipse: steps (when given) and radii bounded so that the result stays below ~2e5 points
            rx = rng.choice([0.0, -1.0, 0.4, 1.0, 2.5, 100.0, 1e6, 1e9, NAN])
            ry = rng.choice([0.0, -1.0, 0.4, 1.0, 2.5, 100.0, 1e6, 1e9, NAN])
            steps = rng.choice([0, 0, 1, 2, 3, 4, 7, 100, 5000])
            out.append(case('ELL %d %d %s %s %d' % (rng.range(-M, M), rng.range(-M, M), fnum(rx), fnum(ry), steps), name, M <= P29 and rx == rx and ry == ry and rx <= P29 and ry <= P29, 'ellipse'))
        elif sel == 11:
            rx = rng.choice([0.0, -1.0, 0.4, 1.0, 2.5, 100.0, 1e6, NAN])
            ry = rng.choice([0.0, -1.0, 0.4, 1.0, 2.5, 100.0, 1e6])
            out.append(case('ELLD %s %s %s %s %d' % (fnum(rng.range(-M, M) / 4.0), fnum(rng.range(-M, M) / 4.0), fnum(rx), fnum(ry), rng.choice([0, 0, 1, 2, 3, 9, 1000])), name, False, 'ellipse'))
        elif sel in (12, 13):
            out.append(case('MEAS %d %d %d %s' % (rng.below(2), rng.range(-M, M), rng.range(-M, M), fmt_paths(S)), name, le, fam))
        elif sel == 14:
            out.append(case('MEASD %d %s %s %s' % (rng.below(2), fnum(rng.range(-M, M) / 2.0), fnum(rng.range(-M, M) / 2.0), fmt_pathsd(S, rng.choice([1, 2, 10]))), name, False, fam))
        elif sel == 15:
            dx, dy = rng.range(-M, M), rng.range(-M, M)
            S2 = place(rng, shape(rng)[0], max(1, M // 2))
            out.append(case('TRANS %d %d %s' % (dx // 2, dy // 2, fmt_paths(S2)), name, maxabs(S2) <= P29 // 2 and abs(dx) <= P29 and abs(dy) <= P29, fam))
        elif sel == 16:
            out.append(case('TRANSD %s %s %s' % (fnum(rng.choice([0.0, 1.5, -1e30, NAN, INF])), fnum(rng.range(-M, M) / 3.0), fmt_pathsd(S, 2)), name, False, fam))
        elif sel == 17:
            k = rng.range(0, 9)
            out.append(case('MKP %d %s' % (k, ' '.join(str(rng.range(-M, M)) for _ in range(k))), name, True, 'makepath'))
        elif sel == 18:
            k = rng.range(0, 9)
            out.append(case('MKPD %d %s' % (k, ' '.join(fnum(rng.range(-M, M) / 8.0) for _ in range(k))), name, False, 'makepath'))
        else:
            sx = rng.choice([1.0, 0.5, 2.0, 0.0, -1.0, 1e-3, NAN]) if M <= 2 ** 32 else rng.choice([1.0, 0.5, 0.0, -1.0, 1e-3])
            sy = rng.choice([1.0, 0.5, 2.0, 0.0, -1.0]) if M <= 2 ** 32 else rng.choice([1.0, 0.25, 0.0])
            out.append(case('SCALE %s %s %s' % (fnum(sx), fnum(sy), fmt_paths(S)), name, False, fam))
    return out


def gen_wellformed_bool(rng, n):
    """the well-formed (general position) families of polys.py at every regime up to 2^61, plus 2^62 by exact doubling"""
    out = []
    regs = polys.REGIMES + [('2^62', 2 ** 54, 2 ** 61)]
    for i in range(n):
        S, C, kinds = polys.gen_genpos_case(rng)
        reg = regs[i % len(regs)]
        S2, C2, tf = polys.apply_regime(rng, S, C, reg)
        O = [p[: max(2, len(p) - 1)] for p in (S2[:1] if rng.chance(1, 3) else [])]
        ct, fr = rng.range(1, 4), rng.range(0, 3)
        le = maxabs(S2 + C2) <= P29
        out.append(case('B64 %d %d %d %d %d %d %s %s %s' % (ct, fr, rng.below(2), rng.below(2), rng.below(8), rng.below(4) if rng.chance(1, 4) else 0,
                                                          fmt_paths(S2), fmt_paths(O), fmt_paths(C2)), reg[0], le, 'genpos%s' % (kinds,)))
    return out


def gen_wellformed_other(rng, n):
    out = []
    regs = [r for r in polys.REGIMES if r[0] in ('small', '1e3', '1e6', '2^30', '2^40')]
    for i in range(n):
        S, C, kinds = polys.gen_genpos_case(rng)
        reg = regs[i % len(regs)]
        # keep below 2^40 / 2^29 exactly
        S2, C2, tf = polys.apply_regime(rng, S, C, reg)
        m = maxabs(S2 + C2)
        if m > P40:
            continue
        le = m <= P29
        ext = max(1, min(m, 120 * reg[1]))
        sel = rng.below(6)
        d = rng.choice([1.0, -1.0, 2.5, ext / 50.0, -ext / 50.0, ext / 8.0, -ext / 8.0])
        if sel < 2:
            out.append(case('INF64 %s %d %d %s %s %s' % (fnum(d), rng.below(4), rng.below(5), fnum(rng.choice([2.0, 1.0, 4.0])), fnum(0.0), fmt_paths(S2)), reg[0], le and abs(d) <= P29, 'genpos'))
        elif sel == 2:
            x0, y0, x1, y1 = polys.bbox([S2])
            w, h = max(2, (x1 - x0) // 3), max(2, (y1 - y0) // 3)
            out.append(case('%s %d %d %d %d 0 %s' % (rng.choice(['RC64', 'RCL64']), x0 + w, y0 + h, x1 - w, y1 - h, fmt_paths(S2 + C2)), reg[0], le, 'genpos'))
        elif sel == 3:
            pat = polys.star_polygon(rng, rng.range(3, 6), 0, 0, 2, 9)
            out.append(case('MK64 %d %d %s %s' % (rng.below(2), rng.below(2), fmt_path(pat), fmt_path(S2[0])), reg[0], (m + 9) <= P29, 'genpos'))
        elif sel == 4:
            out.append(case('SIMP %s %d %s' % (fnum(ext / 40.0), rng.below(2), fmt_paths(S2 + C2)), reg[0], le, 'genpos'))
        else:
            out.append(case('MEAS 1 %d %d %s' % (S2[0][0][0] + 1, S2[0][0][1] - 1, fmt_paths(S2 + C2)), reg[0], le, 'genpos'))
    return out


FIXED = [
    # DESIGN section 9 item 4: empty path in an open-ended offset group
    ('INF64 5 0 2 2 0 1 0', 'tiny', True, 'empty-path-butt'),
    ('INF64 5 0 3 2 0 1 0', 'tiny', True, 'empty-path-square'),
    ('INF64 5 2 4 2 0 1 0', 'tiny', True, 'empty-path-round'),
    ('INF64 5 1 1 2 0 1 0', 'tiny', True, 'empty-path-joined'),
    ('INF64 5 3 0 2 0 1 0', 'tiny', True, 'empty-path-polygon'),
    ('INF64 5 2 4 2 0 2 0 3 0 0 10 0 10 10', 'tiny', True, 'empty-path-round+triangle'),
    ('XI1_64 5 2 4 2 0 0 1 1 0', 'tiny', True, 'null-cpath'),
    ('XMISC', 'tiny', True, 'misc'),
    ('OFF 2 0 0 0 2 3 1 0 0 1 0', 'tiny', True, 'callback-empty-path'),
    ('OFF 2 0 0 0 2 3 1 0 2 1 1 5 5', 'tiny', True, 'callback-one-point'),
    # a polygon pinched at a vertex that lies on its own edge: the output ring is split in FixSelfIntersects (ClipperD, paths result)
    ('FD 4 2 1 2 1 6 0.0 0.0 -40.0 60.0 14.97 9.98 -10.0 70.0 40.0 75.0 30.0 20.0 0', 'small', True, 'touch0'),
    ('FD 4 2 0 2 1 6 0.0 0.0 -40.0 60.0 14.97 9.98 -10.0 70.0 40.0 75.0 30.0 20.0 0', 'small', True, 'touch0'),
    ('BD 2 2 1 0 0 2 0 1 6 0.0 0.0 -40.0 60.0 14.97 9.98 -10.0 70.0 40.0 75.0 30.0 20.0 0 0', 'small', True, 'touch0'),
    ('F64 4 2 1 1 6 0 0 -4000 6000 1497 998 -1000 7000 4000 7500 3000 2000 0', 'small', True, 'touch0'),
    # RamerDouglasPeucker with epsilon = NaN on a collinear path
    ('RDP nan 1 5 0 0 1 0 2 0 3 0 4 0', 'tiny', True, 'rdp-nan'),
    ('RDPD nan 1 5 0 0 1 0 2 0 3 0 4 0', 'tiny', True, 'rdp-nan'),
    # an exception inside ClipperOffset::Execute(delta, PolyTree64&): NaN delta, round join, single point -> Ellipse(NaN)
    ('OFF 2 0.25 0 0 1 nan 1 2 0 1 1 5 5', 'tiny', False, 'offset-tree-exception'),
    # CheckSplitOwner recursion (reported through C12): coincident closed/open/clip paths, Xor/EvenOdd into a PolyTree
    ('BSEQ 4 0 1 0 1 16 0 1 6 0 0 30 0 60 0 60 60 0 60 0 0 0 1 4 60 0 120 0 120 60 60 60 2 1 6 0 0 30 0 60 0 60 60 0 60 0 0 2 1 4 60 0 120 0 120 60 60 60 '
     '0 1 3 50 0 120 60 40 110 1 1 3 -10 50 60 55 130 40 1 1 2 30 -20 35 130 1 1 6 0 0 30 0 60 0 60 60 0 60 0 0 0 1 6 0 0 30 0 60 0 60 60 0 60 0 0 '
     '0 1 4 60 0 120 0 120 60 60 60 0 1 4 30 60 90 60 90 100 30 100 1 1 6 0 0 30 0 60 0 60 60 0 60 0 0 1 1 4 30 60 90 60 90 100 30 100 '
     '0 1 6 0 0 30 0 60 0 60 60 0 60 0 0 0 1 4 60 0 120 0 120 60 60 60 0 1 4 30 60 90 60 90 100 30 100', 'small', True, 'seq-checksplitowner'),
    ('BSEQ 2 0 1 0 1 2 2 1 3 20 -20 30 -20 20 -10 0 6 3 20 -20 30 -20 20 -10 3 20 -20 30 -20 20 -10 3 20 -20 30 -20 20 -10 3 20 -20 30 -20 20 -10 '
     '3 20 -20 30 -20 20 -10 3 20 -20 30 -20 20 -10', 'small', True, 'seq-checksplitowner'),
    # the same ReuseableDataContainer64 added twice to one Clipper64 (reported through C12)
    ('BSEQ 2 2 1 0 0 3 4 2 4 10 10 90 20 80 90 20 70 3 50 0 120 60 40 110 5 3 3 -10 50 60 55 130 40 2 30 -20 35 130 4 0 100 50 20 100 100 150 20 8 0',
     'small', True, 'seq-twice'),
]


# operations that reach the rarer linking primitives of the engine (DoSplitOp / FixSelfIntersects, horizontal joins, JoinOutrecPaths,
# split owners in a PolyTree, open paths): the allocation-failure stage fails EVERY allocation of these in both tiers
NF_SEEDS = [
    'OFF 1.0 0.25 1 1 2 10.0 1 1 3 1 5 -20 40 40 40 20 199 -40 40 200 40',
    'B64 2 1 0 0 0 0 1 4 0 0 100 100 100 0 0 100 0 0',                                              # bow-tie union
    'B64 2 1 0 0 1 0 1 5 0 -100 59 81 -95 -31 95 -31 -59 81 0 0',                                   # pentagram into a tree
    'B64 2 0 0 0 3 0 1 5 0 -100 59 81 -95 -31 95 -31 -59 81 1 2 -120 0 120 0 0',                    # + open path, EvenOdd, tree
    'B64 2 1 1 0 0 0 2 4 0 0 50 0 50 50 0 50 4 50 0 100 0 100 50 50 50 0 0',                        # abutting squares (horizontal joins)
    'B64 4 0 0 0 1 0 2 4 0 0 100 0 100 100 0 100 4 20 20 80 20 80 80 20 80 0 1 4 40 40 60 40 60 60 40 60',   # nested, Xor, tree
    'B64 1 1 0 0 2 0 1 4 0 0 100 0 100 100 0 100 1 3 -10 50 50 40 110 50 1 4 50 -10 150 -10 150 110 50 110', # open subject clipped
    'B64 3 1 0 1 1 0 2 6 0 0 40 0 40 40 80 40 80 80 0 80 4 10 10 30 10 30 30 10 30 0 1 4 20 -10 60 -10 60 60 20 60',
    'BSEQ 2 0 1 0 1 2 2 1 3 20 -20 30 -20 20 -10 0 6 3 20 -20 30 -20 20 -10 3 20 -20 30 -20 20 -10 3 20 -20 30 -20 20 -10 3 20 -20 30 -20 20 -10 '
    '3 20 -20 30 -20 20 -10 3 20 -20 30 -20 20 -10',
    'INF64 -5 2 0 2 0 1 8 0 0 100 0 100 100 60 100 60 40 40 40 40 100 0 100',                        # shrinking a U: the result splits
    'MK64 1 1 4 -3 -3 3 -3 3 3 -3 3 5 0 0 50 0 50 50 25 20 0 50',
    'RC64 10 10 60 60 0 1 7 0 0 100 0 100 100 50 100 50 30 30 30 0 100',
    'XBT64 2 1 0 0 0 0 2 4 0 0 100 0 100 100 0 100 4 20 20 20 80 80 80 80 20 0 0',
]


def nf_seed_cases():
    return [case(l, 'small', True, 'nf-seed') for l in NF_SEEDS]


def fixed_cases():
    return [case(l, r, le, f) for (l, r, le, f) in FIXED]


def gen_all(rng, scale=1.0):
    """the whole stream; `scale` multiplies the per-family budgets"""
    n = lambda k: max(1, int(k * scale))
    out = fixed_cases()
    out += gen_bool(rng.fork(1), n(2600))
    out += gen_bool_seq(rng.fork(9), n(1200))
    out += gen_touch(rng.fork(10), n(2500))
    out += gen_bool_d(rng.fork(2), n(700))
    out += gen_offset(rng.fork(3), n(1600))
    out += gen_rect(rng.fork(4), n(900))
    out += gen_mink(rng.fork(5), n(500))
    out += gen_utils(rng.fork(6), n(1400))
    out += gen_wellformed_bool(rng.fork(7), n(400))
    out += gen_wellformed_other(rng.fork(8), n(300))
    return out


# ----------------------------------------------------------------------------- synthetic AELs for harness/cx_isect.cpp
def gen_ael(rng, n_cases):
    """lines 'AEL process top_y bot_y n (botx boty topx topy wind_dx join)*n' and a tag"""
    out = []
    for i in range(n_cases):
        r = rng.below(20)
        n = rng.range(0, 3) if r == 0 else (rng.range(13, 40) if r < 3 else rng.range(2, 12))
        box = rng.choice([3, 8, 20, 1000, 10 ** 6, 2 ** 29 // 4, 2 ** 38]) if not rng.chance(1, 2) else rng.choice([8, 20, 200])
        H = rng.choice([1, 2, 7, 100, max(1, box // 3), max(1, box)])
        T = rng.range(-box, box)
        B = T + H
        kind = rng.below(8)
        process = 1
        edges = []
        if kind <= 3:      # consistent: sorted at the bottom, arbitrary at the top, optionally extended beyond the scanbeam
            xb = sorted(rng.range(-box, box) for _ in range(n))
            if kind == 1:   # many ties at the bottom and at the top
                xb = sorted(rng.range(-2, 2) for _ in range(n))
            for k in range(n):
                xt = rng.range(-box, box) if kind != 1 else rng.range(-2, 2)
                if kind == 2 and rng.chance(1, 2):
                    xt = xb[k] + rng.range(-2, 2)        # nearly parallel bundle
                mb, mt = rng.choice([0, 0, 1, 2]), rng.choice([0, 0, 1, 3])
                edges.append((xb[k] + mb * (xb[k] - xt), B + mb * H, xt + mt * (xt - xb[k]), T - mt * H))
        elif kind == 4:    # completely reversed / all equal at the top
            xb = sorted(rng.range(-box, box) for _ in range(n))
            same = rng.chance(1, 2)
            for k in range(n):
                edges.append((xb[k], B, (0 if same else -xb[k]), T))
        elif kind == 5:    # arbitrary geometry (not a consistent AEL): the sort does not care
            for k in range(n):
                edges.append((rng.range(-box, box), B + rng.range(0, H), rng.range(-box, box), T - rng.range(0, H)))
        elif kind == 6:    # vertical and steep edges mixed, shared top points
            xs = sorted(rng.range(-box, box) for _ in range(n))
            tops = [rng.range(-box, box) for _ in range(3)]
            for k in range(n):
                edges.append((xs[k], B, xs[k] if rng.chance(1, 2) else rng.choice(tops), T))
        else:              # joined neighbours (BuildIntersectList only)
            process = 0
            xb = sorted(rng.range(-box, box) for _ in range(n))
            for k in range(n):
                edges.append((xb[k], B + rng.choice([0, H]), rng.range(-box, box), T - rng.choice([0, 0, H])))
        parts = ['AEL', str(process), str(T), str(B), str(n)]
        for k, e in enumerate(edges):
            join = 1 if (process == 0 and k > 0 and rng.chance(1, 3)) else 0
            parts.append('%d %d %d %d %d %d' % (e[0], e[1], e[2], e[3], rng.choice([-1, 1]), join))
        out.append(dict(line=' '.join(parts), n=n, kind=kind, process=process))
    return out
