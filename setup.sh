#!/bin/sh
# MANIFEST.setup_cmd: build the Coq development (full .vo), extract and build every oracle. Offline.
set -e
cd "$(dirname "$0")"
python3 - <<'PY'
import sys, os, glob
sys.path.insert(0, 'lib')
import vf
print('regen', vf.regen_all(print))
vf.coq_makefile()
ok, log = vf.coq_make([f + 'o' for f in vf.coq_files() if not f.startswith('extract/')], timeout=3000, keep_going=True)
print(log[-3000:])
if not ok:
    # keep going: each check rebuilds what its own property needs and reports a proof break itself
    print('WARNING: some Coq files did not build (see above)')
for drv in sorted(glob.glob('oracle/drv_*.ml')):
    fam = os.path.basename(drv)[4:-3]
    try:
        print('oracle', fam, vf.oracle_build(fam))
    except Exception as e:
        print('WARNING: oracle', fam, 'not built:', str(e)[-500:])
PY
