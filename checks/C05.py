"""C05 — open subject paths are cut exactly at the clip region boundary (DESIGN 6 C05).

API-level part (SPEC+O): Clipper64::Execute with open subjects is compared with the exact specification oracle
extracted from coq/model/OpenClipSpec.v on generated general-position inputs, all 4 clip types x 4 fill rules,
paths and polytree execution, default and CLIPPER2_HI_PRECISION builds, 7 coordinate regimes.
Judged inputs (the quantifier "open polylines together with closed subject and clip paths in general position" is read as:
closed paths in general position, open polylines arbitrary), in two classes decided by Coq predicates:
  strict  general_position_C05: general position of the WHOLE input in C01's sense (every input vertex and every proper crossing
          of two input edges, open or closed, >= 3 units from every input edge it does not lie on by construction).  Judged by
          the exact run-based specification [check_open]: vertices/segments within 1.5, kept runs covered and dropped runs
          uncovered outside 3 units of a cut, length within 3 units per cut.
  broad   judged_broad only: closed paths in general position, open polylines not (vertices 0..3 units from or on closed edges,
          hairpins 1-2 units wide through an edge, crossings close together or next to a closed vertex, fold-backs, first = last).
          There the engine may legitimately place, merge or invent cuts inside the tolerances, so only what no reading of the
          tolerances can excuse is reported [check_open_robust]: points >= 3 units from EVERY closed edge lie robustly in one
          cell; a subject sample point there that must be kept and has no solution segment within 2 units is missing, a solution
          point there that must not be kept is extra; solution vertices (and quarter points of solution segments) farther than
          1.5 from every subject segment are off-subject.  No length clause.  Coordinates < 2^53 only (these shapes are measured
          in units: cases are translated, never scaled).
Both classes: crash/Execute false, tree vs paths, closed solution unchanged as a region by the open subjects.
Failure modes (classifier keys):
  crash.open-boolop             the operation crashed, hung or threw
  execute-returned-false        Execute returned false
  open.vertex-off-subject       a solution vertex is farther than 1.5 from every open subject segment
  open.segment-off-subject      a solution segment has no single subject segment within 1.5 of both its end points
  open.piece-extra              a solution segment lies over a dropped part (beyond 3 units of a cut)
  open.piece-missing            part of a kept run (beyond 3 units of a cut) is not covered by the solution
  open.length                   |solution length - exact kept length| > 3 units per cut
  open.closed-solution-changed  adding the open subjects changed the REGION of the closed solution
  open.tree-vs-paths            polytree execution returned different open paths than paths execution
The five geometric keys are refined when some input coordinate is >= 2^53 in magnitude (from there on binary64, in which
the engine computes every cut point, no longer represents all integers, so a cut cannot be placed within 1.5 units):
  open.cut-inexact@beyond-2^53  the failure disappears when the tolerances are widened by the forward rounding-error bound
                                of the engine's crossing formula for this very input (gen/openpaths.py rounding_bound;
                                ~2^-51 * extent * condition number of the worst crossing): every deviation is one
                                that binary64 rounding of a cut point explains
  <key>@beyond-2^53             the failure persists with the widened tolerances: NOT explained by rounding
Strict class below 2^53: a piece-extra / piece-missing / length failure of a case in which an open segment crosses a closed edge at
an angle with sin < 2/3 is re-evaluated with ONLY the margin along the subject widened from 3 to 3 + 2/sin(angle):
  open.cut-displaced@shallow-crossing   it disappears: the cut lies within the 1.5 units across but was displaced along the subject
                                (swap noticed in a later scanbeam because both edges round to the same x at intermediate scanlines)
"""
import glob, json, os, sys
import vf
sys.path.insert(0, os.path.join(vf.VERIF, 'gen'))
import polys, openpaths

META = dict(
    text=("Coq-defined exact specification of open-path clipping (rational crossing parameters of every open segment with every "
          "closed edge, pieces classified by the winding-number table open_in_result at exact rational points, maximal kept runs, "
          "exact 1.5/3-unit tolerance tests by squaring, integer enclosures of lengths) with machine-checked theorems about it: the "
          "table equals the property text (C05_open_in_result_spec); a crossing parameter lies strictly inside the open segment and "
          "the point at it is exactly on the closed edge's line (C05_crossing_parameter); the pieces start at 0, end at 1 and are "
          "linked (C05_pieces_partition); the interval-cover test behind 'kept run covered' is sound (C05_cover_test_sound); the "
          "strict input class general_position_C05 is general position of the whole input, open and closed edges alike "
          "(C05_hypothesis; a polyline folding back on itself is outside it, C05_foldback_outside_hypothesis, and is judged in the "
          "broad class); plus (added by the integrator) the sweep-line toggle logic for all event histories.  The extracted "
          "specification is compared with Clipper64::Execute (paths and polytree, 16 rule combinations, two precision builds) on "
          "generated inputs of two classes.  Strict class (whole input in general position, 7 coordinate regimes within the "
          "library's coordinate domain): every solution vertex/segment within 1.5 of one subject segment, kept runs covered and "
          "dropped runs uncovered outside 3 units of a cut, length within 3 units per cut.  Broad class (closed paths in general "
          "position, open polylines arbitrary: vertices 0..3 units from the clip boundary just crossed, hairpins 1-2 units wide, "
          "segments through or past the tip of a closed vertex, fold-backs, loops; coordinates < 2^53), VALIDATED ONLY by a "
          "Coq-defined robust pointwise test: at points >= 3 units from every closed edge the solution must contain what must be "
          "kept (within 2 units) and nothing that must be dropped; off-subject vertices > 1.5.  Both classes: closed solution "
          "unchanged as a region by the open subjects, tree and paths execution agree, no crash."),
    note=("Trusted: Coq kernel; extraction; OCaml/python glue; C++ harness; generators.  Not proved: constancy of the winding number "
          "inside a piece (checked at 3 interior points of every piece of every strict case instead); the convexity argument that "
          "reduces 'segment within 1.5' to its two end points; the soundness of the margin and length-enclosure arithmetic; that a "
          "point >= 3 units from every closed edge shares its cell with everything within 3 units (used on paper by the broad-class "
          "test; no theorem covers the broad class); and everything geometric inside the engine (cut positions, rounding, joining) "
          "— validated against the specification, not proved.  On coordinates >= 2^53 the property fails (binary64 cut points; known "
          "finding open.cut-inexact@beyond-2^53); the key of such a failure is selected by a paper forward-error bound, not a theorem."),
    technique='Coq specification oracle + soundness lemmas for its checker + API/specification correspondence (SPEC+O)',
    category='proof',
)

CT = {1: 'Intersection', 2: 'Union', 3: 'Difference', 4: 'Xor'}
FR = {0: 'EvenOdd', 1: 'NonZero', 2: 'Positive', 3: 'Negative'}
ALL_COMBOS = [(ct, fr) for ct in CT for fr in FR]
PRIORITY = ['crash.open-boolop', 'execute-returned-false', 'open.cut-inexact', 'open.cut-displaced', 'open.vertex-off-subject', 'open.segment-off-subject', 'open.piece-extra',
            'open.piece-missing', 'open.length', 'open.tree-vs-paths', 'open.closed-solution-changed']


def tup(ps):
    return [[(int(v[0]), int(v[1])) for v in p] for p in ps]


def bool_line(ct, fr, pc, rs, tree, S, O, C):
    return 'BOOL %d %d %d %d %d %s %s %s' % (ct, fr, pc, rs, tree, vf.fmt_paths(S), vf.fmt_paths(O), vf.fmt_paths(C))


def parse_bool(line):
    t = line.split()
    if not t or t[0] not in ('ok', 'fail'):
        return None
    closed, pos = vf.parse_paths(t, 1)
    opn, pos = vf.parse_paths(t, pos)
    return dict(ok=t[0] == 'ok', closed=closed, open=opn, rest=t[pos:])


def parse_report(s):
    t = s.split()
    r, i = {}, 0

    def take(tag, width, conv):
        nonlocal i
        assert t[i] == tag, (tag, t[i:i + 3])
        n = int(t[i + 1]); i += 2
        first = None
        if n:
            first = [conv(x) for x in t[i:i + width]]; i += width
        return n, first
    r['V'] = take('V', 2, int)
    r['S'] = take('S', 4, int)
    r['E'] = take('E', 4, int)
    n, f = take('M', 6, str)
    r['M'] = (n, ([int(x) for x in f[:4]] + [float(x) for x in f[4:]]) if f else None)
    assert t[i] == 'L'
    r['len_ok'] = t[i + 1] == '1'
    r['len'] = [int(x) for x in t[i + 2:i + 7]]
    assert t[i + 7] == 'K'
    r['kept_runs'] = int(t[i + 8])
    return r


GEO = ('open.vertex-off-subject', 'open.segment-off-subject', 'open.piece-extra', 'open.piece-missing', 'open.length')
BEYOND = '@beyond-2^53'
MAX_COORD = (2 ** 63 - 1) >> 2      # clipper.core.h MAX_COORD: the coordinate domain of the library


def beyond53(case):
    """some coordinate is not below 2^53: binary64 (in which the engine computes every cut point) has spacing >= 2 there"""
    return polys.maxabs([case['S'], case['C'], case['O']]) >= 2 ** 53


SHALLOW_KEYS = ('open.piece-extra', 'open.piece-missing', 'open.length')


def shallow_tols(case):
    """the property's tolerances with only the margin along the subject widened to 3 + 2/sin(smallest crossing angle); None when no
    open x closed crossing is shallow (classification only, see gen/openpaths.py shallow_margin)"""
    if '_shallow' not in case:
        m = openpaths.shallow_margin(case['S'], case['C'], case['O'])
        case['_shallow'] = None if m is None else (3, 2, m)
    return case['_shallow']


def relaxed_tols(case):
    """the property's tolerances widened by what binary64 rounding of the cut points of this input can explain
    (classification only: a failure beyond 2^53 is a violation either way, this decides its key)"""
    if '_relaxed' not in case:
        D = openpaths.rounding_bound(case['S'], case['C'], case['O'])
        case['_relaxed'] = (3 + 2 * D, 2, 3 + 2 * D)
    return case['_relaxed']


def open_line(tols, c, sols):
    parts = ['OPEN %d %d %d' % tols, vf.fmt_paths(c['S']), vf.fmt_paths(c['C']), vf.fmt_paths(c['O']), str(len(sols))]
    for ct, fr, sol in sols:
        parts.append('%d %d %s' % (ct, fr, vf.fmt_paths(sol)))
    return ' '.join(parts)


def report_clean(rep):
    return not (rep['V'][0] or rep['S'][0] or rep['E'][0] or rep['M'][0]) and rep['len_ok']


def len_units(v):
    return v / 2.0 ** 32


def evaluate(ctx, exes, oracle, cases, combos_of=None, count=True):
    """Run every case under its rule combinations on every build (paths/tree, with/without the open subjects) and
    compare with the specification.  Returns (failures, stats); a failure is a dict with key/what/replay fields."""
    combos_of = combos_of or (lambda c: ALL_COMBOS)
    jobs, lines = [], {b: [] for b in exes}
    for ci, c in enumerate(cases):
        for (ct, fr) in combos_of(c):
            pc, rs = c.get('pc'), c.get('rs')
            if pc is None:
                pc, rs = ctx.rng.below(2), ctx.rng.below(2)
            for b in exes:
                if c.get('build') and c['build'] != b:
                    continue
                jobs.append((ci, b, ct, fr, pc, rs))
                lines[b] += [bool_line(ct, fr, pc, rs, 0, c['S'], c['O'], c['C']), bool_line(ct, fr, pc, rs, 0, c['S'], [], c['C']),
                             bool_line(ct, fr, pc, rs, 1, c['S'], c['O'], c['C']), bool_line(ct, fr, pc, rs, 1, c['S'], [], c['C'])]
    outs, fails_out = {}, []
    for b in exes:
        outs[b] = run_harness(exes[b], lines[b])
    idx = {b: 0 for b in exes}
    per_case = {ci: [] for ci in range(len(cases))}
    for (ci, b, ct, fr, pc, rs) in jobs:
        four = [parse_bool(x) for x in outs[b][idx[b]:idx[b] + 4]]
        raw = outs[b][idx[b]:idx[b] + 4]
        idx[b] += 4
        per_case[ci].append(dict(b=b, ct=ct, fr=fr, pc=pc, rs=rs, A=four[0], B=four[1], T=four[2], TB=four[3], raw=raw))
    # specification oracle: one line per case (the spec is computed once and shared by all solutions)
    ol = []
    for ci, c in enumerate(cases):
        ol.append(open_line((3, 2, 3), c, [(r['ct'], r['fr'], r['A']['open']) for r in per_case[ci] if r['A'] is not None]))
    res, fails = vf.par_lines(oracle, ol, chunk=1, timeout=1500)
    if fails:
        raise vf.Infra('openclip oracle failed: %s' % str(fails[0][2] or fails[0][3])[:600])
    stats = dict(gp_rejected=0, inconsistent=0, nontrivial=set(), accepted=[], broad=[], broad_runs=0, broad_nontrivial=set(), broad_not_judged_beyond_2_53=0,
                 skipped_after_crashes=0)
    recheck = []     # (failure dict) geometric failures on coordinates beyond 2^53, to be classified with relaxed tolerances
    recheck_shallow = []     # strict-class coverage/length failures of cases with a shallow crossing
    for ci, (c, line) in enumerate(zip(cases, res)):
        if line.startswith('ERR'):
            raise vf.Infra('openclip oracle error: %s' % line[:300])
        if line.strip() == 'gp=0' or polys.maxabs([c['S'], c['C'], c['O']]) > MAX_COORD:
            stats['gp_rejected'] += 1      # not in general position, or outside the coordinate domain of the library
            continue
        parts = line.split(' | ')
        head = dict(kv.split('=') for kv in parts[0].split())
        if head['const'] != '1':
            # the winding number is not constant inside a piece: the specification would be ambiguous; the case is not used
            stats['inconsistent'] += 1
            continue
        broad = head.get('gp') == '2'      # closed paths in general position, open polylines not: judged by the robust pointwise tests
        (stats['broad'] if broad else stats['accepted']).append(ci)
        big = beyond53(c)
        reports = iter(parts[1:])
        for r in per_case[ci]:
            base = dict(S=c['S'], C=c['C'], O=c['O'], ct=r['ct'], fr=r['fr'], pc=r['pc'], rs=r['rs'], build=r['b'], regime=c.get('regime', '?'))
            tag = '%s/%s pc=%d rs=%d build=%s regime=%s' % (CT[r['ct']], FR[r['fr']], r['pc'], r['rs'], r['b'], c.get('regime', '?'))
            found = []
            if any(r[k] is None for k in ('A', 'B', 'T', 'TB')):
                bad = [(k, x) for k, x in zip(('A', 'B', 'T', 'TB'), r['raw']) if r[k] is None]
                if all(x == 'SKIP' for k, x in bad):
                    stats['skipped_after_crashes'] += 1
                    if r['A'] is not None:
                        next(reports)
                    continue
                bad = [(k, x) for k, x in bad if x != 'SKIP']
                found.append(('crash.open-boolop', '%s: boolean operation crashed, hung or threw (%s run: paths/tree, with/without open subjects): %s'
                              % (tag, bad[0][0], bad[0][1][:200]), dict(run=bad[0][0])))
                if r['A'] is not None:
                    next(reports)
                fails_out += [dict(key=k, ci=ci, what=w, replay=dict(base, **x)) for k, w, x in found]      # a crash is a crash on any input
                continue
            rep = parse_report(next(reports))
            if broad and big:
                # near-degenerate shapes are only meaningful in units; beyond 2^53 the cut points are known to be inexact: not judged
                stats['broad_not_judged_beyond_2_53'] += 1
                continue
            if broad:
                stats['broad_runs'] += 1
            if count:
                ctx.count('evaluations')
                ctx.count('harness_runs', 4)
                ctx.hist('open_solution_paths', min(len(r['A']['open']), 8))
            if broad:
                if rep['kept_runs'] > 0:
                    stats['broad_nontrivial'].add((ci, r['ct'], r['fr']))
            elif rep['len'][4] > 0 and rep['kept_runs'] > 0:
                stats['nontrivial'].add((ci, r['ct'], r['fr']))
            for k in ('A', 'B', 'T', 'TB'):
                if not r[k]['ok']:
                    found.append(('execute-returned-false', '%s: Execute returned false (%s run)' % (tag, k), dict(run=k)))
            A = r['A']['open']
            how_judged = ('  [open polylines not in general position (near closed edges / close crossings / folding back): judged pointwise, only at points '
                          '>= 3 units from every closed edge]') if broad else ''
            if rep['V'][0]:
                found.append(('open.vertex-off-subject', '%s: %d solution vertices farther than 1.5 from every open subject segment, e.g. %s%s'
                              % (tag, rep['V'][0], tuple(rep['V'][1]), how_judged), dict(vertex=rep['V'][1], solution=A)))
            if rep['S'][0]:
                found.append(('open.segment-off-subject', ('%s: %d solution segments with a quarter point farther than 1.5 from every subject segment, e.g. %s%s' if broad else
                                                           '%s: %d solution segments with no single subject segment within 1.5 of both ends, e.g. %s%s')
                              % (tag, rep['S'][0], rep['S'][1], how_judged), dict(segment=rep['S'][1], solution=A)))
            if rep['E'][0]:
                found.append(('open.piece-extra', ('%s: %d solution segments with a point >= 3 units from every closed edge where open subjects do not survive, e.g. %s%s' if broad else
                                                   '%s: %d solution segments over a dropped part of the subject (beyond 3 units of a cut), e.g. %s%s')
                              % (tag, rep['E'][0], rep['E'][1], how_judged), dict(segment=rep['E'][1], solution=A)))
            if rep['M'][0]:
                m = rep['M'][1]
                if broad:
                    found.append(('open.piece-missing', '%s: %d sample points of the open subject that must be kept (>= 3 units from every closed edge) have no solution segment '
                                  'within 2 units, e.g. parameter %.6f of subject segment %s%s' % (tag, rep['M'][0], m[4], m[:4], how_judged),
                                  dict(subject_segment=m[:4], run=m[4:], solution=A)))
                else:
                    found.append(('open.piece-missing', '%s: %d kept runs not covered by the solution, e.g. parameters [%.6f, %.6f] of subject segment %s'
                                  % (tag, rep['M'][0], m[4], m[5], m[:4]), dict(subject_segment=m[:4], run=m[4:], solution=A)))
            if not rep['len_ok']:
                L = rep['len']
                found.append(('open.length', '%s: solution length %.3f, exact kept length %.3f, %d cuts (allowed difference %d)'
                              % (tag, len_units(L[0]), len_units(L[2]), L[4], 3 * L[4]), dict(solution=A, lengths=L)))
            if sorted(map(tuple, map(lambda p: tuple(map(tuple, p)), A))) != sorted(map(tuple, map(lambda p: tuple(map(tuple, p)), r['T']['open']))):
                found.append(('open.tree-vs-paths', '%s: polytree execution returned different open paths (%d) than paths execution (%d)'
                              % (tag, len(r['T']['open']), len(A)), dict(solution=A, tree_solution=r['T']['open'])))
            for with_o, without_o, how in ((r['A'], r['B'], 'paths'), (r['T'], r['TB'], 'tree')):
                if vf.canon_paths(with_o['closed']) != vf.canon_paths(without_o['closed']):
                    nd, q = region_differs(ctx, oracle, with_o['closed'], without_o['closed'], c.get('k', 1))
                    if count:
                        ctx.count('closed_paths_differ_with_open')
                    if nd:
                        found.append(('open.closed-solution-changed', '%s (%s): adding the open subjects changed the closed solution region at %d sample points, e.g. (%s, %s)'
                                      % (tag, how, nd, q[0] / 2.0, q[1] / 2.0), dict(point=[q[0] / 2.0, q[1] / 2.0], closed_with=with_o['closed'], closed_without=without_o['closed'], mode=how)))
                    elif count:
                        ctx.count('closed_paths_differ_but_region_equal')
            for k, w, x in found:
                f = dict(key=k, ci=ci, what=w, replay=dict(base, **x))
                if k in GEO and big:
                    recheck.append(f)
                elif k in SHALLOW_KEYS and not broad and shallow_tols(c) is not None:
                    recheck_shallow.append(f)
                fails_out.append(f)
    # classification of geometric failures beyond 2^53: explained by the binary64 resolution of the cut points?
    if recheck:
        groups = {}
        for f in recheck:
            r = f['replay']
            groups.setdefault((f['ci'], r['ct'], r['fr'], r['build']), []).append(f)
        idents = sorted(groups)
        rl = [open_line(relaxed_tols(cases[ci]), cases[ci], [(ct, fr, groups[(ci, ct, fr, b)][0]['replay']['solution'])]) for (ci, ct, fr, b) in idents]
        res2, fails = vf.par_lines(oracle, rl, timeout=1500)
        if fails:
            raise vf.Infra('openclip oracle failed (relaxed pass): %s' % str(fails[0][2] or fails[0][3])[:600])
        for ident, line in zip(idents, res2):
            rep = parse_report(line.split(' | ')[1])
            for f in groups[ident]:
                if report_clean(rep):
                    f['what'] += ('  [coordinates >= 2^53; passes with tolerances widened to %s/%s and %s units, the forward rounding-error bound of the '
                                  'binary64 crossing formula for this input: explained by rounding of the cut points]' % relaxed_tols(cases[ident[0]]))
                    f['key'] = 'open.cut-inexact' + BEYOND
                else:
                    f['what'] += '  [coordinates >= 2^53; persists with tolerances widened to %s/%s and %s units: NOT explained by rounding]' % relaxed_tols(cases[ident[0]])
                    f['key'] += BEYOND
    # classification of coverage/length failures next to a shallow crossing: only the margin ALONG the subject is widened,
    # the 1.5 units across stay
    if recheck_shallow:
        groups = {}
        for f in recheck_shallow:
            r = f['replay']
            groups.setdefault((f['ci'], r['ct'], r['fr'], r['build']), []).append(f)
        idents = sorted(groups)
        rl = [open_line(shallow_tols(cases[ci]), cases[ci], [(ct, fr, groups[(ci, ct, fr, b)][0]['replay']['solution'])]) for (ci, ct, fr, b) in idents]
        res2, fails = vf.par_lines(oracle, rl, timeout=1500)
        if fails:
            raise vf.Infra('openclip oracle failed (shallow pass): %s' % str(fails[0][2] or fails[0][3])[:600])
        for ident, line in zip(idents, res2):
            rep = parse_report(line.split(' | ')[1])
            m = shallow_tols(cases[ident[0]])[2]
            if report_clean(rep):
                for f in groups[ident]:
                    f['what'] += ('  [an open segment crosses a closed edge at a shallow angle; passes when the margin along the subject around a cut is '
                                  'widened from 3 to %d = 3 + 2/sin(angle) units, with the 1.5 units across unchanged: the cut was placed on the boundary of '
                                  'a later scanbeam]' % m)
                    f['key'] = 'open.cut-displaced@shallow-crossing'
    return fails_out, stats


def run_harness(exe, lines, shard=256, max_bad=24):
    """line-in/line-out over all cores; a shard in which the harness crashed or hung is re-run line by line so that
    only the crashing lines are lost (their output is 'CRASH rc=...').  After max_bad crashing lines the remaining
    lines of failing shards are not evaluated at all ('SKIP'): enough replays exist by then."""
    import concurrent.futures as cf, threading
    shards = [lines[i:i + shard] for i in range(0, len(lines), shard)]
    bad = [0]
    lock = threading.Lock()

    def work(sh):
        p = vf.run_lines(exe, sh, timeout=20)
        o = p.stdout.split('\n')[:-1]      # drops '' after a complete last line, or a partial line of a killed process
        if p.returncode == 0 and len(o) == len(sh):
            return o
        res = []
        for l in sh:
            if bad[0] >= max_bad:
                res.append('SKIP')
                continue
            q = vf.run_lines(exe, [l], timeout=5)
            t = q.stdout.strip()
            if q.returncode == 0 and t:
                res.append(t)
            else:
                with lock:
                    bad[0] += 1
                res.append('CRASH rc=%s %s' % (q.returncode, q.stderr.strip()[-160:].replace('\n', ' ')))
        return res
    with cf.ThreadPoolExecutor(max_workers=vf.NPROC) as ex:
        return [l for o in ex.map(work, shards) for l in o]


def region_differs(ctx, oracle, A, B, k):
    """(d) fallback when the closed paths are not identical: compare the two solutions as regions at sample points
    farther than 2 + |coord|*2^-42 from every edge of both (the tolerance of C01)."""
    if not A and not B:
        return 0, None
    pts = polys.sample_points_doubled(ctx.rng.fork(77), A, B, 24, k=k)
    cm = polys.maxabs([A, B])
    td = 2 ** 41
    tn = 4 * td + cm
    line = 'WNDIFF %d %d %s %s %d %s' % (tn, td, vf.fmt_paths(polys.double_paths(A)), vf.fmt_paths(polys.double_paths(B)), len(pts), vf.fmt_path(pts))
    out = vf.run_lines(oracle, [line]).stdout.split()
    if not out or out[0] == 'ERR':
        raise vf.Infra('WNDIFF failed: %s' % ' '.join(out)[:300])
    n = int(out[0])
    return n, ((int(out[1]), int(out[2])) if n else None)


def primary(fails):
    """one failure per (case, rules): the most specific key"""
    def rank(f):
        k = f['key'].split('@')[0].split('+')[0]
        return PRIORITY.index(k) if k in PRIORITY else 99
    best = {}
    for f in fails:
        r = f['replay']
        ident = (f.get('ci'), r.get('ct'), r.get('fr'), r.get('build'))
        if ident not in best or rank(f) < rank(best[ident]):
            best[ident] = f
    return list(best.values())


def shrink(ctx, exes, oracle, f, budget=40, seconds=45):
    """greedy delta debugging: drop paths / vertices while the same key is still reported for the same rules"""
    import time
    t0 = time.time()
    r = f['replay']
    cur = dict(S=tup(r['S']), C=tup(r['C']), O=tup(r['O']))
    fixed = dict(pc=r['pc'], rs=r['rs'], build=r['build'], regime=r.get('regime', '?'))
    best = f
    for _ in range(budget):
        if time.time() - t0 > seconds:
            break
        cands = [dict(c, **fixed) for c in openpaths.shrink_candidates(cur['S'], cur['C'], cur['O'])]
        if not cands:
            break
        fails, _ = evaluate(ctx, {r['build']: exes[r['build']]}, oracle, cands, combos_of=lambda c: [(r['ct'], r['fr'])], count=False)
        hit = [x for x in fails if x['key'] == f['key'] and x['ci'] is not None]
        if not hit:
            break
        hit.sort(key=lambda x: sum(len(p) for p in cands[x['ci']]['S'] + cands[x['ci']]['C'] + cands[x['ci']]['O']))
        best = hit[0]
        c = cands[best['ci']]
        cur = dict(S=c['S'], C=c['C'], O=c['O'])
    return best


def load_corpus():
    cases = []
    for p in sorted(glob.glob(os.path.join(vf.VERIF, 'corpus', 'C05', '*.case'))):
        for line in open(p):
            line = line.strip()
            if line and not line.startswith('#'):
                d = json.loads(line)
                cases.append(dict(S=tup(d['S']), C=tup(d['C']), O=tup(d['O']), regime='corpus:' + os.path.basename(p), k=1,
                                  info=dict(kinds=('corpus', ''), fams=['corpus'], crossings=0)))
    return cases


def place_case(rng, S, C, O, info, idx):
    """move a small-box case into a coordinate regime (strict class: exact scaling + translation) or translate it (broad class);
    None when it would leave the coordinate domain of the library"""
    if info.get('broad'):
        # near-degenerate shapes are measured in units: translate only (offsets below 2^53), never scale
        off = rng.choice(openpaths.BROAD_OFFSETS)
        tf = (1, rng.choice([-1, 0, 1]) * off, rng.choice([-1, 0, 1]) * off)
        return dict(S=polys.scale_translate(S, *tf), C=polys.scale_translate(C, *tf), O=openpaths.scale_open(O, tf),
                    regime='near+%d' % off, k=1, info=info)
    reg = polys.REGIMES[idx % len(polys.REGIMES)] if not rng.chance(1, 4) else polys.REGIMES[0]
    S2, C2, tf = polys.apply_regime(rng, S, C, reg)
    O2 = openpaths.scale_open(O, tf)
    if polys.maxabs([S2, C2, O2]) > MAX_COORD:
        # the library's coordinate domain is |x|,|y| <= MAX_COORD = INT64_MAX >> 2 (clipper.core.h): scale only, do not translate
        tf = (tf[0], 0, 0)
        S2, C2, O2 = polys.scale_translate(S, tf[0], 0, 0), polys.scale_translate(C, tf[0], 0, 0), openpaths.scale_open(O, tf)
    if polys.maxabs([S2, C2, O2]) > MAX_COORD:
        return None
    return dict(S=S2, C=C2, O=O2, regime=reg[0], k=tf[0], info=info)


def gen_cases(ctx, n, n_ends=0):
    cases, rng = [], ctx.rng
    while len(cases) < n:
        S, C, O, info = openpaths.gen_open_case(rng)
        c = place_case(rng, S, C, O, info, len(cases))
        if c is not None:
            cases.append(c)
    # the END families (gen/openpaths.py gen_open_ends_case): open paths whose end vertices are hot local maxima / minima of the sweep,
    # shared end points, ends on closed vertices/edges, horizontals next to local minima
    while len(cases) < n + n_ends:
        S, C, O, info = openpaths.gen_open_ends_case(rng)
        c = place_case(rng, S, C, O, info, len(cases))
        if c is not None:
            cases.append(c)
    return cases


INV_FIELDS = ('probes', 'open_hot', 'front_viol', 'shared_end_top', 'lm_both', 'lb_horz_right', 'lb_horz_left', 'rb_horz', 'same', 'ok')
INV_KEYS = dict(
    front_viol=('sweep-invariant:open-front-edge-ascends',
                'a hot open-path edge is the front edge of its outrec although it descends its input path (or the back edge although it ascends, or '
                'neither): the two edges of an open local maximum can then be on the same side, which is the case AddLocalMaxPoly repairs with '
                'SwapFrontBackSides or gives up on (succeeded_ = false)'),
    shared_end_top=('sweep-invariant:open-end-vertex-top-shared',
                    'two active edges have the same OpenStart/OpenEnd vertex as vertex_top: the pair AddLocalMaxPoly\'s IsOpenEnd branches are written for'),
    rb_horz=('sweep-invariant:right-bound-starts-horizontal',
             'a local minimum with two bounds whose ascending (right) bound starts with a horizontal edge: InsertLocalMinimaIntoAEL then orders the bounds by '
             'IsHeadingLeftHorz(*right_bound), which no input reached before'),
    notsame=('tie-break:sweep-replica', 'the step-by-step replica of ClipperBase::ExecuteInternal in harness/cx_bool.cpp (OPENINV) no longer returns what Execute returns: '
             'the sweep loop changed; the invariant probes are void until the replica is updated'))


def sweep_invariants(ctx, exe, cases, idxs):
    """Evidence for two pieces of the engine that no input executes (see ctx.cov['unreachable_code']): OPENINV runs the sweep step by step and
    examines the active edge list after every step.  Any non-zero count is a correspondence break (nofail): the structural argument that makes
    those lines unreachable no longer holds for the code under test."""
    lines, owner = [], []
    for ci in idxs:
        c = cases[ci]
        if polys.maxabs([c['S'], c['C'], c['O']]) > MAX_COORD:
            continue
        for (ct, fr) in ALL_COMBOS:
            lines.append('OPENINV %d %d %d %d %s %s %s' % (ct, fr, ctx.rng.below(2), ctx.rng.below(2), vf.fmt_paths(c['S']), vf.fmt_paths(c['O']), vf.fmt_paths(c['C'])))
            owner.append((ci, ct, fr))
    outs = run_harness(exe, lines)
    tot = {k: 0 for k in INV_FIELDS}
    tot.update(runs=0, runs_with_horizontal_left_bound=0, runs_with_hot_open_edges=0, not_evaluated=0)
    first = {}
    for (ci, ct, fr), line, out in zip(owner, lines, outs):
        t = out.split()
        if len(t) != 1 + len(INV_FIELDS) or t[0] != 'inv':
            tot['not_evaluated'] += 1      # a crash here is reported by the main evaluation (same input, BOOL)
            continue
        v = dict(zip(INV_FIELDS, map(int, t[1:])))
        tot['runs'] += 1
        for k in INV_FIELDS:
            tot[k] += v[k]
        tot['runs_with_horizontal_left_bound'] += 1 if v['lb_horz_right'] + v['lb_horz_left'] else 0
        tot['runs_with_hot_open_edges'] += 1 if v['open_hot'] else 0
        for k in ('front_viol', 'shared_end_top', 'rb_horz'):
            if v[k]:
                first.setdefault(k, (ci, ct, fr, line, out))
        if not v['same']:
            first.setdefault('notsame', (ci, ct, fr, line, out))
    for k, (ci, ct, fr, line, out) in first.items():
        key, what = INV_KEYS[k]
        c = cases[ci]
        ctx.violation(key, '%s/%s: %s  [harness: %s]' % (CT[ct], FR[fr], what, out), nofail=True,
                      replay=dict(S=c['S'], C=c['C'], O=c['O'], ct=ct, fr=fr, build='plain', regime=c.get('regime', '?'), harness_line=line, harness_output=out))
    return tot


def run(ctx):
    # vf.Rng(seed) is splitmix64 started at seed * increment: the stream of seed n+1 is the stream of seed n advanced by one
    # draw, so consecutive seeds can generate the very same cases.  Forking (the new state is a hashed OUTPUT) decorrelates them.
    ctx.rng = ctx.rng.fork(505)
    pr = vf.coq_props(ctx, 'C05')
    exes = {}
    try:
        exes['plain'] = vf.build_cpp(ctx, 'cx_bool.cpp', 'plain')
        exes['hi'] = vf.build_cpp(ctx, 'cx_bool.cpp', 'hi')
    except vf.BuildFailure as e:
        ctx.violation('tie-break:cx_bool', 'boolean harness no longer builds: %s' % str(e)[-600:], replay=dict(error=str(e)[-2000:]), nofail=True)
        return
    oracle = vf.oracle_build('openclip')
    broken = not pr['ok']
    n = 560 if ctx.quick else 4200
    if broken:
        n *= 3      # search budget after a proof break
    corpus = load_corpus()
    ctx.cov['corpus_cases'] = len(corpus)
    n_ends = 120 if ctx.quick else 900
    cases = corpus + gen_cases(ctx, n, n_ends)
    ctx.log('%d cases generated (+%d corpus)' % (len(cases) - len(corpus), len(corpus)))
    fails, stats = evaluate(ctx, exes, oracle, cases)
    ctx.log('evaluated: %d failing (case, rules, build)' % len(primary(fails)))
    ctx.cov['genpos_rejected_by_coq_predicate'] = stats.get('gp_rejected', 0)
    ctx.cov['cases_with_nonconstant_piece_rejected'] = stats.get('inconsistent', 0)
    ctx.cov['cases_accepted'] = len(stats.get('accepted', []))
    ctx.cov['rule_runs_skipped_after_crashes'] = stats.get('skipped_after_crashes', 0)
    ctx.cov['broad_class'] = dict(
        what=('cases whose closed paths are in general position but whose open polylines are not (vertices 0..3 units from closed edges, hairpins 1-2 units '
              'wide through an edge, grazing vertices, fold-backs, first = last): judged by the robust pointwise tests (check_open_robust), coordinates < 2^53'),
        cases=len(stats.get('broad', [])), rule_runs=stats.get('broad_runs', 0), distinct_nontrivial=len(stats.get('broad_nontrivial', ())),
        not_judged_beyond_2_53=stats.get('broad_not_judged_beyond_2_53', 0))
    ctx.cov['distinct_nontrivial'] = len(stats.get('nontrivial', ())) + len(stats.get('broad_nontrivial', ()))
    ctx.cov['distinct_nontrivial_strict_class'] = len(stats.get('nontrivial', ()))
    for ci in stats.get('accepted', []) + stats.get('broad', []):
        c = cases[ci]
        ctx.hist('regime', 'corpus' if c['regime'].startswith('corpus') else 'near (unscaled, translated)' if c['regime'].startswith('near') else c['regime'])
        ctx.hist('open_vertices', sum(len(p) for p in c['O']))
        ctx.hist('open_paths', len(c['O']))
        ctx.hist('closed_edges', min(60, sum(len(p) for p in c['S'] + c['C'])) // 10 * 10)
        ctx.hist('crossings', min(40, c['info']['crossings']) // 5 * 5)
        for fam in c['info']['fams']:
            ctx.hist('open_family', fam)
        ctx.hist('closed_kinds', '%s/%s' % tuple(c['info']['kinds']))
    # END families + step-by-step sweep probes (coverage round): what was generated, and the measured structural facts behind the
    # statement that two pieces of the engine cannot be executed by any input
    judged = set(stats.get('accepted', []) + stats.get('broad', []))
    ends = [ci for ci, c in enumerate(cases) if c.get('info', {}).get('ends')]
    shape = {}
    for ci in ends:
        if ci in judged:
            for k, v in openpaths.end_shape_stats(cases[ci]['O']).items():
                shape[k] = shape.get(k, 0) + v
    probe_idx = ends + [ci for ci in range(len(cases)) if ci % 4 == 0 and ci not in set(ends)]
    inv = sweep_invariants(ctx, exes['plain'], cases, probe_idx)
    ctx.count('harness_runs', 2 * inv['runs'])
    ctx.cov['open_end_families'] = dict(
        what=('gen/openpaths.py gen_open_ends_case: zig-zag polylines with interior local minima and maxima whose end vertices lie inside a closed path and are '
              'reached going up or going down (zz-ends-in), 2-3 polylines sharing an end point reached from above and below (shared-ends), ends exactly on a '
              'closed vertex or a lattice point of a closed edge (end-on-closed), ends and interior extrema on the scanline of other vertices (end-shared-y), '
              'horizontal runs at local minima/maxima heading left and right, also as first/last segment (horz-at-min, horz-end-in); closed paths from '
              'gen/polys.py, flat-topped/-bottomed rectangles, trapezoids and pentagons (horizontal closed edges at local minima), multiply wound sets. '
              'Polylines in general position by the Coq predicate are scaled into the 7 regimes and judged by the strict specification, the others are '
              'translated and judged by the robust pointwise tests.'),
        cases_generated=len(ends), share_of_stream='%d of %d generated cases' % (len(ends), len(cases) - len(corpus)),
        cases_judged=len([ci for ci in ends if ci in judged]),
        judged_strict=len([ci for ci in ends if ci in set(stats.get('accepted', []))]), judged_broad=len([ci for ci in ends if ci in set(stats.get('broad', []))]),
        distinct_nontrivial=len([1 for (ci, ct, fr) in list(stats.get('nontrivial', ())) + list(stats.get('broad_nontrivial', ())) if ci in set(ends)]),
        polyline_shapes_in_judged_cases=shape)
    ctx.cov['unreachable_code'] = dict(
        what=('clipper.engine.cpp AddLocalMaxPoly `if (IsOpenEnd(e1)) SwapFrontBackSides(..) else if (IsOpenEnd(e2)) SwapFrontBackSides(..)` (hence '
              'SwapFrontBackSides) and InsertLocalMinimaIntoAEL `else if (IsHorizontal(*right_bound)) { if (IsHeadingLeftHorz(*right_bound)) SwapActives(..) }` '
              '(hence IsHeadingLeftHorz) are executed by no input: (1) AddPaths_ flags as local minimum the LAST vertex of a flat bottom (prev_v at the first '
              'strictly rising edge; the wrap-around case only when the last ring vertex is not level with the first), so vertex->next of a local minimum with '
              'two bounds is strictly higher and only the descending (left) bound can start with a horizontal; OpenStart/OpenEnd minima have one bound.  '
              '(2) AddLocalMaxPoly receives open edges only from DoMaxima and DoHorizontal, with e1.vertex_top == e2.vertex_top; two active edges reach the same '
              'vertex only from its two ring neighbours, and for an OpenStart/OpenEnd vertex one of those is the closing link last->first, which no bound '
              'traverses (no left bound is created at an OpenStart minimum, an OpenStart maximum ends its bound in DoMaxima/DoHorizontal); moreover every '
              'assignment of front_edge/back_edge of an open outrec (StartOpenPath, AddLocalMinPoly, IntersectEdges, JoinOutrecPaths) makes the ascending '
              '(wind_dx > 0) edge the front edge, and the two edges of a local maximum have opposite wind_dx, so IsFront(e1) != IsFront(e2).  A change confined '
              'to those lines cannot alter any result; a change to the code that keeps them dead (the flagging of minima, the front/back assignments, the '
              'guards) is what the END families, the existing judgement and the probes below are aimed at.'),
        how_measured=('harness/cx_bool.cpp OPENINV: the statements of ClipperBase::ExecuteInternal run one by one through private access, the active edge list '
                      'examined after each InsertLocalMinimaIntoAEL / DoHorizontal / DoIntersections / DoTopOfScanbeam; its solution must equal Execute\'s.  '
                      'All END-family cases and every 4th other case, 16 rule combinations, default build.  front_viol, shared_end_top, rb_horz are the three '
                      'conditions under which the lines above would run; a non-zero count is reported as sweep-invariant:* (correspondence break).'),
        measured=inv)
    if stats.get('accepted'):
        c = cases[stats['accepted'][-1]]
        ctx.sample(dict(S=c['S'], C=c['C'], O=c['O'], regime=c['regime'],
                        options='all 16 clip type x fill rule; random PreserveCollinear/ReverseSolution; paths+tree, with/without open subjects; builds ' + ','.join(exes)))
    # decide: one (shrunk) replay per distinct key
    seen = {}
    for f in primary(fails):
        seen.setdefault(f['key'], []).append(f)
    import time
    t_shrink = time.time()
    for key, fs in seen.items():
        f = fs[0]
        if f.get('ci') is not None and not any(k['key'] == key for k in ctx.known) and time.time() - t_shrink < (150 if ctx.quick else 900):
            try:
                f = shrink(ctx, exes, oracle, f)
            except vf.Infra:
                pass
            ctx.log('shrunk %s' % key)
        ctx.violation(key, f['what'] + ('  [%d failing (case, rules) with this key]' % len(fs)), replay=f['replay'])
    ctx.cov['rule'] = ('closed subject/clip sets from gen/polys.py (8 families) plus multiply-wound sets, in general position, with 1-3 open polylines of 2-8 '
                       'vertices.  3 cases in 4 (strict class): 9 families (random walks incl. proper self-crossings, chords through everything, '
                       'inside->outside, nearly horizontal zigzags, exactly axis-parallel, vertices on closed-vertex scanlines, flat local extrema made of '
                       'several horizontal segments, peak + horizontal crossing its own arm, vertices 4-6 units from closed edges, two-point), accepted by '
                       'the extracted Coq predicate general_position_C05 and scaled/translated exactly into 7 coordinate regimes up to 2^61.  1 case in 4 '
                       '(broad class, Coq predicate judged_broad): at least one polyline from 7 near-degenerate families (a vertex 0..3 units beyond the '
                       'closed edge just crossed followed by 1-2 more points, hairpins 1-3 units wide through an edge, grazing vertices, long segments '
                       'passing 0..5 units from a closed vertex, 180-degree spikes, horizontal spikes, first=last loops), translated by 0..2^51, never '
                       'scaled.  In addition 120 (quick) / 900 (thorough) cases of the END families (cov.open_end_families: hot end vertices at local '
                       'maxima/minima, shared end points, ends on closed vertices/edges, horizontals at local minima heading left and right), judged in the '
                       'same two classes.  Each case runs under all 16 clip type x fill rule combinations, random PreserveCollinear/ReverseSolution, paths and '
                       'polytree execution, with and without the open subjects, default and CLIPPER2_HI_PRECISION builds; non-trivial = distinct (case, clip '
                       'type, fill rule) whose specification has at least one cut and one kept run (strict) / at least one robustly kept sample point (broad)')
    ctx.assumptions += ['quantifier read as: closed paths in general position (base/GenPos.v), open polylines arbitrary non-degenerate polylines; inputs whose '
                        'open polylines are not in general position are judged only by the robust pointwise test (model/OpenClipSpec.v check_open_robust): '
                        'nothing within 3 units of a closed edge is judged there, and no length clause',
                        'strict class = general position as decided by model/OpenClipSpec.v general_position_C05: base/GenPos.v for the closed paths; open vertices and '
                        'closed vertices >= 3 units from the edges of the other kind; open vertices >= 3 units from every open segment they are not an end '
                        'of; every proper crossing of two input edges of any kind >= 3 units from every third input edge',
                        'constancy of the winding number inside a piece is not proved; it is checked at the 1/4, 1/2 and 3/4 points of every piece of every case',
                        'cut = boundary between a kept and a dropped run in the interior of a subject segment; lengths are compared through exact integer '
                        'enclosures (2^-32 units), no floating point is used by the oracle',
                        '(d) is decided on regions: closed solutions whose canonical paths differ are compared by winding number at sample points farther than '
                        '2+|coord|*2^-42 from all their edges (sampling, not a theorem)',
                        'the key of a failure on coordinates >= 2^53 (open.cut-inexact@beyond-2^53 or <key>@beyond-2^53) is decided with the first-order '
                        'forward error bound of the binary64 crossing formula (gen/openpaths.py rounding_bound, python, exact rationals); the bound is an '
                        'analysis on paper, not a theorem, and only selects the key - the failure is a violation either way']
    if broken and not ctx.violations:
        ctx.violation('proof-break:Properties_C05', 'Properties_C05 no longer checks: %s' % '; '.join(pr['failed'])[:800],
                      replay=dict(failed=pr['failed'], log=pr['log'][-2000:]), nofail=True)


def replay(ctx, path):
    r = json.load(open(path))['replay']
    build = r.get('build', 'plain')
    exes = {build: vf.build_cpp(ctx, 'cx_bool.cpp', build)}
    oracle = vf.oracle_build('openclip')
    case = dict(S=tup(r['S']), C=tup(r['C']), O=tup(r['O']), pc=r.get('pc', 0), rs=r.get('rs', 0), regime=r.get('regime', 'replay'), k=1)
    combos = [(r['ct'], r['fr'])] if 'ct' in r else ALL_COMBOS
    for ct, fr in combos:
        print('rules %s/%s' % (CT[ct], FR[fr]))
        print(' spec runs (lo hi kept locut hicut):', vf.run_lines(oracle, ['SPEC %d %d %s %s %s' % (ct, fr, vf.fmt_paths(case['S']), vf.fmt_paths(case['C']), vf.fmt_paths(case['O']))]).stdout.strip())
        print(' implementation:', vf.run_lines(exes[build], [bool_line(ct, fr, case['pc'], case['rs'], 0, case['S'], case['O'], case['C'])]).stdout.strip())
    fails, stats = evaluate(ctx, exes, oracle, [case], combos_of=lambda c: combos)
    ctx.cov['distinct_nontrivial'] = len(stats.get('nontrivial', ()))
    if stats.get('gp_rejected'):
        print('the closed paths are not in general position or an open polyline is degenerate (judged_broad = false): not an instance of the property')
    if stats.get('broad'):
        print('the open polylines are not in general position (general_position_C05 = false, closed paths are): judged by the robust pointwise tests')
    for f in primary(fails):
        ctx.violation(f['key'], f['what'], replay=f['replay'])
