"""C13 — results are independent of representation and obey set algebra (DESIGN 6 C13)."""
import itertools, json, os, sys
import vf
sys.path.insert(0, os.path.join(vf.VERIF, 'gen'))
import polys
from checks.C01 import bool_line, parse_bool, CT, FR

META = dict(
    text=("Coq theorems over a faithful hand model of AddPaths_ (duplicate/closing-vertex skipping, local-minimum/"
          "maximum flagging from an arbitrary start vertex) and of LocMinSorter + stable_sort: the flagged vertex ring "
          "is the same up to cyclic rotation from every start vertex, unchanged by inserted duplicate/closing "
          "vertices, minima and maxima alternate, and the sorted minima list does not depend on insertion order when "
          "minima points are distinct; and over the Coq specification of the boolean operations: invariance under "
          "path permutation, start rotation, duplicate insertion, subject/clip swap, global reversal (Positive<->"
          "Negative), equivariance under translation, integer scaling, transpose and mirror, Xor = Union minus "
          "Intersection, Difference (+) Intersection = subject.  The model is tied to the code by exact comparison "
          "of vertex_lists_/minima_list_ (private access) on generated paths.  The statement about solution paths "
          "is validated metamorphically: canonical solutions of all representations of general-position inputs must "
          "be identical for all 16 clip type x fill rule combinations, and the algebraic/geometric identities are "
          "compared through a Coq-defined region comparison at sample points outside the C01 tolerance band."),
    note=("Trusted: Coq kernel; extraction; C++ harness with private access; generators.  Not proved: that the sweep "
          "is a function of the flagged rings and sorted minima only (identity of output paths is validated, not "
          "proved); region identities of actual solutions are sampled, not proved."),
    technique='Coq proof (normalisation kernels, specification algebra) + exact metamorphic validation + region oracle',
)

FLIP = {0: 0, 1: 1, 2: 3, 3: 2}
# coordinate regimes (name, scale, offset), all results within +-2^40
REG13 = [('small', 1, 0), ('1e3', 8, 1000), ('1e6', 7919, 10 ** 6), ('2^30', 2 ** 23, 2 ** 29), ('2^40', 2 ** 32, 2 ** 38)]
LIM = 2 ** 40


def P(ps):
    return [[tuple(v) for v in p] for p in ps]


# ----------------------------------------------------------------------------- kernel correspondence (HM+X)
def kernel_path(rng):
    n = rng.range(0, 9)
    g = rng.choice([1, 2, 3, 5, 40])
    p = []
    for _ in range(n):
        if p and rng.chance(1, 5):
            p.append(p[-1])
        elif p and rng.chance(1, 4):
            p.append((rng.range(0, g), p[-1][1]))
        else:
            p.append((rng.range(0, g), rng.range(0, g)))
    if p and rng.chance(1, 4):
        p.append(p[0])
    if p and rng.chance(1, 8):
        k = 2 ** rng.choice([20, 40, 57])
        p = [(x * k - (k if rng.chance(1, 2) else 0), y * k - (k if rng.chance(1, 2) else 0)) for x, y in p]
    return p


def rot(p, k):
    k %= len(p)
    return p[k:] + p[:k]


def with_dups(rng, p, num=1, den=3):
    out = []
    for v in p:
        out.append(v)
        while rng.chance(num, den):
            out.append(v)
    return out


def run_kernel(ctx, exe, n, gp_paths):
    oracle = vf.oracle_build('locmin')
    rng = ctx.rng
    lines = []
    for _ in range(n):
        lines.append('ADD1 ' + vf.fmt_paths([kernel_path(rng)])[2:])
    for p in gp_paths:
        lines.append('ADD1 ' + vf.fmt_paths([rot(with_dups(rng, p) + ([p[0]] if rng.chance(1, 2) else []), 0)])[2:])
    for _ in range(n // 4):
        lines.append('SORTED %s %s' % (vf.fmt_paths([kernel_path(rng) for _ in range(rng.range(0, 3))]),
                                       vf.fmt_paths([kernel_path(rng) for _ in range(rng.range(0, 3))])))
    a, f1 = vf.par_lines(exe, lines)
    b, f2 = vf.par_lines(oracle, lines)
    if f2:
        raise vf.Infra('locmin oracle failed: %s' % (f2[0][2] or f2[0][3])[:500])
    if f1:
        l, rc, err = vf.isolate_failure(exe, f1[0][0])
        ctx.violation('crash.addpaths', 'AddPaths_/Reset crashed or hung (rc=%s): %s' % (rc, err[-300:]), replay=dict(line=l or f1[0][0][:10]))
        return []
    bad = []
    kinds = {}
    for l, x, y in zip(lines, a, b):
        ctx.count('kernel_evaluations')
        k = x.split(' ', 1)[0] if l.startswith('ADD1') else 'SORTED'
        kinds[k] = kinds.get(k, 0) + 1
        if x != y:
            bad.append(dict(line=l, implementation=x, model=y))
    ctx.cov['kernel_result_kinds'] = kinds
    return bad


# ----------------------------------------------------------------------------- case generation
def shared_y_case(rng, box=120):
    """several polygons whose bottom-most (largest y: Clipper's first local minima) vertices share one y"""
    ps = []
    for _ in range(rng.range(2, 4)):
        p = polys.star_polygon(rng, rng.range(3, 7), rng.range(-box // 2, box // 2), 0, box // 8, box // 3)
        if len(p) < 3:
            continue
        if rng.chance(1, 2):
            p.reverse()
        ymax = max(v[1] for v in p)
        ps.append([(x, y - ymax + 40) for x, y in p])
    k = rng.range(1, max(1, len(ps) - 1))
    return ps[:k], ps[k:]


def gen_cases(ctx, n):
    cases, rng = [], ctx.rng
    tries = 0
    while len(cases) < n and tries < 50 * n:
        tries += 1
        if rng.chance(1, 3):
            S, C = shared_y_case(rng)
            kinds = ('sharedY', 'sharedY')
            if not S or not polys.general_position(S + C):
                continue
        else:
            S, C, kinds = polys.gen_genpos_case(rng)
        reg = REG13[len(cases) % len(REG13)] if not rng.chance(1, 3) else REG13[0]
        name, k, off = reg
        dx, dy = rng.choice([-1, 0, 1]) * off, rng.choice([-1, 0, 1]) * off
        S2, C2 = polys.scale_translate(S, k, dx, dy), polys.scale_translate(C, k, dx, dy)
        if polys.maxabs([S2, C2]) > LIM:
            continue
        cases.append(dict(S=S2, C=C2, regime=name, k=k, kinds=kinds, pc=rng.below(2), rs=rng.below(2)))
    return cases


def representations(rng, S, C, ct, fr):
    """(key, S', C', ct', fr') whose canonical solution must equal that of (S, C, ct, fr)"""
    out = []
    # path order
    ps, pc = list(itertools.permutations(range(len(S)))), list(itertools.permutations(range(len(C))))
    if len(S) <= 4 and len(C) <= 4 and len(ps) * len(pc) <= 36:
        pairs = [(a, b) for a in ps for b in pc]
    else:
        pairs = ([(a, pc[0]) for a in ps] if len(S) <= 4 else []) + ([(ps[0], b) for b in pc] if len(C) <= 4 else [])
        for _ in range(20):
            a, b = list(range(len(S))), list(range(len(C)))
            rng.shuffle(a); rng.shuffle(b)
            pairs.append((tuple(a), tuple(b)))
    for a, b in pairs:
        if a == ps[0] and b == pc[0]:
            continue
        out.append(('meta.path-order', [S[i] for i in a], [C[i] for i in b], ct, fr))
    # start rotation: every rotation of one path, and a random rotation of all paths
    allp = [('S', i) for i in range(len(S))] + [('C', i) for i in range(len(C))]
    w, i = rng.choice(allp)
    src = S if w == 'S' else C
    for k in range(1, len(src[i])):
        mod = [rot(p, k) if j == i else p for j, p in enumerate(src)]
        out.append(('meta.start-rotation', mod if w == 'S' else S, mod if w == 'C' else C, ct, fr))
    out.append(('meta.start-rotation', [rot(p, rng.below(len(p))) for p in S], [rot(p, rng.below(len(p))) for p in C], ct, fr))
    # duplicates / closing vertices
    out.append(('meta.duplicate-vertex', [with_dups(rng, p) for p in S], [with_dups(rng, p) for p in C], ct, fr))
    out.append(('meta.duplicate-vertex', [with_dups(rng, p, 1, 8) for p in S], [with_dups(rng, p, 1, 8) for p in C], ct, fr))
    out.append(('meta.closing-vertex', [p + [p[0]] for p in S], [p + [p[0]] for p in C], ct, fr))
    out.append(('meta.closing-vertex', [p + [p[0]] * rng.range(0, 2) for p in S], [p + [p[0]] * rng.range(0, 2) for p in C], ct, fr))
    # subject <-> clip
    if ct != 3:
        out.append(('meta.swap-subject-clip', C, S, ct, fr))
    # reverse everything, Positive <-> Negative
    out.append(('meta.reverse-all', [p[::-1] for p in S], [p[::-1] for p in C], ct, FLIP[fr]))
    return out


def run_exe(ctx, exe, lines, what):
    outs, fails = vf.par_lines(exe, lines)
    if fails:
        sh, rc, err, _ = fails[0]
        l, rc1, err1 = vf.isolate_failure(exe, sh)
        ctx.violation('crash.boolop', '%s: boolean operation crashed or hung (rc=%s): %s' % (what, rc1 if l else rc, (err1 or err)[-300:]),
                      replay=dict(line=l or sh[:20]))
        return None
    return outs


# ----------------------------------------------------------------------------- exact metamorphic validation
def run_meta(ctx, exe, cases):
    rng = ctx.rng
    lines, meta = [], []
    for ci, c in enumerate(cases):
        for ct in CT:
            for fr in FR:
                lines.append(bool_line(ct, fr, c['pc'], c['rs'], c['S'], c['C']))
                meta.append((ci, ct, fr, None))
                for rep in representations(rng, c['S'], c['C'], ct, fr):
                    lines.append(bool_line(rep[3], rep[4], c['pc'], c['rs'], rep[1], rep[2]))
                    meta.append((ci, ct, fr, rep))
    outs = run_exe(ctx, exe, lines, 'metamorphic runs')
    if outs is None:
        return {}
    base, nontrivial = {}, set()
    for m, l in zip(meta, outs):
        r = parse_bool(l)
        ci, ct, fr, rep = m
        c = cases[ci]
        ctx.count('evaluations')
        if r is None or not r['ok']:
            ctx.violation('execute-failed', 'Execute failed or unparsable output: %s' % l[:120],
                          replay=dict(S=c['S'] if rep is None else rep[1], C=c['C'] if rep is None else rep[2], ct=ct, fr=fr, pc=c['pc'], rs=c['rs']))
            continue
        cp = vf.canon_paths(r['closed'])
        if rep is None:
            base[(ci, ct, fr)] = (cp, r['closed'])
            if cp:
                nontrivial.add((ci, ct, fr))
            continue
        ctx.count('representations.' + rep[0])
        if (ci, ct, fr) in base and cp != base[(ci, ct, fr)][0]:
            key, why = rep[0], ''
            if same_directed_edges(base[(ci, ct, fr)][0], cp):
                # the same boundary, cut into paths differently at a vertex through which two strands pass
                key = 'meta.relinked-at-touching-vertex'
                why = ' [both solutions consist of exactly the same directed edges: only the linking at a vertex visited twice differs]'
            ctx.violation(key, '%s: %s/%s pc=%d rs=%d regime=%s: canonical solutions of two representations of the same input differ '
                          '(%d vs %d paths)%s' % (rep[0], CT[ct], FR[fr], c['pc'], c['rs'], c['regime'], len(base[(ci, ct, fr)][0]), len(cp), why),
                          replay=dict(kind='meta', key=rep[0], pc=c['pc'], rs=c['rs'],
                                      A=dict(S=c['S'], C=c['C'], ct=ct, fr=fr), B=dict(S=rep[1], C=rep[2], ct=rep[3], fr=rep[4]),
                                      solutionA=base[(ci, ct, fr)][0], solutionB=cp))
    ctx.cov['distinct_nontrivial'] = ctx.cov.get('distinct_nontrivial', 0) + len(nontrivial)
    return base


def same_directed_edges(A, B):
    """True when two path sets are made of exactly the same multiset of directed edges (then they bound the same
    region with the same multiplicities and differ only in how the edges are linked into paths at shared vertices)"""
    def edges(ps):
        es = {}
        for p in ps:
            n = len(p)
            for i in range(n):
                e = (tuple(p[i]), tuple(p[(i + 1) % n]))
                es[e] = es.get(e, 0) + 1
        return es
    return edges(A) == edges(B)


# ----------------------------------------------------------------------------- region identities and maps
def pick_maps(rng, c):
    cm = polys.maxabs([c['S'], c['C']])
    room = LIM - cm
    u = c['k']
    d = (rng.range(-min(room, 1000 * u), min(room, 1000 * u)), rng.range(-min(room, 1000 * u), min(room, 1000 * u)))
    maps = [('map.translate', 0, d[0], d[1]), ('map.transpose', 1, 0, 0), ('map.mirror', 2, 0, 0), ('map.mirror', 3, 0, 0)]
    ks = [k for k in (2, 3, 7, 1000, 2 ** 20) if cm * k <= LIM]
    if ks:
        maps.append(('map.scale', 4, rng.choice(ks), 0))
    return maps


def map_fn(kind, a, b):
    return {0: lambda v: (v[0] + a, v[1] + b), 1: lambda v: (v[1], v[0]), 2: lambda v: (-v[0], v[1]),
            3: lambda v: (v[0], -v[1]), 4: lambda v: (v[0] * a, v[1] * a)}[kind]


def rel_line(S, C, cm, pts, rels):
    td = 2 ** 41
    tn = 4 * td + cm            # doubled units: 2 * (2 + cm * 2^-42)
    D = polys.double_paths
    parts = ['REL', str(tn), str(td), vf.fmt_paths(D(S)), vf.fmt_paths(D(C)), '%d %s' % (len(pts), vf.fmt_path(pts)), str(len(rels))]
    for r in rels:
        if r[0] == 'X' or r[0] == 'P':
            parts.append('%s %s %s %s' % (r[0], vf.fmt_paths(D(r[1])), vf.fmt_paths(D(r[2])), vf.fmt_paths(D(r[3]))))
        else:
            kind, a, b = r[1], r[2], r[3]
            if kind == 0:
                a, b = 2 * a, 2 * b     # doubled coordinates
            parts.append('M %d %d %d %s %s' % (kind, a, b, vf.fmt_paths(D(r[4])), vf.fmt_paths(D(r[5]))))
    return ' '.join(parts)


def run_regions(ctx, exe, cases, base, G):
    rng = ctx.rng
    oracle = vf.oracle_build('locmin')
    lines, meta = [], []
    for ci, c in enumerate(cases):
        c['maps'] = pick_maps(rng, c)
        for fr in FR:
            lines.append(bool_line(2, fr, c['pc'], c['rs'], c['S'], []))     # subject region = Union of the subject alone
            meta.append((ci, 'Sb', fr))
        for mi, (key, kind, a, b) in enumerate(c['maps']):
            f = map_fn(kind, a, b)
            mS, mC = polys.tf_paths(c['S'], f), polys.tf_paths(c['C'], f)
            for ct in CT:
                for fr in FR:
                    fr2 = FLIP[fr] if kind in (1, 2, 3) else fr
                    lines.append(bool_line(ct, fr2, c['pc'], c['rs'], mS, mC))
                    meta.append((ci, mi, ct, fr))
    outs = run_exe(ctx, exe, lines, 'mapped runs')
    if outs is None:
        return
    sol = {}
    for m, l in zip(meta, outs):
        r = parse_bool(l)
        ctx.count('evaluations')
        if r is None or not r['ok']:
            ctx.violation('execute-failed', 'Execute failed on a mapped input: %s' % l[:120], replay=dict(meta=m, case=cases[m[0]]))
            continue
        sol[m] = r['closed']
    rl, rmeta = [], []
    for ci, c in enumerate(cases):
        pts = polys.sample_points_doubled(rng, c['S'], c['C'], G, k=c['k'])
        cm = polys.maxabs([c['S'], c['C']])
        for key, kind, a, b in c['maps']:
            if kind == 0:
                cm = max(cm, polys.maxabs([polys.tf_paths(c['S'] + c['C'], map_fn(kind, a, b))]))
        for fr in FR:
            have = all((ci, ct, fr) in base for ct in CT) and (ci, 'Sb', fr) in sol
            if not have:
                continue
            b_ = {ct: base[(ci, ct, fr)][1] for ct in CT}
            rels = [('X', b_[4], b_[2], b_[1]), ('P', b_[3], b_[1], sol[(ci, 'Sb', fr)])]
            keys = [('algebra.xor', None), ('algebra.partition', None)]
            for mi, (key, kind, a, b) in enumerate(c['maps']):
                for ct in CT:
                    if (ci, mi, ct, fr) in sol:
                        rels.append(('M', kind, a, b, b_[ct], sol[(ci, mi, ct, fr)]))
                        keys.append((key, (mi, ct)))
            rl.append(rel_line(c['S'], c['C'], cm, pts, rels))
            rmeta.append((ci, fr, keys, rels, len(pts)))
    res, fails = vf.par_lines(oracle, rl, chunk=1, timeout=1500)
    if fails:
        raise vf.Infra('region relation oracle failed: %s' % (fails[0][2] or fails[0][3])[:500])
    for (ci, fr, keys, rels, npts), line in zip(rmeta, res):
        parts = line.split('|')
        if line.startswith('ERR') or len(parts) != len(keys) + 1:
            raise vf.Infra('region relation oracle: bad output %s' % line[:300])
        c = cases[ci]
        ctx.count('sample_points_total', npts)
        ctx.count('sample_points_far', int(parts[0]))
        for (key, extra), rel, r in zip(keys, rels, parts[1:]):
            t = r.split()
            ctx.count('relations.' + key)
            if int(t[0]) == 0:
                continue
            q = (int(t[1]) / 2.0, int(t[2]) / 2.0)
            rep = dict(kind='rel', key=key, S=c['S'], C=c['C'], fr=fr, pc=c['pc'], rs=c['rs'], point=q)
            if extra is None:
                what = '%s under %s: fails at %d sample points outside the tolerance band, e.g. (%s, %s)' % (key, FR[fr], int(t[0]), q[0], q[1])
            else:
                mi, ct = extra
                _, kind, a, b = c['maps'][mi]
                rep.update(ct=ct, map=[kind, a, b])
                what = ('%s (%s %s, map kind %d a=%d b=%d): region of the solution of the mapped input is not the mapped region at %d sample '
                        'points, e.g. (%s, %s)' % (key, CT[ct], FR[fr], kind, a, b, int(t[0]), q[0], q[1]))
            ctx.violation(key, what + ' regime=%s pc=%d rs=%d' % (c['regime'], c['pc'], c['rs']), replay=rep)


# ----------------------------------------------------------------------------- driver
def run(ctx):
    pr = vf.coq_props(ctx, 'C13')
    broken = not pr['ok']
    tie_broken = None
    try:
        exe_b = vf.build_cpp(ctx, 'cx_bool.cpp', 'plain')
    except vf.BuildFailure as e:
        ctx.violation('tie-break:cx_bool', 'boolean harness no longer builds: %s' % str(e)[-600:], replay=dict(error=str(e)[-2000:]), nofail=True)
        return
    try:
        exe_k = vf.build_cpp(ctx, 'cx_locmin.cpp', 'plain')
    except vf.BuildFailure as e:
        exe_k, tie_broken = None, str(e)
    n = 240 if ctx.quick else 1200
    G = 16 if ctx.quick else 24
    if broken or tie_broken:
        n *= 3
    cases = gen_cases(ctx, n)
    region = vf.oracle_build('region')
    gp, fails = vf.par_lines(region, ['GENPOS ' + vf.fmt_paths(c['S'] + c['C']) for c in cases])
    if fails:
        raise vf.Infra('oracle GENPOS failed: %s' % fails[0][2])
    kept = [c for c, g in zip(cases, gp) if g.strip() == '1']
    ctx.cov['genpos_rejected_by_coq_predicate'] = len(cases) - len(kept)
    cases = kept
    for c in cases:
        ctx.hist('regime', c['regime'])
        ctx.hist('kinds', '%s/%s' % c['kinds'])
        ctx.hist('paths', '%d+%d' % (len(c['S']), len(c['C'])))
        ctx.hist('input_edges', min(40, sum(len(p) for p in c['S'] + c['C'])) // 5 * 5)
    # 1. kernel correspondence
    kbad = []
    if exe_k:
        kbad = run_kernel(ctx, exe_k, 6000 if ctx.quick else 200000, [p for c in cases for p in c['S'] + c['C']])
    # 2. exact metamorphic validation, 3. region identities
    base = run_meta(ctx, exe_b, cases)
    run_regions(ctx, exe_b, cases, base, G)
    if cases:
        c = cases[0]
        ctx.sample(dict(S=c['S'], C=c['C'], regime=c['regime'], pc=c['pc'], rs=c['rs'],
                        options='all 16 clip type x fill rule; representations: path orders, start rotations, duplicates, closing vertex, swap, reverse-all; maps ' + str(c.get('maps'))))
    ctx.cov['rule'] = ('random closed subject/clip sets (8 shape families + sets whose first local minima share one y) accepted by the extracted Coq '
                       'predicate general_position, scaled/translated exactly into 5 coordinate regimes with |coord| <= 2^40; for each of the 16 clip '
                       'type x fill rule combinations every listed representation (all path orders when <= 36, all start rotations of one path, random '
                       'duplicate vertices, closing vertices, subject/clip swap, global reversal with Positive<->Negative) must give the identical '
                       'canonical path set; region identities (Xor, partition, 5 geometric maps) are compared at sample points farther than '
                       '2 + |coord|*2^-42 from all input edges; non-trivial = distinct (case, clip type, fill rule) with a non-empty solution; '
                       'kernel: AddPaths_/Reset on small-lattice paths with horizontals, duplicates, closing vertices, <3 points, flat paths')
    ctx.assumptions += ['sampling: region identities are compared on a grid + neighbourhoods of vertices/crossings, not by a theorem',
                        'general position as decided by base/GenPos.v',
                        'identity of solution paths across representations is validated (metamorphic), not proved: no model of the whole sweep']
    # decisions about model/proof ties
    if kbad:
        k = kbad[0]
        ctx.violation('kernel-mismatch:AddPaths_', 'AddPaths_/LocMinSorter/stable_sort differ from the Coq model LocMin.v on %d of %d inputs, e.g. %s -> '
                      'implementation %s, model %s' % (len(kbad), ctx.cov.get('kernel_evaluations', 0), k['line'][:120], k['implementation'][:160], k['model'][:160]),
                      replay=dict(kind='kernel', **k), nofail=not ctx.violations)
    if tie_broken and not ctx.violations:
        ctx.violation('tie-break:cx_locmin', 'kernel harness no longer builds (vertex_lists_/minima_list_/Reset changed?): %s' % tie_broken[-600:],
                      replay=dict(error=tie_broken[-2000:]), nofail=True)
    if broken and not ctx.violations:
        ctx.violation('proof-break:Properties_C13', 'Properties_C13 no longer checks: %s' % '; '.join(pr['failed'])[:800],
                      replay=dict(failed=pr['failed'], log=pr['log'][-2000:]), nofail=True)


def replay(ctx, path):
    r = json.load(open(path))['replay']
    ctx.count('evaluations')
    ctx.cov['distinct_nontrivial'] = 1
    if r.get('kind') == 'kernel':
        exe = vf.build_cpp(ctx, 'cx_locmin.cpp', 'plain')
        oracle = vf.oracle_build('locmin')
        a = vf.run_lines(exe, [r['line']]).stdout.strip()
        b = vf.run_lines(oracle, [r['line']]).stdout.strip()
        print('implementation:', a)
        print('model:         ', b)
        if a != b:
            ctx.violation('kernel-mismatch:AddPaths_', 'replayed kernel mismatch', replay=r, nofail=True)
        return
    exe = vf.build_cpp(ctx, 'cx_bool.cpp', 'plain')
    if r.get('kind') == 'meta':
        sols = []
        for side in ('A', 'B'):
            x = r[side]
            o = vf.run_lines(exe, [bool_line(x['ct'], x['fr'], r['pc'], r['rs'], P(x['S']), P(x['C']))]).stdout.strip()
            sols.append(vf.canon_paths(parse_bool(o)['closed']))
            print(side, sols[-1])
        if sols[0] != sols[1]:
            key = 'meta.relinked-at-touching-vertex' if same_directed_edges(sols[0], sols[1]) else r['key']
            ctx.violation(key, 'replayed: canonical solutions differ', replay=r)
        return
    # region relation
    S, C, fr = P(r['S']), P(r['C']), r['fr']
    c = dict(S=S, C=C, pc=r['pc'], rs=r['rs'], k=1)

    def sol(ct, fr_, s, c_):
        return parse_bool(vf.run_lines(exe, [bool_line(ct, fr_, r['pc'], r['rs'], s, c_)]).stdout.strip())['closed']
    pts = polys.sample_points_doubled(ctx.rng, S, C, 32) + [(int(r['point'][0] * 2), int(r['point'][1] * 2))]
    cm = polys.maxabs([S, C])
    if r['key'] == 'algebra.xor':
        rels = [('X', sol(4, fr, S, C), sol(2, fr, S, C), sol(1, fr, S, C))]
    elif r['key'] == 'algebra.partition':
        rels = [('P', sol(3, fr, S, C), sol(1, fr, S, C), sol(2, fr, S, []))]
    else:
        kind, a, b = r['map']
        f = map_fn(kind, a, b)
        mS, mC = polys.tf_paths(S, f), polys.tf_paths(C, f)
        cm = max(cm, polys.maxabs([mS, mC])) if kind == 0 else cm
        rels = [('M', kind, a, b, sol(r['ct'], fr, S, C), sol(r['ct'], FLIP[fr] if kind in (1, 2, 3) else fr, mS, mC))]
    out = vf.run_lines(vf.oracle_build('locmin'), [rel_line(S, C, cm, pts, rels)]).stdout.strip()
    print(out)
    if out.split('|')[1].split()[0] != '0':
        ctx.violation(r['key'], 'replayed region relation failure', replay=r)
