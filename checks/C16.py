"""C16 -- the floating-point API is the integer API on scaled coordinates.

prove      coq/props/Properties_C16.v (scale selection, exactness of power-of-two scaling, range guard, API shape)
correspond bit-exact differential: every PathsD entry point of the current /repo tree against
           descale (entry64 (scale inputs)) where scaling/descaling and the scale itself come from the extracted
           Coq model (Scale.v / ErrorModel.v), i.e. from what the property documents, not from the code.
"""
import os, struct, json, glob
import vf

META = dict(
    text='Every PathsD operation returns exactly the 64-bit operation applied to the inputs times the documented scale, '
         'rounded half away from zero, descaled by the reciprocal; deltas and arc tolerances scaled alike; PolyTreeD '
         'node for node like PolyTree64.',
    note='Coq: bit-exact PrimFloat model of ScalePath(s)/ScaleRect/descaling and of the scale selection (ClipperD: smallest '
         'power of two above 10^p, proved for p in -8..8 from the correctly rounded decimal power; free functions: 10^p); '
         'libm pow/ilogb read from the implementation and checked against the model. Differential is bitwise.',
    technique='Coq kernel theorems (vm_compute over exact Z/Q, Flocq for float exactness) + extracted-model differential (HM+X, SPEC+O)',
    category='proof')

FAMILY = {'clipperD': 'clipperD', 'clipperD_tree': 'clipperD', 'booleanop': 'booleanopD', 'booleanop_tree': 'booleanopD',
          'intersect': 'booleanopD', 'union': 'booleanopD', 'difference': 'booleanopD', 'xor': 'booleanopD',
          'union1': 'booleanopD', 'inflate': 'inflateD', 'rectclip': 'rectclipD', 'rectclip1': 'rectclipD',
          'rectcliplines': 'rectcliplinesD', 'rectcliplines1': 'rectcliplinesD', 'minksum': 'minkowskiD',
          'minkdiff': 'minkowskiD', 'trim': 'trimcollinearD'}
POW2_ENTRIES = {'clipperD', 'clipperD_tree', 'booleanop', 'booleanop_tree', 'intersect', 'union', 'difference', 'xor', 'union1'}


def viol(ctx, key, what, replay=None, nofail=False):
    """record the first occurrence of each key as the violation (with its replay); count the rest
    (vf.Ctx keeps at most 50 entries, one VIOLATION line per key)"""
    seen = ctx.__dict__.setdefault('_seen_keys', {})
    seen[key] = seen.get(key, 0) + 1
    ctx.hist('violations_by_key', key)
    if seen[key] == 1:
        return ctx.violation(key, what, replay=replay, nofail=nofail)
    return False


# ----------------------------------------------------------------------------- doubles <-> text
def fhex(x):
    """python float -> token understood by strtod and by the oracle"""
    if x != x:
        return 'nan'
    if x in (float('inf'), float('-inf')):
        return 'inf' if x > 0 else '-inf'
    return x.hex()


_bits_cache = {}


def bits(tok):
    """token (C %a / OCaml %h / nan / inf) -> 64-bit pattern; every NaN is one class"""
    b = _bits_cache.get(tok)
    if b is None:
        t = tok.lower()
        if 'nan' in t:
            b = 'nan'
        else:
            if t in ('inf', '+inf', 'infinity'):
                v = float('inf')
            elif t in ('-inf', '-infinity'):
                v = float('-inf')
            else:
                v = float.fromhex(t)
            b = struct.unpack('<Q', struct.pack('<d', v))[0]
        if len(_bits_cache) < 2000000:
            _bits_cache[tok] = b
    return b


def fmt_fpaths(ps):
    out = [str(len(ps))]
    for p in ps:
        out.append(str(len(p)))
        for x, y in p:
            out.append(fhex(x)); out.append(fhex(y))
    return ' '.join(out)


def take_paths(tok, pos):
    """generic <n> <k> a b ... reader that keeps tokens as strings; returns (list of list of (a,b)), newpos"""
    n = int(tok[pos]); pos += 1
    ps = []
    for _ in range(n):
        k = int(tok[pos]); pos += 1
        p = []
        for _ in range(k):
            p.append((tok[pos], tok[pos + 1])); pos += 2
        ps.append(p)
    return ps, pos


def put_paths(ps):
    out = [str(len(ps))]
    for p in ps:
        out.append(str(len(p)))
        for a, b in p:
            out.append(a); out.append(b)
    return ' '.join(out)


# ----------------------------------------------------------------------------- result lines
class Res:
    """parsed harness result: kind THROW/OK/ERR, code, ec, ret, shape ('P'|'T'), struct (tree), sets [closed/polys, open]"""

    def __init__(self, line):
        self.line = line
        t = line.split()
        self.kind = t[0] if t else 'ERR'
        self.code = self.ec = self.ret = None
        self.shape = None
        self.struct = None
        self.sets = None
        if self.kind == 'THROW':
            self.code, self.ec = int(t[1]), int(t[2])
        elif self.kind == 'OK':
            self.ec, self.ret = int(t[1]), int(t[2])
            self.shape = t[3]
            pos = 4
            if self.shape == 'T':
                n = int(t[pos]); pos += 1
                self.struct = tuple(t[pos:pos + 2 * n]); pos += 2 * n
            if self.shape in ('P', 'T'):
                a, pos = take_paths(t, pos)
                b, pos = take_paths(t, pos)
                self.sets = [a, b]
            elif self.shape == 'R':
                self.sets = [[[(t[4], t[5]), (t[6], t[7])]], []]
        else:
            self.kind = 'ERR'


def sets_bits(sets):
    return [[[(bits(a), bits(b)) for a, b in p] for p in s] for s in sets]


class Model:
    """parsed oracle ENTRY line"""

    def __init__(self, line):
        self.line = line
        parts = [x.strip() for x in line.split('|')]
        t = parts[0].split()
        self.kind = t[0]            # OK THROWN CODE ERR
        self.code = self.ec = 0
        self.value = None
        self.call = None
        pos = 1
        if self.kind == 'THROWN':
            self.code, self.ec = int(t[1]), int(t[2])
        elif self.kind in ('OK', 'CODE'):
            if self.kind == 'CODE':
                self.code = self.ec = int(t[1]); pos = 2
            self.value = t[pos]
            if self.value == 'CALL':
                self.call = parse_call(t, pos)
        else:
            self.kind = 'ERR'
        self.dom = self.rng = self.guard = None
        self.spec = None
        for q in parts[1:]:
            u = q.split()
            if u and u[0] == 'DOM':
                self.dom, self.rng = u[1] == '1', u[3] == '1'
                self.guard = (u[5] == '1') if len(u) > 5 else None
            elif u and u[0] == 'SPEC':
                self.spec = parse_call(u, 1) if u[1] == 'CALL' else None


def parse_call(t, pos):
    """CALL <nsets> <paths>* <hasrect> [l t r b] <nfl> <fl>* <inv>  ->  dict"""
    assert t[pos] == 'CALL'
    pos += 1
    n = int(t[pos]); pos += 1
    sets = []
    for _ in range(n):
        ps, pos = take_paths(t, pos)
        sets.append(ps)
    rect = None
    if t[pos] == '1':
        rect = t[pos + 1:pos + 5]; pos += 5
    else:
        pos += 1
    k = int(t[pos]); pos += 1
    fl = t[pos:pos + k]; pos += k
    inv = t[pos]
    return dict(sets=sets, rect=rect, fl=fl, inv=inv)


def same_call(a, b):
    if a is None or b is None:
        return False
    return (a['sets'] == b['sets'] and a['rect'] == b['rect'] and [bits(x) for x in a['fl']] == [bits(x) for x in b['fl']]
            and bits(a['inv']) == bits(b['inv']))


# ----------------------------------------------------------------------------- cases
def _tok(v):
    return v if isinstance(v, str) else fhex(v)


NPARAMS = {'clipperD': 4, 'clipperD_tree': 4, 'booleanop': 2, 'booleanop_tree': 2, 'intersect': 1, 'union': 1,
           'difference': 1, 'xor': 1, 'union1': 1, 'inflate': 5, 'rectclip': 0, 'rectclip1': 0, 'rectcliplines': 0,
           'rectcliplines1': 0, 'minksum': 1, 'minkdiff': 1, 'trim': 1}


class Case:
    """entry, precision p, params (tokens after p and before the rectangle/path sets), sets (list of path sets; coordinates
    are kept as tokens), rect (4 tokens or None)"""

    def __init__(self, entry, p, params, sets, rect=None, tag=''):
        self.entry, self.p, self.tag = entry, p, tag
        self.params = [_tok(x) if isinstance(x, float) else str(x) for x in params]
        self.sets = [[[(_tok(x), _tok(y)) for x, y in path] for path in s] for s in sets]
        self.rect = [_tok(v) for v in rect] if rect is not None else None

    def body(self):
        out = [self.entry, str(self.p)] + self.params
        if self.rect is not None:
            out += self.rect
        out += [put_paths(s) for s in self.sets]
        return ' '.join(out)

    def i_line(self, call):
        """the 64-bit entry on the integer arguments of `call`"""
        e = self.entry
        S = call['sets']
        if e in ('clipperD', 'clipperD_tree'):
            return ' '.join(['I', e] + self.params + [put_paths(S[0]), put_paths(S[1]), put_paths(S[2])])
        if e in ('booleanop', 'booleanop_tree', 'intersect', 'union', 'difference', 'xor'):
            return ' '.join(['I', e] + self.params + [put_paths(S[0]), put_paths(S[2])])
        if e == 'union1':
            return ' '.join(['I', e] + self.params + [put_paths(S[0])])
        if e == 'inflate':
            jt, et, ml = self.params[0:3]
            return ' '.join(['I', e, jt, et, ml, call['fl'][0], call['fl'][1], put_paths(S[0])])
        if e.startswith('rectclip'):
            return ' '.join(['I', e] + list(call['rect']) + [put_paths(S[0])])
        if e in ('minksum', 'minkdiff'):
            return ' '.join(['I', e, self.params[0], put_paths(S[0]), put_paths(S[1])])
        if e == 'trim':
            return ' '.join(['I', e, self.params[0], put_paths(S[0])])
        raise ValueError(e)

    def to_json(self):
        return dict(line=self.body(), tag=self.tag)


def case_from_body(body, tag='corpus'):
    """inverse of Case.body()"""
    t = body.split()
    entry, p = t[0], int(t[1])
    pos = 2 + NPARAMS[entry]
    params = t[2:pos]
    rect = None
    if entry.startswith('rectclip'):
        rect = t[pos:pos + 4]; pos += 4
    sets = []
    while pos < len(t):
        ps, pos = take_paths(t, pos)
        sets.append(ps)
    return Case(entry, p, params, sets, rect, tag)


# ----------------------------------------------------------------------------- the differential pipeline
class Pipeline:
    def __init__(self, ctx, exe, oracle, exc=True):
        self.ctx, self.exe, self.oracle, self.exc = ctx, exe, oracle, exc

    def run(self, cases):
        """returns list of dict(case, D=Res, M=Model, expM=sets|None (model tie), expS=sets|None (property), I...)"""
        ctx = self.ctx
        bodies = [c.body() for c in cases]
        dl, f1 = vf.par_lines(self.exe, ['D ' + b for b in bodies])
        ml, f2 = vf.par_lines(self.oracle, ['ENTRY %d %s' % (1 if self.exc else 0, b) for b in bodies])
        if f2:
            raise vf.Infra('oracle_scale failed: %s' % (f2[0][2][-500:],))
        out = []
        crashed = set()
        if f1:      # a shard died (crash/timeout inside the library): rerun its lines one by one to find the culprit
            for shard, rc, err, got in f1:
                for b in shard:
                    p = vf.run_lines(self.exe, [b], timeout=60)
                    if p.returncode != 0 or not p.stdout.strip():
                        crashed.add(b[2:])
            dl, f1b = vf.par_lines(self.exe, ['D ' + b if b not in crashed else 'NOP' for b in bodies])
        ilines, idx = [], []
        for k, c in enumerate(cases):
            rec = dict(case=c, D=Res(dl[k]) if k < len(dl) else Res('ERR'), M=Model(ml[k]), crashed=bodies[k] in crashed)
            out.append(rec)
            m = rec['M']
            calls = []
            if m.call is not None:
                calls.append(('M', m.call))
            if m.spec is not None and not same_call(m.call, m.spec):
                calls.append(('S', m.spec))
            rec['same'] = same_call(m.call, m.spec)
            for which, call in calls:
                ilines.append(c.i_line(call)); idx.append((k, which, call))
        il, f3 = vf.par_lines(self.exe, ilines)
        if f3:
            bad = set()
            for shard, rc, err, got in f3:
                for b in shard:
                    p = vf.run_lines(self.exe, [b], timeout=60)
                    if p.returncode != 0 or not p.stdout.strip():
                        bad.add(b)
            il, _ = vf.par_lines(self.exe, [b if b not in bad else 'NOP' for b in ilines])
        dlines = []
        for j, (k, which, call) in enumerate(idx):
            r = Res(il[j]) if j < len(il) else Res('ERR')
            out[k]['I' + which] = r
            if r.kind == 'OK':
                dlines.append('DESCALE %s 2 %s %s' % (call['inv'], put_paths(r.sets[0]), put_paths(r.sets[1])))
            else:
                dlines.append('DESCALE 0x1p+0 2 0 0')
        ol, f4 = vf.par_lines(self.oracle, dlines)
        if f4:
            raise vf.Infra('oracle_scale DESCALE failed: %s' % (f4[0][2][-500:],))
        for j, (k, which, call) in enumerate(idx):
            t = ol[j].split()
            a, pos = take_paths(t, 0)
            b, pos = take_paths(t, pos)
            out[k]['exp' + which] = [a, b]
        for rec in out:
            if rec['same']:
                rec['IS'] = rec.get('IM'); rec['expS'] = rec.get('expM')
        return out


def small_open_triangle(ipath):
    """integer path (tokens) of exactly three vertices, two of which are PtsReallyClose (|dx| < 2 and |dy| < 2)"""
    if len(ipath) != 3:
        return False
    q = [(int(a), int(b)) for a, b in ipath]
    return any(abs(q[i][0] - q[j][0]) < 2 and abs(q[i][1] - q[j][1]) < 2 for i, j in ((0, 1), (1, 2), (0, 2)))


def compare(D, I, exp):
    """bitwise comparison of a D result with the expected (descaled I result). returns None or a short reason"""
    if D.kind != 'OK':
        return 'd-entry-' + D.kind.lower()
    if I is None or I.kind != 'OK':
        return 'int-entry-failed'
    if D.shape != I.shape:
        return 'shape'
    if D.shape == 'T' and D.struct != I.struct:
        return 'tree-shape'
    db, eb = sets_bits(D.sets), sets_bits(exp)
    if db == eb:
        return None
    if len(db[1]) != len(eb[1]):
        if D.shape == I.shape and db[0] == eb[0] and len(db[1]) < len(eb[1]) and len(I.sets[1]) == len(eb[1]):
            # one specific defect: BuildPathD applies the closed-path "very small triangle" filter to open paths
            # (no `!isOpen &&` as in BuildPath64), so an open solution path of exactly 3 vertices with two of them
            # less than 2 scaled units apart in x and in y is dropped.  Only that: every other path identical, in order.
            kept = [pb for pb, pi in zip(eb[1], I.sets[1]) if not small_open_triangle(pi)]
            if kept == db[1]:
                return 'open-3pt-small-triangle-dropped'
        return 'open-path-count'
    if len(db[0]) != len(eb[0]):
        return 'path-count'
    if [[len(p) for p in s] for s in db] != [[len(p) for p in s] for s in eb]:
        return 'vertex-count'
    return 'coords-differ'


def judge(ctx, rec, where='gen'):
    """decide one record of the pipeline for property C16 (valid precision, inputs inside the domain).
    returns True if the case counted as a non-trivial agreement"""
    c, D, M = rec['case'], rec['D'], rec['M']
    fam = FAMILY[c.entry]
    if rec.get('crashed') or D.kind == 'ERR':
        viol(ctx, '%s.crash' % fam, '%s: the PathsD entry point crashed or produced no result line on %s'
                      % (c.entry, c.body()[:300]), replay=c.to_json())
        return False
    if M.kind == 'ERR':
        raise vf.Infra('oracle error: ' + M.line[:300])
    if M.guard is False:
        viol(ctx, 'model.range-guard', 'ScalePaths range test passed but a NaN-free coordinate converts outside +-2^61 (model level): %s' % c.body()[:300],
             replay=c.to_json())
    ctx.count('range_guard_evaluations')
    if not M.dom or not (-8 <= c.p <= 8):
        ctx.count('outside_domain')
        return False
    for r in (D, rec.get('IM'), rec.get('IS')):
        if r is not None and r.kind == 'OK' and r.ret == 0:
            viol(ctx, '%s.execute-false' % fam, 'Execute returned false on %s' % c.body()[:300], replay=c.to_json())
    # (a) property: D == descale(entry64(spec scaled inputs))
    ok_prop = None
    if M.spec is None:
        ctx.count('spec_undefined')
    else:
        why = compare(D, rec.get('IS'), rec.get('expS'))
        ok_prop = why is None
        if why:
            # diagnose with the faithful model: does the model explain what the code did?
            model_explains = False
            how = why
            if (c.entry == 'inflate' and D.kind == 'OK' and bits(c.params[3]) in (0, 1 << 63) and c.sets
                    and sets_bits(D.sets) == sets_bits([c.sets[0], []])):
                # one specific defect, recognised from the case itself: delta == 0 and the result is bitwise the
                # (off-grid) input, i.e. the `if (!delta) return paths;` shortcut taken before any scaling
                model_explains = M.kind == 'OK' and M.value == 'INPUT'
                how = 'delta0-returns-unrounded-input'
            elif M.kind == 'OK' and M.value == 'EMPTY' and D.kind == 'OK' and not any(D.sets[0]) and not any(D.sets[1]):
                model_explains = True
                how = 'early-empty'
            elif M.kind == 'OK' and M.value == 'CALL' and not rec['same']:
                if compare(D, rec.get('IM'), rec.get('expM')) is None:
                    model_explains = True
                    how = 'scaled-arguments-differ'
            key = '%s.%s' % (fam, how)
            viol(ctx, key, '%s(precision %d): result differs from descale(entry64(scale inputs)) [%s]%s; D=%s expected=%s'
                          % (c.entry, c.p, why, ' (as the hand model of the wrapper predicts)' if model_explains else '',
                             D.line[:200], put_paths(rec['expS'][0])[:200] if rec.get('expS') else '?'),
                          replay=c.to_json())
    # (b) tie: the faithful model must predict the code
    if M.kind == 'OK' and M.value == 'CALL':
        whyM = compare(D, rec.get('IM'), rec.get('expM'))
        if whyM and ok_prop:
            viol(ctx, 'tie-break:%s' % c.entry, 'hand model of %s disagrees with the code but the property holds on this input: %s'
                          % (c.entry, whyM), replay=c.to_json(), nofail=True)
        elif whyM and ok_prop is None:
            viol(ctx, '%s.%s' % (fam, whyM), '%s: code differs from its model (%s)' % (c.entry, whyM), replay=c.to_json())
    elif M.kind == 'THROWN' or M.kind == 'CODE':
        viol(ctx, '%s.valid-input-rejected' % fam, '%s: model reports an error (%s) for an input inside the domain'
                      % (c.entry, M.line[:80]), replay=c.to_json())
    nontrivial = bool(ok_prop) and D.kind == 'OK' and (any(D.sets[0]) or any(D.sets[1]))
    return nontrivial


# ----------------------------------------------------------------------------- generators
def spec_scale_py(entry, p):
    """python replica used ONLY to aim the generator (inputs near ties / near 2^52); expectations come from the oracle"""
    if entry in POW2_ENTRIES:
        k = 0
        if p >= 0:
            k = (10 ** p).bit_length()
        else:
            k = 1 - ((10 ** (-p) - 1).bit_length())
        return 2.0 ** k
    return float(10 ** p) if p >= 0 else 1.0 / float(10 ** (-p))


class Gen:
    def __init__(self, rng):
        self.r = rng

    def frac(self):
        r = self.r
        m = r.below(10)
        if m < 3:
            return 0.0
        if m < 5:
            return 0.5
        if m == 5:
            return 0.25
        if m == 6:
            return 0.75
        if m == 7:
            return 0.5 - 2.0 ** -r.range(20, 40)
        if m == 8:
            return 0.5 + 2.0 ** -r.range(20, 40)
        return r.below(1 << 20) / float(1 << 20)

    def to_user(self, u, scale, p):
        """grid coordinate u (scaled units, may be fractional) -> user-space double"""
        r = self.r
        x = u / scale
        m = r.below(12)
        if m == 0 and x == x:
            import math
            x = math.nextafter(x, math.inf)
        elif m == 1:
            import math
            x = math.nextafter(x, -math.inf)
        return x

    def shape(self, cx, cy, R, kind=None):
        """list of grid points (floats, integral part + fraction)"""
        r = self.r
        import math
        kind = kind or r.choice(['star', 'star', 'rand', 'rect', 'tri', 'star'])
        R = max(R, 1)
        pts = []
        if kind == 'star':
            n = r.range(3, 9)
            angs = sorted(r.below(3600) for _ in range(n))
            for a in angs:
                rad = R * (0.35 + 0.65 * r.below(1000) / 1000.0)
                pts.append((cx + math.floor(rad * math.cos(a * math.pi / 1800)), cy + math.floor(rad * math.sin(a * math.pi / 1800))))
        elif kind == 'rand':
            n = r.range(3, 8)
            for _ in range(n):
                pts.append((cx + r.range(-R, R), cy + r.range(-R, R)))
        elif kind == 'rect':
            w, h = r.range(1, R), r.range(1, R)
            x0, y0 = cx + r.range(-R, R - 1), cy + r.range(-R, R - 1)
            pts = [(x0, y0), (x0 + w, y0), (x0 + w, y0 + h), (x0, y0 + h)]
            if r.chance(1, 2):
                pts.reverse()
        else:
            for _ in range(3):
                pts.append((cx + r.range(-R, R), cy + r.range(-R, R)))
        return [(float(x) + self.frac(), float(y) + self.frac()) for x, y in pts]

    def polyline(self, cx, cy, R):
        r = self.r
        n = r.choice([2, 2, 3, 3, 3, 4, 5])
        pts = []
        for _ in range(n):
            pts.append((float(cx + r.range(-R, R)) + self.frac(), float(cy + r.range(-R, R)) + self.frac()))
        if n == 3 and r.chance(1, 2):       # two of three points (almost) coincide on the grid
            pts[2] = (pts[1][0] + r.choice([0.0, 1.0, -1.0, 0.4]), pts[1][1] + r.choice([0.0, 1.0, -1.0, 0.4]))
        return pts

    def regime(self, scale):
        """(R, C): shape radius and centre magnitude in grid units so that everything stays within 2^52"""
        r = self.r
        m = r.below(20)
        if m < 2:
            return 2, r.choice([0, 5, 1000])
        if m < 8:
            return r.choice([8, 20, 50]), r.choice([0, 100, 10 ** 4])
        if m < 13:
            return r.choice([300, 5000]), r.choice([0, 10 ** 5, 10 ** 6])
        if m < 16:
            return 10 ** 7, 10 ** 9
        if m < 18:
            return 1 << 40, 1 << 45
        return (1 << 49), (1 << 51) - (1 << 49) - 8       # |coordinate| < 2^52

    def user_paths(self, grid_paths, scale, p):
        return [[(self.to_user(x, scale, p), self.to_user(y, scale, p)) for x, y in path] for path in grid_paths]

    def decimal_paths(self, p, npaths):
        """decimal-looking user coordinates with a few more digits than the precision keeps"""
        r = self.r
        d = max(0, p) + r.choice([0, 1, 2, 3])
        if p < 0:
            mag = 10 ** (-p) * r.choice([10, 1000, 10 ** 5])
        else:
            mag = r.choice([10, 100, 10 ** 4])
        ps = []
        for _ in range(npaths):
            n = r.range(3, 7)
            ps.append([(r.range(-mag * 10 ** d, mag * 10 ** d) / float(10 ** d), r.range(-mag * 10 ** d, mag * 10 ** d) / float(10 ** d))
                       for _ in range(n)])
        return ps

    def case(self, entry):
        r = self.r
        p = r.range(-8, 8)
        scale = spec_scale_py(entry, p)
        R, C = self.regime(scale)
        cx, cy = r.range(-C, C), r.range(-C, C)
        decimal = r.chance(1, 5)

        def closed_set(n):
            if decimal:
                return self.decimal_paths(p, n)
            return self.user_paths([self.shape(cx + r.range(-R // 2, R // 2), cy + r.range(-R // 2, R // 2), R) for _ in range(n)], scale, p)

        def open_set(n):
            return self.user_paths([self.polyline(cx, cy, R) for _ in range(n)], scale, p)

        tag = 'R=%d' % R
        if entry in ('clipperD', 'clipperD_tree'):
            ct, fr = r.range(0 if r.chance(1, 12) else 1, 4), r.range(0, 3)
            S = closed_set(r.range(1, 3)); O = open_set(r.choice([0, 0, 1, 2])); Cl = closed_set(r.choice([0, 1, 1, 2]))
            if entry == 'clipperD_tree' and r.chance(1, 2):     # nested rings for a deeper tree
                g = []
                for k in range(r.range(2, 4)):
                    rr = max(2, R - k * max(1, R // 4))
                    g.append([(cx - rr + self.frac(), cy - rr + self.frac()), (cx + rr + self.frac(), cy - rr), (cx + rr, cy + rr), (cx - rr, cy + rr + self.frac())])
                S = self.user_paths(g, scale, p); fr = 0
            return Case(entry, p, [ct, fr, r.below(2), r.below(2)], [S, O, Cl], None, tag)
        if entry in ('booleanop', 'booleanop_tree'):
            ct, fr = r.range(0 if r.chance(1, 12) else 1, 4), r.range(0, 3)
            return Case(entry, p, [ct, fr], [closed_set(r.range(1, 3)), closed_set(r.choice([0, 1, 1, 2]))], None, tag)
        if entry in ('intersect', 'union', 'difference', 'xor'):
            return Case(entry, p, [r.range(0, 3)], [closed_set(r.range(1, 3)), closed_set(r.range(1, 2))], None, tag)
        if entry == 'union1':
            return Case(entry, p, [r.range(0, 3)], [closed_set(r.range(1, 3))], None, tag)
        if entry == 'inflate':
            jt, et = r.range(0, 3), r.range(0, 4)
            ml = r.choice([2.0, 2.0, 1.0, 5.0])
            dg = r.choice([0.4, 1.0, 2.5, 10.0, max(1.0, R / 4.0), max(1.0, R / 16.0) + 0.5]) * r.choice([1, 1, -1])
            if r.chance(1, 25):
                dg = 0.0
            delta = dg / scale
            # keep |delta| / arc_tolerance moderate: the number of arc steps grows like sqrt of that ratio
            if abs(dg) <= 2000:
                arc = r.choice([0.0, 0.0, 0.25, 1.0, 5.0]) / scale
            else:
                arc = r.choice([0.0, 0.0, abs(dg) / 100.0, abs(dg) / 10.0]) / scale
            n = r.range(1, 2)
            if et == 0:
                ps = closed_set(n)
            else:
                ps = open_set(n) if r.chance(2, 3) else closed_set(n)
            return Case(entry, p, [jt, et, fhex(ml), fhex(delta), fhex(arc)], [ps], None, tag + ' d=%g' % dg)
        if entry.startswith('rectclip'):
            w, h = r.range(1, max(1, R)), r.range(1, max(1, R))
            x0, y0 = cx + r.range(-R, R) - w // 2, cy + r.range(-R, R) - h // 2
            rg = [x0 + self.frac(), y0 + self.frac(), x0 + w + self.frac(), y0 + h + self.frac()]
            rect = [self.to_user(v, scale, p) for v in rg]
            if r.chance(1, 30):     # a rectangle thinner than one grid unit: non-empty in doubles, may be empty once scaled
                rect[2] = rect[0] + 0.3 / scale
            lines = entry.startswith('rectcliplines')
            n = 1 if entry.endswith('1') else r.range(1, 3)
            ps = open_set(n) if (lines and r.chance(3, 4)) else closed_set(n)
            return Case(entry, p, [], [ps], rect, tag)
        if entry in ('minksum', 'minkdiff'):
            Rp = r.choice([2, 5, 20, max(2, min(R, 1000))])
            pat = self.user_paths([self.shape(r.range(-Rp, Rp), r.range(-Rp, Rp), Rp, r.choice(['star', 'tri', 'rect']))], scale, p)
            n = r.range(2, 6)
            if r.chance(1, 4):      # degenerate brushes and paths: a line segment, a single point, nothing
                pat = [pat[0][:r.choice([2, 2, 2, 1, 0])]]
                tag += ' short-pattern'
            if r.chance(1, 10):
                n = r.choice([0, 1])
            pth = self.user_paths([[(float(cx + r.range(-R, R)) + self.frac(), float(cy + r.range(-R, R)) + self.frac()) for _ in range(n)]], scale, p)
            return Case(entry, p, [r.below(2)], [pat, pth], None, tag)
        if entry == 'trim':
            # collinear runs: points on few lattice lines
            n = r.range(2, 9)
            step = max(1, R // 4)
            pts = []
            x, y = cx, cy
            dx, dy = r.range(-2, 2), r.range(-2, 2)
            for _ in range(n):
                if r.chance(1, 3):
                    dx, dy = r.range(-2, 2), r.range(-2, 2)
                x += dx * step * r.range(0, 2); y += dy * step * r.range(0, 2)
                pts.append((float(x) + (self.frac() if r.chance(1, 4) else 0.0), float(y)))
            return Case(entry, p, [r.below(2)], [self.user_paths([pts], scale, p)], None, tag)
        raise ValueError(entry)


ENTRIES = ['clipperD', 'clipperD_tree', 'booleanop', 'booleanop_tree', 'intersect', 'union', 'difference', 'xor', 'union1',
           'inflate', 'rectclip', 'rectclip1', 'rectcliplines', 'rectcliplines1', 'minksum', 'minkdiff', 'trim']
WEIGHT = {'clipperD': 5, 'clipperD_tree': 3, 'booleanop': 2, 'booleanop_tree': 2, 'inflate': 5, 'rectclip': 2,
          'rectcliplines': 2, 'minksum': 2, 'minkdiff': 2, 'trim': 2}


# ----------------------------------------------------------------------------- kernel tie (HM+X) and self tests
def kernel_tie(ctx, exe, oracle, n):
    """ScalePath / ScalePaths / ScaleRect / Point64(double,double) / descaling called directly, against the extracted model"""
    r = ctx.rng.fork(7)
    import math
    lines = []
    scales = [2.0 ** k for k in (-26, -13, -3, 0, 1, 4, 7, 10, 20, 27)] + [10.0 ** k for k in range(0, 9)] + [1.0 / 10 ** k for k in range(1, 9)]
    for i in range(n):
        s = r.choice(scales)
        m = r.below(6)
        pts = []
        for _ in range(r.range(1, 5)):
            def coord():
                q = r.below(8)
                if q == 0:
                    u = float(r.range(-(1 << 52), 1 << 52))
                elif q == 1:
                    u = r.range(-(1 << 51), 1 << 51) + 0.5
                elif q == 2:
                    u = float(r.range(-(1 << 61), 1 << 61))          # beyond the property's domain, still inside MAX_COORD
                elif q == 3:
                    u = r.range(-1000, 1000) + 0.5
                else:
                    u = r.range(-10 ** 6, 10 ** 6) + r.below(1 << 16) / 65536.0
                x = u / s
                if r.chance(1, 6):
                    x = math.nextafter(x, math.inf if r.chance(1, 2) else -math.inf)
                return x
            pts.append((coord(), coord()))
        if m == 0:
            lines.append('scalepath %s %s 0 %s' % (fhex(s), fhex(s), fmt_fpaths([pts])))
        elif m == 1:
            lines.append('scalepaths %s %s 0 %s' % (fhex(s), fhex(r.choice(scales)), fmt_fpaths([pts, pts[:1]])))
        elif m == 2:
            ip = [(r.range(-(1 << 62), 1 << 62), r.range(-(1 << 53), 1 << 53)) for _ in range(3)]
            lines.append('descalepath %s %s 0 %s' % (fhex(1.0 / s), fhex(1.0 / s), vf.fmt_paths([ip])))
        elif m == 3:
            ip = [(r.range(-(1 << 55), 1 << 55), r.range(-1000, 1000)) for _ in range(3)]
            lines.append('descalepaths %s %s 0 %s' % (fhex(1.0 / s), fhex(1.0 / s), vf.fmt_paths([ip, ip[:2]])))
        elif m == 4:
            a, b = pts[0]
            lines.append('scalerect %s %s %s %s %s' % (fhex(s), fhex(a), fhex(b), fhex(a + 3.0 / s), fhex(b + 2.5 / s)))
        else:
            a, b = pts[0]
            lines.append('point %s %s' % (fhex(a * s), fhex(b * s)))
    hl, f1 = vf.par_lines(exe, ['K ' + l for l in lines])
    ol, f2 = vf.par_lines(oracle, ['K 1 ' + l for l in lines])
    if f1 or f2:
        raise vf.Infra('kernel tie: harness/oracle failed: %s' % ((f1 or f2)[0][2][-300:],))
    bad = 0
    for l, h, o in zip(lines, hl, ol):
        H, O = Res(h), Res(o)
        ctx.count('kernel_evaluations')
        if o.startswith('UB'):          # generator bug: never send undefined behaviour to the real code here
            raise vf.Infra('kernel tie generated an out-of-range conversion: ' + l[:200])
        same = ((H.kind == O.kind == 'OK' and H.ec == O.ec and H.shape == O.shape and sets_bits(H.sets) == sets_bits(O.sets))
                or (H.kind == O.kind == 'THROW' and H.code == O.code and H.ec == O.ec))
        if not same:
            bad += 1
            kname = l.split()[0]
            viol(ctx, 'kernel.%s' % kname, 'direct call of %s differs from the Coq model: impl=%s model=%s'
                          % (kname, h[:160], o[:160]), replay=dict(kernel=l))
    return bad


def float_selftest(ctx, exe, oracle, n):
    """the extracted PrimFloat arithmetic and the harness' hardware arithmetic agree bitwise (mul, div, int64->double, round)"""
    r = ctx.rng.fork(9)
    lines = []
    for i in range(n):
        a = struct.unpack('<d', struct.pack('<Q', (r.next() & ((1 << 63) - 1)) % (0x7fe << 52)))[0] * (1 if r.chance(1, 2) else -1)
        if r.chance(1, 2):
            a = (r.range(-(1 << 40), 1 << 40) + r.below(1024) / 1024.0)
        if a == 0:
            a = 1.5
        b = r.choice([0.01, 100.0, 1e-8, 1e8, 0.0078125, 128.0, 1.0 / 3, 1e3, 1e-3])
        z = r.range(-(1 << 63), (1 << 63) - 1)
        lines.append('%s %s %d' % (fhex(a), fhex(b), z))
    # harness side has no ARITH command: use the kernels (descalepath = (double)z*b ; point = round ; scalepath = a*b round)
    hl, f1 = vf.par_lines(exe, ['K descalepath %s %s 0 1 1 %s 0' % (l.split()[1], l.split()[1], l.split()[2]) for l in lines])
    ol, f2 = vf.par_lines(oracle, ['ARITH ' + l for l in lines])
    if f1 or f2:
        raise vf.Infra('float self-test failed to run')
    for l, h, o in zip(lines, hl, ol):
        H = Res(h)
        want = o.split()[4]
        if H.kind != 'OK' or bits(H.sets[0][0][0][0]) != bits(want):
            raise vf.Infra('float self-test: harness %s vs extracted model %s on %s (hardware and PrimFloat disagree)' % (h, o, l))
    ctx.count('float_selftest', len(lines))


def libm_check(ctx, exe, oracle):
    p = vf.run_lines(exe, ['LIBM'])
    line = p.stdout.strip()
    if not line.startswith('LIBM'):
        raise vf.Infra('LIBM command failed: ' + (p.stdout + p.stderr)[-300:])
    q = vf.run_lines(oracle, ['CHKLIBM' + line[4:], 'SELFTEST'])
    res = q.stdout.strip().split('\n')
    ctx.cov['libm_table'] = line[:600]
    if len(res) != 2 or res[1] != 'OK':
        raise vf.Infra('oracle selftest failed: %s' % q.stdout[-300:])
    if res[0] != 'OK':
        what = res[0]
        if 'ClipperD.scale_' in what or 'invScale_' in what:
            viol(ctx, 'clipperD.scale-selection', 'ClipperD scale_/invScale_ is not the smallest power of two above 10^precision: ' + what[:400],
                          replay=dict(libm=line))
        else:
            viol(ctx, 'libm.pow10-not-correctly-rounded', 'libm table differs from the model assumptions: ' + what[:400],
                          replay=dict(libm=line), nofail=True)
        return False
    return True


# ----------------------------------------------------------------------------- corpus
def load_corpus(pid):
    cases = []
    for f in sorted(glob.glob(os.path.join(vf.VERIF, 'corpus', pid, '*.case'))):
        for line in vf.read(f).splitlines():
            line = line.strip()
            if line and not line.startswith('#'):
                cases.append(case_from_body(line, tag='corpus:' + os.path.basename(f)))
    return cases


def setup(ctx, variant='plain'):
    exe = vf.build_cpp(ctx, 'cx_scale.cpp', variant)
    oracle = vf.oracle_build('scale')
    return exe, oracle


def proof_step(ctx, pid):
    pr = vf.coq_props(ctx, pid)
    if not pr['ok']:
        ctx.log('proof build FAILED: %s' % (pr['failed'][:2],))
    return pr


def run(ctx):
    pr = proof_step(ctx, 'C16')
    try:
        exe, oracle = setup(ctx)
    except vf.BuildFailure as e:
        viol(ctx, 'tie-break:cx_scale-build', 'harness no longer builds against the tree: %s' % str(e)[-400:], replay=None, nofail=True)
        return
    n_gen = 4000 if ctx.quick else 40000
    if not pr['ok']:
        n_gen *= 3      # search harder when a proof broke
    float_selftest(ctx, exe, oracle, 2000)
    libm_check(ctx, exe, oracle)
    kernel_tie(ctx, exe, oracle, 4000 if ctx.quick else 40000)
    pipe = Pipeline(ctx, exe, oracle, exc=True)
    cases = load_corpus('C16')
    ctx.count('corpus_cases', len(cases))
    g = Gen(ctx.rng.fork(1))
    for e in ENTRIES:
        for _ in range(n_gen * WEIGHT.get(e, 1) // 10):
            cases.append(g.case(e))
    recs = pipe.run(cases)
    nontriv = 0
    for rec in recs:
        c = rec['case']
        ctx.count('evaluations')
        ctx.hist('entries', c.entry)
        ctx.hist('precision', c.p)
        if c.tag.startswith('R='):
            ctx.hist('grid_radius', c.tag.split()[0][2:])
        if judge(ctx, rec):
            nontriv += 1
            ctx.hist('nontrivial_by_entry', c.entry)
            if c.entry in ('clipperD_tree', 'booleanop_tree') and rec['D'].struct:
                ctx.hist('tree_depth', max(int(x) for x in rec['D'].struct[0::2]))
        if len(ctx.cov.get('samples', [])) < 4 and rec['D'].kind == 'OK' and any(rec['D'].sets[0]):
            ctx.sample(dict(case=c.body()[:300], D=rec['D'].line[:200]))
    ctx.cov['distinct_nontrivial'] = nontriv
    ctx.cov['rule'] = ('cases = corpus + seeded generator per entry point (shapes built on the scaled grid with fractions at/near .5 ties, '
                       'decimal-looking values with surplus digits, grid radii 2..2^49 and centres up to 2^51, precisions -8..8, all clip '
                       'types/fill rules/join/end types); non-trivial = inside the domain, non-empty result, bitwise equal to '
                       'descale(entry64(scaled inputs))')
    ctx.assumptions += [
        'BooleanOp/Intersect/Union/Difference/Xor(PathsD) are ClipperD operations: their documented scale is ClipperD\'s power of two',
        '"divided by that scale" is the multiplication by the correctly rounded reciprocal 1/scale that the code documents (exact for ClipperD)',
        'libm pow(10,p) is correctly rounded for p in -12..12 and ilogb/pow(2,n) exact on this platform (checked at run time against the Coq values)',
        'g++ -O1 -ffp-contract=off on x86-64 SSE2 implements IEEE binary64 (self-test against extracted PrimFloat on every run)']
    if not pr['ok'] and not ctx.violations:
        viol(ctx, 'proof-break:Properties_C16', 'Properties_C16.vo no longer builds: %s' % (pr['failed'][:1],), replay=dict(log=pr['log'][-1500:]), nofail=True)


def replay(ctx, path):
    d = json.load(open(path))
    rp = d.get('replay') or {}
    exe, oracle = setup(ctx)
    if 'kernel' in rp:
        h = vf.run_lines(exe, ['K ' + rp['kernel']]).stdout.strip()
        o = vf.run_lines(oracle, ['K 1 ' + rp['kernel']]).stdout.strip()
        ctx.log('impl : ' + h[:400]); ctx.log('model: ' + o[:400])
        H, O = Res(h), Res(o)
        if not (H.kind == O.kind == 'OK' and H.ec == O.ec and sets_bits(H.sets) == sets_bits(O.sets)):
            viol(ctx, d.get('key', 'kernel'), 'kernel differs from model', replay=rp)
        return
    if 'libm' in rp:
        libm_check(ctx, exe, oracle)
        return
    if 'line' in rp:
        c = case_from_body(rp['line'], tag='replay')
        recs = Pipeline(ctx, exe, oracle).run([c])
        rec = recs[0]
        ctx.log('D     : ' + rec['D'].line[:600])
        ctx.log('model : ' + rec['M'].line[:600])
        if rec.get('expS'):
            ctx.log('expect: ' + put_paths(rec['expS'][0])[:500] + ' | open ' + put_paths(rec['expS'][1])[:200])
        ctx.count('evaluations')
        judge(ctx, rec)
