"""C18 -- geometric predicates are exact, measurements accurate (clipper.core.h).

prove      coq/props/Properties_C18.v: Multiply / ProductsAreEqual / CrossProductSign (both preprocessor branches) /
           IsCollinear exact and GetSegmentIntersectPt parallelism exact (|coords| <= 2^25) over the definitions that
           cpp2v regenerates from the source on every run; PointInPolygon (|coords| <= 2^25) and Area (n B^2 < 2^51)
           exact over the hand models coq/model/Pip.v; the accuracy clause of GetSegmentIntersectPt REFUTED at 2^40
           (both variants) and, literally read, at 2^25 for the truncating variant (witnesses replayed here).
correspond (1) every translated target of clipper.core.h: native C++ == extracted Gallina on boundary grids + random
               values, __int128 and portable branch, HI_PRECISION on/off (cpp2v/validate.py);
           (2) HM+X: PointInPolygon / Area == extracted hand models, exactly (lattices exhaustively + random);
           (3) SPEC+O: every function against the exact specification extracted from Coq (coq/model/CoreSpec.v,
               base/Winding.v): integer predicates on boundary grids incl. INT64 extremes, PointInPolygon against
               on_path / parity of the winding number, GetSegmentIntersectPt against the exact rational crossing in
               regimes up to 2^40, Area against the exact shoelace sum.
(3) is also the search after a proof or tie break: it does not depend on coq/gen."""
import concurrent.futures as cf
import itertools, json, os, re, struct, sys
from fractions import Fraction
import vf

CPP2V = os.path.join(vf.VERIF, 'cpp2v')
if CPP2V not in sys.path:
    sys.path.insert(0, CPP2V)

PID = 'C18'
META = dict(
    text='CrossProductSign, IsCollinear, ProductsAreEqual exact for all 64-bit inputs whose differences do not overflow on both '
         'multiplication code paths, Multiply the exact 128-bit product; PointInPolygon exact (on/inside/outside, even-odd) for '
         'coordinates up to 2^25; GetSegmentIntersectPt reports parallelism exactly and otherwise a point on the first segment '
         'within one unit per axis of the true crossing (|coordinates| <= 2^40); Area = exact shoelace area to double rounding',
    note='integer predicates (both preprocessor branches) and exact parallelism of GetSegmentIntersectPt (both precision variants, '
         '|coords| <= 2^25) proved over definitions regenerated from clipper.core.h on every run; PointInPolygon (|coords| <= 2^25, '
         'any polygon not level with the query point) and Area (n*B^2 < 2^51) proved over hand models of the loops that are tied '
         'to the C++ by exact equality; accuracy of GetSegmentIntersectPt for |coords| <= 2^25 proved by binary64 error analysis '
         '(HI_PRECISION variant: within one unit, literally; default variant: within 1 + 2^-20); the accuracy clause is refuted at 2^40 for both variants '
         '(properly crossing segments reported parallel / results 10^6..10^10 units off) and, read literally, at 2^25 for the '
         'truncating variant (1 + O(2^-47)): known findings; accuracy beyond the proved bounds is validated against the exact '
         'rational crossing, Area beyond the exact regime against the rounding-error bound',
    technique='Coq proofs over definitions translated from the C++ on every run + hand models tied by exact equality + '
              'differential validation of the translation + Coq-extracted exact specification oracle',
    category='proof')

GROUPS = ['PIP', 'AREA', 'MUL', 'PEQ', 'CPS', 'COL', 'TRI', 'IS']
CORE_TARGETS = ['TriSign', 'Multiply', 'UInt128Struct_eq', 'ProductsAreEqual_int128', 'ProductsAreEqual_portable',
                'CrossProductSign_int128', 'CrossProductSign_portable', 'IsCollinear', 'CrossProduct', 'DotProduct',
                'GetSegmentIntersectPt_lo', 'GetSegmentIntersectPt_hi', 'SegmentsIntersect', 'GetClosestPointOnSegment',
                'PerpendicDistFromLineSqrd', 'Point64_ctor', 'Point64_ctor0', 'Point64_Init', 'Point64_eq', 'Point64_neq',
                'MidPoint', 'Sqr_i64', 'Sqr_d', 'GetSign_i64', 'GetSign_d']
I63 = 1 << 63
U64 = (1 << 64) - 1
P25 = 1 << 25
P40 = 1 << 40
PIPNAME = {'0': 'on', '1': 'inside', '2': 'outside', 'E': 'model-error'}


# ----------------------------------------------------------------------------- running binaries
def run_robust(binary, lines, timeout=150, env=None):
    """vf.par_lines, but a shard that crashed / hung is bisected: the offending line answers 'CRASH rc=..'
    (after three such lines the rest of the shard is answered 'CRASH not-run', so a function that hangs on
    everything costs minutes, not hours)."""
    n = len(lines)
    if n == 0:
        return []
    res = [None] * n

    def solve(idx, tmo, crashes):
        while idx:
            if crashes[0] >= 3:
                for i in idx:
                    res[i] = 'CRASH not-run'
                return
            p = vf.run_lines(binary, [lines[i] for i in idx], timeout=tmo, env=env)
            o = p.stdout.split('\n')[:-1]      # drops '' after a complete last line, or a partial line of a killed process
            if p.returncode == 0 and len(o) == len(idx):
                for i, x in zip(idx, o):
                    res[i] = x
                return
            good = 0 if p.returncode == 0 else min(len(o), len(idx) - 1)
            for i, x in zip(idx[:good], o[:good]):
                res[i] = x
            one = idx[good]
            p1 = vf.run_lines(binary, [lines[one]], timeout=20, env=env)
            o1 = p1.stdout.split('\n')
            if p1.returncode == 0 and len(o1) >= 1 and o1[0] != '':
                res[one] = o1[0]
            else:
                res[one] = 'CRASH rc=%s %s' % (p1.returncode, ' '.join(p1.stderr[-300:].split()))
                crashes[0] += 1
            idx = idx[good + 1:]

    chunk = max(1, (n + vf.NPROC - 1) // vf.NPROC)
    shards = [list(range(i, min(n, i + chunk))) for i in range(0, n, chunk)]
    with cf.ThreadPoolExecutor(max_workers=vf.NPROC) as ex:
        list(ex.map(lambda s: solve(s, timeout, [0]), shards))
    return res


class Tools:
    """the three native builds of harness/cx_c18.cpp, the specification oracle and the model oracle"""

    def __init__(self, ctx):
        self.ctx = ctx
        self.tie = []            # (what, detail): things that no longer build against the tree
        self.excluded = {}       # variant -> command groups compiled out
        import cpp2v
        work = os.path.join(cpp2v.CACHE, 'work', cpp2v.input_hash(vf.REPO)[:16])
        os.makedirs(work, exist_ok=True)
        phdr, nrep = cpp2v.portable_header(vf.REPO, work)
        self.portable_ok = nrep > 0
        if not self.portable_ok:
            self.tie.append(('portable-branch', 'the `#if (defined(__clang__) || defined(__GNUC__)) && UINTPTR_MAX >= UINT64_MAX` line '
                                                'selecting the 128-bit branch is gone from clipper.core.h: the portable branch cannot be isolated'))
        var = {'plain': ('plain', []), 'hi': ('hi', []), 'portable': ('plain', ['-DCX_CORE_H="%s"' % phdr])}
        self.exe = {}
        with cf.ThreadPoolExecutor(max_workers=3) as ex:
            futs = {k: ex.submit(self._build, k, v[0], v[1]) for k, v in var.items()}
            for k, fu in futs.items():
                self.exe[k] = fu.result()
        if self.exe.get('portable'):
            ctx.builds.append('cx_c18.cpp[portable: 128-bit #if forced to #if 0]')
        self.spec = vf.oracle_build('c18')
        try:
            self.model = vf.oracle_build('c18m')
        except vf.Infra as e:
            self.model = None
            self.tie.append(('model-oracle', 'coq/extract/Extract_c18m.v (hand models + translated kernels) does not build: ' + str(e)[-600:]))

    def _build(self, name, var, extra):
        try:
            return vf.build_cpp(self.ctx, 'cx_c18.cpp', var, extra=extra)
        except vf.BuildFailure as e:
            err = str(e)
        bad = []
        for g in GROUPS:
            try:
                vf.build_cpp(self.ctx, 'cx_c18.cpp', var, extra=extra + ['-DCX_NO_' + h for h in GROUPS if h != g])
            except vf.BuildFailure:
                bad.append(g)
        self.tie.append(('cx_c18[%s]' % name, 'command groups %s no longer compile against the tree: %s' % (bad, err[-500:])))
        if len(bad) == len(GROUPS):
            return None
        self.excluded[name] = set(bad)
        try:
            return vf.build_cpp(self.ctx, 'cx_c18.cpp', var, extra=extra + ['-DCX_NO_' + g for g in bad])
        except vf.BuildFailure:
            return None

    def has(self, variant, group):
        return self.exe.get(variant) is not None and group not in self.excluded.get(variant, ()) and \
            (variant != 'portable' or self.portable_ok)

    def impl(self, variant, lines, timeout=150):
        return run_robust(self.exe[variant], lines, timeout=timeout)

    def spec_run(self, lines):
        out, fails = vf.par_lines(self.spec, lines, timeout=900)
        if fails or any(o.startswith('ERR') for o in out):
            bad = [o for o in out if o.startswith('ERR')][:1]
            raise vf.Infra('oracle_c18 failed: %s' % (fails[0][2][-300:] if fails else bad))
        return out

    def model_run(self, lines):
        out, fails = vf.par_lines(self.model, lines, timeout=900)
        if fails:
            raise vf.Infra('oracle_c18m failed: %s' % fails[0][2][-300:])
        return out


# ----------------------------------------------------------------------------- (1) translated targets
def translator_tie(ctx, n_random):
    """native vs extracted Gallina for every translated target of clipper.core.h; returns (n, disagreements, error)"""
    import validate
    try:
        n, bad = validate.validate(ctx, n_random, targets=set(CORE_TARGETS))
        per = getattr(validate.validate, 'last', {}).get('per_target', {})
        ctx.cov['translated_targets_compared'] = per
        ctx.cov['translated_skipped_ub'] = getattr(validate.validate, 'last', {}).get('skipped', 0)
        return n, bad, None
    except vf.Infra as e:
        return 0, [], str(e)


# ----------------------------------------------------------------------------- (3a) integer predicates
BJ = [0, 1, -1, 2, -2, 1 << 31, -(1 << 31), (1 << 32) - 1, -(1 << 32), 1 << 61, -(1 << 61), (1 << 62) - 1, -(1 << 62),
      I63 - 1, -I63, -I63 + 1, (1 << 53) + 1]
BU = [0, 1, 2, 1 << 31, (1 << 32) - 1, 1 << 32, (1 << 32) + 1, 1 << 61, (1 << 63) - 1, 1 << 63, U64, U64 - 1,
      0xFFFFFFFF00000000, 0x00000000FFFFFFFF, 0x100000001, 0xFFFFFFFF00000001]
BC = [0, 1, -1, 2, 1 << 31, -(1 << 31), 1 << 61, -(1 << 61), (1 << 62) - 1, -(1 << 62) + 1, 1 << 62, -(1 << 62)]


def rbits(r, maxbits, signed=True):
    b = r.range(0, maxbits)
    v = r.below(1 << b) if b else 0
    return -v if signed and r.chance(1, 2) else v


def in_i64(v):
    return -I63 <= v < I63


def diffs_ok(p, q, r):
    return all(in_i64(v) for v in (q[0] - p[0], r[1] - q[1], q[1] - p[1], r[0] - q[0]))


def gen_int_cases(rng, n):
    """lines for MUL / PEQ / CPS / COL / TRI: boundary grids (INT64 extremes included) + constructed + random"""
    L = []
    for a in BU:
        for b in BU:
            L.append('MUL %d %d' % (a, b))
    for a in BJ:
        L.append('TRI %d' % a)
    small = [0, 1, -1, 1 << 31, -(1 << 31), 1 << 61, -(1 << 61), I63 - 1, -I63]
    for t in itertools.product(small, repeat=4):
        L.append('PEQ %d %d %d %d' % t)
    pts = [(x, y) for x in BC for y in BC]
    for _ in range(n):
        L.append('MUL %d %d' % (rbits(rng, 64, False), rbits(rng, 64, False)))
        # products: random / equal by construction / equal up to sign / differing only in the high or only in the low word
        k = rng.below(8)
        if k == 0:
            t = [max(-I63, min(I63 - 1, rbits(rng, 63))) for _ in range(4)]
        elif k == 1:
            t = [rng.choice(BJ) for _ in range(4)]
        else:
            p, q, r, s = (rbits(rng, 31) for _ in range(4))
            t = [p * q, r * s, p * r, q * s]
            if k == 3:
                t[rng.below(4)] *= -1
            elif k == 4:
                t[rng.below(4)] += rng.choice([1, -1])
            elif k == 5:                       # equal low words, different high words
                x, y, x2, y2 = (rbits(rng, 30) for _ in range(4))
                t = [x << 32, y << 32, x2 << 32, y2 << 32]
            elif k == 6:                       # |a*b| = |c*d| with independent signs
                t = [v * rng.choice([1, -1]) for v in t]
            elif k == 7:
                t = [t[0], t[1], t[1], t[0]]
        if all(in_i64(v) for v in t):
            L.append('PEQ %d %d %d %d' % tuple(t))
        # points
        k = rng.below(6)
        if k == 0:
            tri = [rng.choice(pts) for _ in range(3)]
        elif k == 1:
            tri = [(rbits(rng, 62), rbits(rng, 62)) for _ in range(3)]
        elif k in (2, 3):                      # collinear at large magnitude, then maybe nudged by one
            p = (rbits(rng, 61), rbits(rng, 61))
            v = (rbits(rng, 30), rbits(rng, 30))
            a, b = rbits(rng, 30), rbits(rng, 30)
            tri = [p, (p[0] + a * v[0], p[1] + a * v[1]), (p[0] + b * v[0], p[1] + b * v[1])]
            if k == 3:
                j = rng.below(3)
                tri[j] = (tri[j][0] + rng.choice([1, -1, 0]), tri[j][1] + rng.choice([1, -1, 0]))
        elif k == 4:
            base = rng.choice(pts)
            tri = [(base[0] + rng.range(-2, 2), base[1] + rng.range(-2, 2)) for _ in range(3)]
        else:                                  # differences at the int64 extremes
            tri = [(rng.choice([1 << 62, -(1 << 62), (1 << 62) - 1, 0, 1]), rng.choice([1 << 62, -(1 << 62), (1 << 62) - 1, 0, -1]))
                   for _ in range(3)]
        if all(in_i64(c) for pnt in tri for c in pnt) and diffs_ok(*tri):
            s = ' '.join('%d %d' % pnt for pnt in tri)
            L.append('CPS ' + s)
            L.append('COL ' + s)
    seen, out = set(), []
    for l in L:
        if l not in seen:
            seen.add(l)
            out.append(l)
    return out


INT_FN = {'MUL': 'Multiply', 'PEQ': 'ProductsAreEqual', 'CPS': 'CrossProductSign', 'COL': 'IsCollinear', 'TRI': 'TriSign'}


def int_predicates(ctx, tools, n):
    lines = gen_int_cases(ctx.rng.fork(11), n)
    exp = tools.spec_run(lines)
    found = 0
    nontriv = 0
    for l, e in zip(lines, exp):
        c = l.split()[0]
        if (c == 'MUL' and e.split()[1] != '0') or (c in ('PEQ', 'COL') and e == '1') or (c == 'CPS' and e == '0') or c == 'TRI':
            nontriv += 1
    ctx.count('int_nontrivial', nontriv)
    for variant, branch in (('plain', 'int128'), ('portable', 'portable')):
        sub = [i for i, l in enumerate(lines) if tools.has(variant, l.split()[0])]
        if not sub:
            continue
        got = tools.impl(variant, [lines[i] for i in sub])
        ctx.count('evaluations', len(sub))
        ctx.count('int_evaluations', len(sub))
        reported = set()
        for i, g in zip(sub, got):
            if g != exp[i]:
                fn = INT_FN[lines[i].split()[0]]
                key = 'int.%s.%s' % (fn, branch) if fn in ('ProductsAreEqual', 'CrossProductSign', 'IsCollinear') else 'int.%s' % fn
                found += 1
                ctx.hist('failures', key)
                if key in reported:
                    continue
                reported.add(key)
                # prefer the smallest failing line of this kind
                cands = [j for j, g2 in zip(sub, got) if g2 != exp[j] and lines[j].split()[0] == lines[i].split()[0]]
                j = min(cands, key=lambda k: len(lines[k]))
                gj = got[sub.index(j)]
                ctx.violation(key, '%s [%s branch] is not exact: `%s` returned `%s`, exact `%s`' % (fn, branch, lines[j], gj, exp[j]),
                              replay=dict(kind='int', variant=variant, line=lines[j], got=gj, exact=exp[j]))
    for l in lines[:1] + lines[len(lines) // 2:len(lines) // 2 + 1]:
        ctx.sample(dict(family='int', line=l))
    return found, nontriv


# ----------------------------------------------------------------------------- (2)/(3b) PointInPolygon
def lattice_lines(N, K):
    pts = [(x, y) for y in range(N) for x in range(N)]
    hdr = 'PIPG 0 0 %d %d %d' % (N - 1, N - 1, K)
    for poly in itertools.product(pts, repeat=K):
        yield hdr + ''.join(' %d %d' % p for p in poly)


def gen_pip_random(rng, n):
    """(q, poly, regime): regimes 'small' (|c|<=4, many level vertices), 'p25' (<=2^25, q on vertices / edges / level
    with a vertex), 'big' (<= 2^61: outside the property, hand model == C++ only)"""
    out = []
    for i in range(n):
        k = i % 6
        nv = rng.choice([3, 3, 4, 4, 5, 6, 7, 9, 12])
        if k <= 1:
            poly = [(rng.range(-4, 4), rng.range(-4, 4)) for _ in range(nv)]
            q = (rng.range(-5, 5), rng.range(-5, 5))
            out.append((q, poly, 'small'))
            continue
        B = P25 if k <= 4 else rng.choice([1 << 26, 1 << 31, 1 << 40, 1 << 52, 1 << 61])
        if rng.chance(1, 3):
            poly = [(rng.range(-B, B), rng.range(-B, B)) for _ in range(nv)]
        else:   # few distinct ordinates / abscissae: level vertices, horizontal edges, spikes
            xs = [rng.range(-B, B) for _ in range(rng.range(2, 4))] + [B, -B]
            ys = [rng.range(-B, B) for _ in range(rng.range(2, 3))] + [B, -B]
            poly = [(rng.choice(xs), rng.choice(ys)) for _ in range(nv)]
        m = rng.below(6)
        a = poly[rng.below(nv)]
        b = poly[rng.below(nv)]
        if m == 0:
            q = a
        elif m == 1:
            q = ((a[0] + b[0]) // 2, (a[1] + b[1]) // 2)
        elif m == 2:
            q = (rng.range(-B, B), a[1])
        elif m == 3:
            q = (a[0] + rng.range(-1, 1), b[1] + rng.range(-1, 1))
        elif m == 4:   # a lattice point on the edge a-b
            from math import gcd
            g = gcd(abs(b[0] - a[0]), abs(b[1] - a[1]))
            t = rng.range(0, g) if g else 0
            q = (a[0] + (b[0] - a[0]) // g * t, a[1] + (b[1] - a[1]) // g * t) if g else a
        else:
            q = (rng.range(-B, B), rng.range(-B, B))
        q = (max(-B, min(B, q[0])), max(-B, min(B, q[1])))
        out.append((q, poly, 'p25' if B == P25 else 'big'))
    return out


def pip_line(q, poly):
    return 'PIP %d %d %d %s' % (q[0], q[1], len(poly), vf.fmt_path(poly))


def pip_what(q, poly, got, exp):
    return ('PointInPolygon((%d,%d), %s) returned %s; by the even-odd rule the point is %s'
            % (q[0], q[1], [list(p) for p in poly], PIPNAME.get(got, got), PIPNAME.get(exp, exp)))


def pip_section(ctx, tools, lattices, n_random):
    """returns (spec failures, model mismatches)"""
    if not tools.has('plain', 'PIP'):
        return 0, 0
    nfail = nmis = 0
    rep_spec, rep_mod = {}, None
    inside = 0
    for N, K in lattices:
        lines = list(lattice_lines(N, K))
        a = tools.impl('plain', lines)
        s = tools.spec_run(lines) if K >= 3 else None
        m = tools.model_run(lines) if tools.model else None
        ctx.count('evaluations', len(lines) * N * N)
        ctx.count('pip_lattice_evaluations', len(lines) * N * N)
        ctx.hist('pip_lattices', '%dx%d/%d-gon' % (N, N, K), len(lines))
        for idx, l in enumerate(lines):
            x = a[idx]
            if m is not None and m[idx] != x:
                nmis += 1
                if rep_mod is None:
                    rep_mod = (l, x, m[idx])
            if s is None:
                continue
            y = s[idx]
            inside += len(y) - y.count('2')
            if x == y:
                continue
            if x.startswith('CRASH') or len(x) != len(y):
                nfail += 1
                rep_spec.setdefault('pip.crash', (l, None, x, y))
                continue
            t = l.split()
            poly = [(int(t[6 + 2 * k]), int(t[7 + 2 * k])) for k in range(K)]
            ys = {p[1] for p in poly}
            for j in range(len(y)):
                if x[j] != y[j]:
                    q = (j % N, j // N)
                    if len(ys) == 1 and q[1] in ys:
                        continue            # polygon contained in the horizontal line through q: outside the property
                    nfail += 1
                    key = 'pip.%s-reported-%s' % (PIPNAME[y[j]], PIPNAME.get(x[j], 'other'))
                    ctx.hist('failures', key)
                    old = rep_spec.get(key)
                    if old is None or len(poly) < len(old[1]):
                        rep_spec[key] = (q, poly, x[j], y[j])
    rnd = gen_pip_random(ctx.rng.fork(21), n_random)
    lines = [pip_line(q, p) for q, p, _ in rnd]
    a = tools.impl('plain', lines)
    m = tools.model_run(lines) if tools.model else [None] * len(lines)
    sidx = [i for i, c in enumerate(rnd) if c[2] != 'big']
    s = dict(zip(sidx, tools.spec_run([lines[i] for i in sidx])))
    ctx.count('evaluations', len(lines))
    ctx.count('pip_random_evaluations', len(lines))
    seen = set()
    for i, (q, poly, reg) in enumerate(rnd):
        ctx.hist('pip_random_regime', reg)
        ctx.hist('sizes', len(poly))
        if m[i] is not None and m[i] != a[i]:
            nmis += 1
            if rep_mod is None:
                rep_mod = (lines[i], a[i], m[i])
        if i in s:
            if s[i] != '2' and lines[i] not in seen:
                seen.add(lines[i])
                inside += 1
            if a[i] != s[i]:
                if len({p[1] for p in poly}) == 1 and q[1] == poly[0][1]:
                    continue
                nfail += 1
                key = 'pip.crash' if a[i].startswith('CRASH') else 'pip.%s-reported-%s' % (PIPNAME[s[i]], PIPNAME.get(a[i], 'other'))
                ctx.hist('failures', key)
                old = rep_spec.get(key)
                if old is None or (old[1] is not None and len(poly) < len(old[1])):
                    rep_spec[key] = (q, poly, a[i], s[i])
    ctx.count('pip_nontrivial', inside)
    for key, (q, poly, got, exp) in sorted(rep_spec.items()):
        if key == 'pip.crash':
            ctx.violation(key, 'PointInPolygon crashes or hangs: `%s` -> %s' % (q if poly is None else pip_line(q, poly), got),
                          replay=dict(kind='pipline', line=q) if poly is None else dict(kind='pip', q=list(q), poly=[list(p) for p in poly]))
        else:
            ctx.violation(key, pip_what(q, poly, got, exp), replay=dict(kind='pip', q=list(q), poly=[list(p) for p in poly]))
    ctx.cov['pip_model_mismatches'] = nmis
    ctx.sample(dict(family='pip', line=lines[0], impl=a[0], model=m[0], spec=s.get(0)))
    return nfail, (nmis, rep_mod)


# ----------------------------------------------------------------------------- (3c) GetSegmentIntersectPt
def convergents(num, den):
    res, p0, q0, p1, q1 = [], 0, 1, 1, 0
    n, d = num, den
    while d:
        a = n // d
        p0, q0, p1, q1 = p1, q1, a * p1 + p0, a * q1 + q0
        res.append((p1, q1))
        n, d = d, n - a * d
    return res


def egcd(a, b):
    x0, y0, x1, y1 = 1, 0, 0, 1
    while b:
        q = a // b
        a, b = b, a - q * b
        x0, x1 = x1, x0 - q * x1
        y0, y1 = y1, y0 - q * y1
    return a, x0, y0


ISECT_STYLES = ['random', 'nearpar', 'cf', 'eps', 'axis', 'touch', 'parallel']
ISECT_REGIMES = [8, 1 << 10, 1 << 20, 1 << 25, 1 << 26, 1 << 30, 1 << 35, 1 << 40]


def gen_isect(rng, style, B):
    """four points a b c d with |coords| <= B (None when the construction does not fit)"""
    R = rng.range

    def rp():
        return (R(-B, B), R(-B, B))
    if style == 'random':
        return rp(), rp(), rp(), rp()
    if style == 'axis':
        a, b = rp(), rp()
        if rng.chance(1, 2):
            x = R(min(a[0], b[0]), max(a[0], b[0]))
            return a, b, (x, R(-B, B)), (x, R(-B, B))
        y = R(min(a[1], b[1]), max(a[1], b[1]))
        return a, b, (R(-B, B), y), (R(-B, B), y)
    if style == 'nearpar':
        a, b = rp(), rp()
        e = lambda: R(-3, 3)
        return a, b, (a[0] + e(), a[1] + e()), (b[0] + e(), b[1] + e())
    if style == 'parallel':
        a = rp()
        v = (R(-B, B) // rng.choice([1, 3, 1000]), R(-B, B) // rng.choice([1, 3, 1000]))
        k1, k2 = rng.choice([1, 2, 3]), rng.choice([1, 2, 3, -1, -2])
        c = rp() if rng.chance(1, 2) else (a[0] + v[0] * rng.range(-1, 2), a[1] + v[1] * rng.range(-1, 2))
        return a, (a[0] + k1 * v[0], a[1] + k1 * v[1]), c, (c[0] + k2 * v[0], c[1] + k2 * v[1])
    if style == 'touch':
        a, b, c = rp(), rp(), rp()
        from math import gcd
        g = gcd(abs(b[0] - a[0]), abs(b[1] - a[1]))
        if g == 0:
            return a, b, c, a
        t = rng.choice([0, g, R(0, g), R(0, g)])
        p = (a[0] + (b[0] - a[0]) // g * t, a[1] + (b[1] - a[1]) // g * t)
        k = rng.below(3)
        if k == 0:
            return a, b, c, p                 # an end point of the second segment on the first
        if k == 1:
            return p, c, a, b                 # an end point of the first segment on the second
        return a, b, (2 * p[0] - c[0], 2 * p[1] - c[1]), c   # crossing in a lattice point
    if style == 'cf':
        # near-parallel long segments crossing properly: c, d best rational approximations on either side of a-b
        dx, dy = R(B // 2, B * 3 // 2), R(B // 4, B * 3 // 2) * rng.choice([1, -1])
        if dx <= 0 or dy == 0:
            return None
        cv = convergents(dy, dx)
        if len(cv) < 4:
            return None
        a = (-(dx // 2), -(dy // 2))
        b = (a[0] + dx, a[1] + dy)
        k = R(0, len(cv) - 3)
        (p, q), (p2, q2), sg = rng.choice([(cv[k], cv[k + 1], 1), (cv[k], cv[k + 2], -1), (cv[k + 1], cv[k], 1)])
        return a, b, (a[0] + q, a[1] + p), (b[0] + sg * q2, b[1] + sg * p2)
    if style == 'eps':
        # c-d nearly vertical through a lattice point next to the line a-b: the crossing has an abscissa k +- tiny
        a, b = (R(-B, 0), R(-B, 0)), (R(0, B), R(0, B))
        dx, dy = b[0] - a[0], b[1] - a[1]
        if dx <= 0 or dy <= 0:
            return None
        g, x, y = egcd(dx, dy)
        if g != 1:
            return None
        s = rng.choice([1, -1])
        u, v = -y * s, x * s
        k = -((u - dx // 2) // dx)
        u, v = u + k * dx, v + k * dy
        P = (a[0] + u, a[1] + v)
        room = B - abs(P[1]) - 1
        if room < 1 or abs(P[0]) >= B - 1:
            return None
        w = R(1, room)
        sx = rng.choice([1, -1])
        if rng.chance(1, 2):
            return a, b, (P[0] - sx, P[1] - w), (P[0] + sx, P[1] + w)
        # the same with the roles of x and y exchanged
        sw = lambda t: (t[1], t[0])
        return sw(a), sw(b), sw((P[0] - sx, P[1] - w)), sw((P[0] + sx, P[1] + w))
    return None


def gen_isect_cases(rng, n_per):
    cases = []
    lat = [(x, y) for x in range(3) for y in range(3)]
    for c in itertools.product(lat, repeat=4):
        cases.append((c, 'lattice', 8))
    for B in ISECT_REGIMES:
        for st in ISECT_STYLES:
            got = tries = 0
            while got < n_per and tries < 6 * n_per:
                tries += 1
                c = gen_isect(rng, st, B)
                if c is None or max(abs(v) for p in c for v in p) > B:
                    continue
                cases.append((c, st, B))
                got += 1
    return cases


def isect_regime(c):
    return 'le2p25' if max(abs(v) for p in c for v in p) <= P25 else 'gt2p25'


def isect_classify(variant, c, res, verdict):
    """res = 'ret x y' of the implementation, verdict = ISV bits; returns the key of the violated clause or None"""
    par, proper, closed, w1, w1e, inbox, _ok = [b == '1' for b in verdict.split()]
    ret = res.split()[0] == '1'
    reg = isect_regime(c)
    if par:
        return 'isect.parallel-not-reported.%s' % variant if ret else None
    if not ret:
        return 'isect.false-parallel.%s.%s' % (variant, reg)
    if closed and not (w1 and inbox):
        if variant == 'lo' and w1e and inbox:
            return 'isect.trunc-exceeds-1.lo'
        return 'isect.inaccurate.%s.%s' % (variant, reg)
    return None


def pts_str(c):
    return ' '.join('%d %d' % p for p in c)


def exact_crossing(c):
    a, b, cc, d = c
    dx1, dy1, dx2, dy2 = b[0] - a[0], b[1] - a[1], d[0] - cc[0], d[1] - cc[1]
    det = dy1 * dx2 - dy2 * dx1
    if det == 0:
        return None
    t = Fraction((a[0] - cc[0]) * dy2 - (a[1] - cc[1]) * dx2, det)
    return a[0] + t * dx1, a[1] + t * dy1


ISECT_WHAT = {
    'false-parallel': 'returns false (parallel) for segments that are not parallel',
    'parallel-not-reported': 'returns true for parallel segments',
    'inaccurate': 'returns a point that is not within one unit per axis of the true crossing inside the first segment\'s box',
    'trunc-exceeds-1': 'truncates to a point 1 + tiny (< 2^-20) from the true crossing in one axis (more than the one unit stated)',
}


def isect_what(variant, c, res, key):
    x = exact_crossing(c)
    xs = '(%.6f, %.6f)' % (float(x[0]), float(x[1])) if x else 'none (parallel)'
    r = res.split()
    dist = ''
    if x and r[0] == '1':
        ex, ey = abs(int(r[1]) - x[0]), abs(int(r[2]) - x[1])
        dist = '; |ip - crossing| = (%.3g, %.3g)%s' % (float(ex), float(ey), ' i.e. 1 + %.3g' % float(max(ex, ey) - 1) if 1 < max(ex, ey) < 1.001 else '')
    mode = key.split('.')[1]
    return ('GetSegmentIntersectPt [%s] %s: a=%s b=%s c=%s d=%s -> ret=%s ip=(%s,%s); exact crossing %s%s'
            % ('CLIPPER2_HI_PRECISION' if variant == 'hi' else 'default', ISECT_WHAT.get(mode, mode),
               c[0], c[1], c[2], c[3], r[0], r[1] if len(r) > 1 else '?', r[2] if len(r) > 2 else '?', xs, dist))


def isect_eval(tools, cases):
    """-> {variant: [(res, verdict)]}"""
    out = {}
    for variant, exe in (('lo', 'plain'), ('hi', 'hi')):
        if not tools.has(exe, 'IS'):
            continue
        res = tools.impl(exe, ['IS %s 7 9' % pts_str(c) for c, _, _ in cases])
        okl = [i for i, r in enumerate(res) if len(r.split()) == 3 and not r.startswith('CRASH')]
        ver = dict(zip(okl, tools.spec_run(['ISV %s %s' % (pts_str(cases[i][0]), res[i]) for i in okl])))
        out[variant] = [(res[i], ver.get(i)) for i in range(len(cases))]
    return out


def isect_section(ctx, tools, n_per):
    cases = gen_isect_cases(ctx.rng.fork(31), n_per)
    ev = isect_eval(tools, cases)
    nfail = 0
    crossing = set()
    for variant, rows in ev.items():
        ctx.count('evaluations', len(cases))
        ctx.count('isect_evaluations', len(cases))
        best = {}
        for (c, st, B), (res, ver) in zip(cases, rows):
            if ver is None:
                key = 'isect.crash.%s' % variant
            else:
                key = isect_classify(variant, c, res, ver)
                bits = ver.split()
                if bits[2] == '1':
                    crossing.add(c)
                if variant == 'lo':
                    ctx.hist('isect_cases', '%s/2^%d' % (st, B.bit_length() - 1))
                    if bits[1] == '1':
                        ctx.hist('isect_proper_crossings', '2^%d' % (B.bit_length() - 1))
            if key:
                nfail += 1
                ctx.hist('failures', key)
                ctx.hist('isect_failures_by_regime', '%s@2^%d' % (key, B.bit_length() - 1))
                size = sum(abs(v) for p in c for v in p)
                if key not in best or size < best[key][0]:
                    best[key] = (size, c, res)
        for key, (_, c, res) in sorted(best.items()):
            ctx.violation(key, isect_what(variant, c, res, key) if 'crash' not in key else 'GetSegmentIntersectPt crashes: %s -> %s' % (pts_str(c), res),
                          replay=dict(kind='isect', variant=variant, pts=[list(p) for p in c], got=res))
    ctx.count('isect_nontrivial', len(crossing))
    ctx.sample(dict(family='isect', pts=[list(p) for p in cases[len(cases) // 2][0]], style=cases[len(cases) // 2][1]))
    return nfail


def coq_witnesses():
    """the witnesses of the _refuted theorems, read from coq/proofs/Core_isect.v"""
    txt = vf.read(os.path.join(vf.COQ, 'proofs', 'Core_isect.v'))
    d = {}
    for m in re.finditer(r'Definition (\w+)_([abcd]) : pt := \((-?\d+), (-?\d+)\)\.', txt):
        d.setdefault(m.group(1), {})[m.group(2)] = (int(m.group(3)), int(m.group(4)))
    return {k: (v['a'], v['b'], v['c'], v['d']) for k, v in d.items() if len(v) == 4}


def witness_replay(ctx, tools):
    """the kernel-checked witnesses of the refuted clauses, on the compiled code: each must fail there as well"""
    W = coq_witnesses()
    exp = {'w40': {'lo': 'false-parallel', 'hi': 'false-parallel'}, 'f40': {'lo': 'inaccurate', 'hi': 'inaccurate'},
           'e25': {'lo': 'trunc-exceeds-1'}}
    cases = [(W[k], 'witness:' + k, 0) for k in sorted(W)]
    names = sorted(W)
    ev = isect_eval(tools, cases)
    rep = {}
    nfail = 0
    for variant, rows in ev.items():
        for nm, (c, _, _), (res, ver) in zip(names, cases, rows):
            key = isect_classify(variant, c, res, ver) if ver else 'isect.crash.%s' % variant
            want = exp.get(nm, {}).get(variant)
            rep['%s.%s' % (nm, variant)] = dict(native=res, verdict=ver, key=key)
            if key:
                nfail += 1
                ctx.violation(key, isect_what(variant, c, res, key) + ' [witness %s of the _refuted theorem, replayed on the compiled function]' % nm,
                              replay=dict(kind='isect', variant=variant, pts=[list(p) for p in c], got=res, witness=nm))
            if want and (key is None or want not in key):
                ctx.notes.append('witness %s [%s]: the model fails the clause (%s) but the compiled function gives %s (%s)' % (nm, variant, want, res, key))
    ctx.cov['refuted_witnesses_replayed'] = rep
    return nfail


# ----------------------------------------------------------------------------- (2)/(3d) Area
def gen_area_cases(rng, n):
    out = [[], [(0, 0)], [(0, 0), (5, 7)], [(0, 0), (4, 0), (0, 4)], [(0, 0), (4, 0), (4, 4), (0, 4)]]
    for i in range(n):
        nv = rng.choice([3, 3, 4, 4, 5, 6, 7, 8, 9, 16, 17, 40, 41])
        B = rng.choice([10, 1000, 1 << 20, 1 << 23, 1 << 24, 1 << 25, 1 << 26, 1 << 30, 1 << 40, 1 << 52, 1 << 61])
        k = rng.below(4)
        if k == 0:
            p = [(rng.range(-B, B), rng.range(-B, B)) for _ in range(nv)]
        elif k == 1:    # all in one quadrant far from the origin: massive cancellation
            p = [(B - rng.range(0, max(1, B // 1000)), B - rng.range(0, max(1, B // 1000))) for _ in range(nv)]
        elif k == 2:
            p = [(rng.choice([B, -B, 0, B - 1]), rng.choice([B, -B, 0, 1 - B])) for _ in range(nv)]
        else:
            import math
            p = []
            for j in range(nv):
                ang = 2 * math.pi * j / nv
                p.append((int(B * 0.9 * math.cos(ang)), int(B * 0.9 * math.sin(ang))))
        out.append(p)
    return out


def dbl(s):
    s = s.replace('infinity', 'inf')
    if 'nan' in s:
        return None
    return float(s) if 'inf' in s else float.fromhex(s)


def area_section(ctx, tools, n):
    if not tools.has('plain', 'AREA'):
        return 0, (0, None)
    rng = ctx.rng.fork(41)
    polys = gen_area_cases(rng, n)
    lines = ['AREA %d %s' % (len(p), vf.fmt_path(p)) for p in polys]
    groups = []
    for i in range(n // 4):
        k = rng.range(0, 4)
        groups.append([polys[rng.below(len(polys))] for _ in range(k)])
    glines = ['AREAS ' + vf.fmt_paths(g) for g in groups]
    a = tools.impl('plain', lines + glines)
    s = tools.spec_run(lines + glines)
    m = tools.model_run(lines + glines) if tools.model else [None] * len(a)
    ctx.count('evaluations', len(a))
    ctx.count('area_evaluations', len(a))
    nfail = nmis = 0
    rep_mod = None
    best = {}
    nz = 0
    for i, l in enumerate(lines + glines):
        single = i < len(lines)
        ps = [polys[i]] if single else groups[i - len(lines)]
        got = dbl(a[i]) if not a[i].startswith('CRASH') else None
        if m[i] is not None:
            mv = dbl(m[i]) if m[i] != 'ERR' else None
            same = (got is not None and mv is not None and struct.pack('<d', got) == struct.pack('<d', mv)) or (got is None and mv is None and not a[i].startswith('CRASH'))
            if not same:
                nmis += 1
                if rep_mod is None:
                    rep_mod = (l, a[i], m[i])
        st = s[i].split()
        area2 = int(st[0])
        nv = sum(len(p) for p in ps)
        B = max([abs(v) for p in ps for pt in p for v in pt] + [0])
        if single:
            sabs = int(st[1])
        else:
            sabs = sum(abs((p[(j - 1) % len(p)][1] + p[j][1]) * (p[(j - 1) % len(p)][0] - p[j][0])) for p in ps for j in range(len(p)))
        if area2 != 0:
            nz += 1
        exact_regime = nv * B * B < (1 << 51)
        ctx.hist('area_regime', 'exact' if exact_regime else 'rounded')
        key = None
        if got is None or got != got or got in (float('inf'), float('-inf')):
            key = 'area.not-finite' if not a[i].startswith('CRASH') else 'area.crash'
        elif exact_regime:
            if Fraction(got) * 2 != area2:
                key = 'area.inexact-in-exact-regime'
        else:
            # each term: two int->double conversions and a product, then n additions: (n + 3) u sum|terms|, halved
            tol = Fraction(nv + len(ps) + 3, 1 << 53) * sabs / 2 * Fraction(10001, 10000)
            if abs(Fraction(got) - Fraction(area2, 2)) > tol:
                key = 'area.beyond-double-rounding'
        if key:
            nfail += 1
            ctx.hist('failures', key)
            if key not in best or nv < best[key][0]:
                best[key] = (nv, ps, single, a[i], area2)
    for key, (_, ps, single, got, area2) in sorted(best.items()):
        ctx.violation(key, 'Area(%s) returned %s = %s; exact shoelace area %s/2' % ([list(map(list, p)) for p in ps] if not single else [list(v) for v in ps[0]],
                                                                                    got, dbl(got) if not got.startswith('CRASH') else '-', area2),
                      replay=dict(kind='area', paths=[[list(v) for v in p] for p in ps], single=single))
    ctx.count('area_nontrivial', nz)
    ctx.cov['area_model_mismatches'] = nmis
    ctx.sample(dict(family='area', line=lines[7][:300], impl=a[7], spec=s[7]))
    return nfail, (nmis, rep_mod)


# ----------------------------------------------------------------------------- run
PROOF_FILES = ['proofs/Core_int.v', 'proofs/Core_float.v', 'proofs/Core_isect.v', 'proofs/Core_isect_acc.v', 'proofs/Core_area.v',
               'proofs/Pip_walk.v', 'proofs/Pip_loop.v']


def stage(ctx, name):
    """section marker; a run against a scratch copy keeps its private build directory (vf.ALT) fresh, because
    vf.alt_sync of a concurrent run removes the least recently modified ones"""
    ctx.log(name)
    alt = getattr(vf, 'ALT', None)
    if alt and os.path.isdir(alt):
        try:
            os.utime(alt, None)
        except OSError:
            pass


def supporting_qed():
    n = 0
    for f in PROOF_FILES:
        fp = os.path.join(vf.COQ, f)
        if os.path.exists(fp):
            n += len(re.findall(r'\b(Qed|Defined)\s*\.', re.sub(r'\(\*.*?\*\)', '', vf.read(fp), flags=re.S)))
    return n


def run(ctx):
    ctx.assumptions += [
        'int64 arithmetic of the translated functions is unbounded Z with explicit range hypotheses (differences of coordinates must be int64 '
        'values); uint64 arithmetic wraps explicitly; doubles are Coq primitive floats = x86-64 SSE2 binary64 without contraction (-ffp-contract=off)',
        'portable branch at INT64_MIN: std::abs(INT64_MIN) is formally undefined; model and hardware take it to 2^63 as uint64_t, and the native '
        'differential includes differences equal to INT64_MIN (exact there)',
        'PointInPolygon and Area are hand models (iterators as bounds-checked indices) tied to the C++ by exact equality on every generated case, '
        'not by a semantics of C++; PointInPolygon\'s model calls the translated CrossProduct',
        'a polygon is a path of at least 3 vertices (PointInPolygon returns IsOutside for shorter paths); "not contained in a single horizontal '
        'line" is used in the weaker form: not all vertices on the horizontal line through the query point',
        'accuracy clause of GetSegmentIntersectPt: quantified over segments that cross in exactly one point (touching included); "on the first '
        'segment" = inside the bounding box of the first segment and within one unit per axis of the exact rational crossing',
        'Area "to double rounding": exact when n*B^2 < 2^51, otherwise |Area - S/2| <= (n + #paths + 3) * 2^-53 * sum|terms| / 2 (validated, not proved)',
    ]
    ctx.cov['rule'] = (
        'translated targets: full boundary grids for <= 2 scalar arguments, 400 boundary-regime samples and seeded random cases per target (validate.py); '
        'integer predicates: Multiply on a 16x16 grid of uint64 boundary values, ProductsAreEqual on a 9^4 grid incl. INT64_MIN/MAX, constructed '
        'equal / sign-flipped / off-by-one / equal-low-word products, CrossProductSign and IsCollinear on boundary points (differences up to '
        '+-(2^63-1) and INT64_MIN), exactly collinear and nudged triples at 2^61, random 62-bit points, each on the __int128 and the portable build; '
        'PointInPolygon: ALL polygons with k vertices on an NxN lattice against ALL NxN query points for the (N,k) listed in pip_lattices, random '
        'polygons of 3..12 vertices with few distinct ordinates up to 2^25 with the query point on vertices / edges / level with vertices (and up to 2^61 '
        'for the hand model only); GetSegmentIntersectPt: all 4-tuples of a 3x3 lattice and 7 styles (random, near parallel, continued-fraction near '
        'parallel crossings, lattice point next to the line, axis parallel, touching, exactly parallel) x 8 magnitudes 8..2^40, default and HI_PRECISION '
        'build; Area: random / far-from-origin / extreme / regular polygons of 0..41 vertices x 11 magnitudes and path sets. '
        'non-trivial = integer tuples with a full 128-bit product or a positive answer, query points on or inside the polygon, segments that cross, '
        'polygons of non-zero area; distinct by input')
    pr = vf.coq_props(ctx, PID)
    pr['supporting'] = supporting_qed()
    broken = not pr['ok']
    if broken:
        ctx.log('proof build FAILED: %s' % '; '.join(pr['failed'])[:600])
    stage(ctx, 'building harness and oracles')
    tools = Tools(ctx)
    boost = 1 if (ctx.quick and not broken and not tools.tie and not getattr(ctx, 'regen_failures', None)) else (4 if ctx.quick else 12)
    # (1) translated targets: native vs extracted Gallina
    stage(ctx, 'translated targets: native vs extracted Gallina')
    n_tr, tr_bad, tr_err = translator_tie(ctx, 20000 if ctx.quick else 200000)
    ctx.count('evaluations', n_tr)
    ctx.count('translated_evaluations', n_tr)
    # (3a) integer predicates against exact arithmetic
    stage(ctx, 'integer predicates vs exact arithmetic (both branches)')
    f_int, nt_int = int_predicates(ctx, tools, 30000 * boost)
    # (2)/(3b) PointInPolygon
    lattices = [(5, 0), (5, 1), (5, 2), (7, 3), (5, 4), (3, 5)] if boost == 1 else [(5, 0), (5, 1), (5, 2), (9, 3), (6, 4), (4, 5), (3, 6)]
    if boost == 4:
        lattices = [(5, 0), (5, 1), (5, 2), (8, 3), (5, 4), (3, 5), (3, 6)]
    stage(ctx, 'PointInPolygon: lattices %s + random' % lattices)
    f_pip, (mis_pip, rep_pip) = pip_section(ctx, tools, lattices, 60000 * boost)
    # (3c) GetSegmentIntersectPt
    stage(ctx, 'GetSegmentIntersectPt vs exact crossing')
    f_is = isect_section(ctx, tools, 1500 * boost)
    f_w = witness_replay(ctx, tools)
    # (2)/(3d) Area
    stage(ctx, 'Area vs exact shoelace')
    f_ar, (mis_ar, rep_ar) = area_section(ctx, tools, 6000 * boost)
    found = bool(ctx.violations) or bool(ctx.known_hits)
    # ---- decide: correspondence / tie / proof breaks
    if tr_bad:
        by = {}
        for b in tr_bad:
            by.setdefault(b['target'], []).append(b)
        for tgt, bl in sorted(by.items()):
            b = bl[0]
            ctx.violation('corr.translated.' + tgt, 'translated %s differs from the compiled function on %d inputs, e.g. `%s`: native `%s`, model `%s`'
                          % (tgt, len(bl), b['input'], b['native'], b['model']),
                          replay=dict(kind='translated', target=tgt, input=b['input'], native=b['native'], model=b['model']), nofail=not found)
    if tr_err:
        ctx.violation('tie-break:cpp2v', 'the translated definitions cannot be validated against the tree: ' + tr_err[-700:],
                      replay=dict(kind='build', error=tr_err[-1500:]), nofail=not found)
    if mis_pip:
        l, x, y = rep_pip
        ctx.violation('corr.pip-model', 'PointInPolygon differs from the hand model coq/model/Pip.v on %d cases, e.g. `%s`: implementation `%s`, model `%s`'
                      % (mis_pip, l, x, y), replay=dict(kind='pipline', line=l, impl=x, model=y), nofail=not found)
    if mis_ar:
        l, x, y = rep_ar
        ctx.violation('corr.area-model', 'Area differs from the hand model coq/model/Pip.v on %d cases, e.g. `%s`: implementation `%s`, model `%s`'
                      % (mis_ar, l[:300], x, y), replay=dict(kind='arealine', line=l, impl=x, model=y), nofail=not found)
    for what, detail in tools.tie:
        ctx.violation('tie-break:' + what, detail[:900], replay=dict(kind='build', what=what, detail=detail[-1500:]), nofail=not found)
    for f in getattr(ctx, 'regen_failures', None) or []:
        if any(t in f for t in CORE_TARGETS) or 'core' in f:
            ctx.violation('tie-break:cpp2v-regenerate', 'cpp2v cannot translate a target any more: ' + f[:600], replay=dict(kind='build', error=f[:1500]),
                          nofail=not found)
    if broken:
        ctx.violation('proof-break:Properties_C18', 'the proofs no longer check against the regenerated definitions: ' + ' | '.join(pr['failed'])[:1200],
                      replay=dict(kind='proof', failed=pr['failed']), nofail=not found)
    ctx.cov['distinct_nontrivial'] = sum(ctx.cov.get(k, 0) for k in ('int_nontrivial', 'pip_nontrivial', 'isect_nontrivial', 'area_nontrivial'))
    ctx.cov['spec_failures'] = dict(int=f_int, pip=f_pip, isect=f_is, witnesses=f_w, area=f_ar)
    ctx.cov['exhaustive'] = False
    ctx.cov['trusted_base'] = vf.TRUSTED_COMMON + [
        'cpp2v (clang 14 JSON AST -> Gallina, cpp2v/README.md), validated on every run by the native/extracted differential',
        'Coq primitive floats + Flocq 4 (FloatAxioms specifications of the primitive operations, classical reals)',
        'harness/cx_c18.cpp, oracle/drv_c18.ml, oracle/drv_c18m.ml (parsing/printing only)']


# ----------------------------------------------------------------------------- replay
def replay(ctx, path):
    d = json.load(open(path))
    rp = d.get('replay') or {}
    kind = rp.get('kind')
    key = d.get('key', 'replay')
    tools = Tools(ctx)
    ctx.count('evaluations', 1)
    if kind == 'int':
        exp = tools.spec_run([rp['line']])[0]
        got = tools.impl(rp['variant'], [rp['line']])[0]
        ctx.log('%s [%s] -> %s, exact %s' % (rp['line'], rp['variant'], got, exp))
        if got != exp:
            ctx.violation(key, 'replayed: `%s` [%s] returned `%s`, exact `%s`' % (rp['line'], rp['variant'], got, exp), replay=rp)
    elif kind in ('pip', 'pipline'):
        line = rp['line'] if kind == 'pipline' else pip_line(tuple(rp['q']), [tuple(p) for p in rp['poly']])
        got = tools.impl('plain', [line])[0]
        exp = tools.spec_run([line])[0] if int(line.split()[5 if line.startswith('PIPG') else 3]) >= 3 else '-'
        mod = tools.model_run([line])[0] if tools.model else '-'
        ctx.log('%s -> implementation %s, hand model %s, specification %s' % (line, got, mod, exp))
        if exp != '-' and got != exp:
            ctx.violation(key, 'replayed: `%s` implementation %s, specification %s' % (line, got, exp), replay=rp)
        elif mod != '-' and mod != got:
            ctx.violation(key, 'replayed: `%s` implementation %s, hand model %s' % (line, got, mod), replay=rp, nofail=True)
    elif kind == 'isect':
        c = tuple(tuple(p) for p in rp['pts'])
        ev = isect_eval(tools, [(c, 'replay', 0)])
        for variant, rows in ev.items():
            res, ver = rows[0]
            k = isect_classify(variant, c, res, ver) if ver else 'isect.crash.' + variant
            ctx.log('[%s] %s -> %s ; verdict [parallel proper closed within1 within1+2^-20 inbox ok] = %s ; %s' % (variant, pts_str(c), res, ver, k or 'clause holds'))
            if k and variant == rp.get('variant', variant):
                ctx.violation(k, 'replayed: ' + isect_what(variant, c, res, k), replay=rp)
    elif kind in ('area', 'arealine'):
        if kind == 'arealine':
            line = rp['line']
        else:
            ps = [[tuple(v) for v in p] for p in rp['paths']]
            line = ('AREA %d %s' % (len(ps[0]), vf.fmt_path(ps[0]))) if rp.get('single') else 'AREAS ' + vf.fmt_paths(ps)
        got = tools.impl('plain', [line])[0]
        sp = tools.spec_run([line])[0]
        mod = tools.model_run([line])[0] if tools.model else '-'
        ctx.log('%s -> implementation %s, hand model %s, exact 2*area %s' % (line[:300], got, mod, sp.split()[0]))
        g = dbl(got) if not got.startswith('CRASH') else None
        if g is None or Fraction(g) * 2 != int(sp.split()[0]):
            ctx.violation(key, 'replayed: `%s` returned %s, exact 2*area = %s' % (line[:300], got, sp.split()[0]), replay=rp,
                          nofail=(g is not None and key.endswith('model')))
    elif kind == 'translated':
        import validate
        n, bad = validate.validate(ctx, 200, targets={rp['target']})
        ctx.log('translated %s: %d compared, %d disagreements' % (rp['target'], n, len(bad)))
        if bad:
            ctx.violation(key, 'replayed: translated %s still differs: %s' % (rp['target'], json.dumps(bad[0])[:400]), replay=rp, nofail=True)
    else:
        pr = vf.coq_props(ctx, PID)
        ctx.log('proof build ok=%s %s' % (pr['ok'], '; '.join(pr['failed'])[:400]))
        if not pr['ok'] or tools.tie:
            ctx.violation(key, 'replayed: %s' % ('; '.join(pr['failed'])[:400] or tools.tie[0][1][:400]), replay=rp, nofail=True)
