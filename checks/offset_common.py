"""Shared machinery of the offset checks C06 / C07 (and the OffsetPlan tie that C12 reuses).

Decisions are taken by the extracted Coq oracle bin/oracle_offset (winding numbers, the C06/C07 specification
classifiers of coq/proofs/OffsetSpec.v, the plan model OffsetPlan.v and the binary64 geometry model OffsetGeom.v);
python only generates inputs and sample points (in floating point -- harmless, the oracle classifies every
sample exactly), formats lines and compares answers.
"""
import math, os, json, time, subprocess
from fractions import Fraction
import vf

JT = ['Square', 'Bevel', 'Round', 'Miter']
ET = ['Polygon', 'Joined', 'Butt', 'Square', 'Round']
SQRT2_UB = Fraction(14142135624, 10000000000)
FPT = 1e-12


def fhex(x):
    return float(x).hex()


def fr(x):
    return x if isinstance(x, Fraction) else Fraction(x)


def bad_answer(ctx, r, label, out, replay):
    """a harness line that did not answer OK: crash / hang / exception -> violation (a line that was not run after a hang
    is only counted).  Returns True when the case cannot be evaluated."""
    if r.get('ok'):
        return False
    if not r.get('notrun'):
        key = 'offset.hang' if str(out).startswith('HANG') else 'offset.crash-or-exception'
        viol(ctx, key, '%s: harness answered %s' % (label, str(out)[:300]), replay=replay)
    return True


def viol(ctx, key, what, replay=None, nofail=False, per_key=2):
    """ctx.violation, but at most `per_key` records per classifier key: vf.Ctx keeps 50 violations in all, and one
    defect that fails hundreds of generated cases must not push the other keys out of the report.  All occurrences
    are counted in coverage.violations_by_key."""
    d = ctx.cov.setdefault('violations_by_key', {})
    d[key] = d.get(key, 0) + 1
    if d[key] <= per_key:
        return ctx.violation(key, what, replay=replay, nofail=nofail)
    return False


# ----------------------------------------------------------------------------- running a harness that may crash or hang
NOTRUN = 'NOTRUN'


def run_robust(runner, lines, prefix=None, jobs=None, timeout=60, iso_timeout=10, budget=None, max_stops=25):
    """Feed `lines` to a line-in/line-out harness in parallel shards; `runner(input_lines, timeout)` starts one process
    (vf.run_lines result: stdout, returncode, stderr, timed_out).  The harness flushes after every line, so when a process
    dies or exceeds `timeout` the line it was working on is known.  That line is then run ALONE with `iso_timeout`:
      * it answers            -> the shard was only slow (machine load) or the failure needs the lines before it: answer kept;
      * it dies               -> 'CRASH';        * it exceeds iso_timeout -> 'HANG'.
    After a HANG (or `max_stops` crashes) the rest of the shard is not run ('NOTRUN'): a check must stay bounded on a tree
    whose library hangs.  `budget` (seconds) bounds the whole call.  Returns (outs, failures[(line, rc, stderr, kind)])."""
    import concurrent.futures as cf
    jobs = jobs or vf.NPROC
    n = len(lines)
    if n == 0:
        return [], []
    chunk = max(1, (n + jobs - 1) // jobs)
    shards = [lines[i:i + chunk] for i in range(0, n, chunk)]
    deadline = (time.time() + budget) if budget else None
    pre = [prefix] if prefix else []

    def answers(p, want):
        o = p.stdout.split('\n')[:-1]      # drops '' after a complete last line, or a partial line of a killed process
        if prefix:
            o = o[1:]
        return o[:want]

    def work(i):
        todo, res, fl, stops = shards[i], [], [], 0
        while todo:
            t = timeout
            if deadline is not None:
                t = min(t, deadline - time.time())
                if t < 1:
                    res += [NOTRUN] * len(todo)
                    break
            p = runner(pre + todo, t)
            o = answers(p, len(todo))
            res += o
            if len(o) == len(todo):
                if p.returncode != 0 and not getattr(p, 'timed_out', False):
                    fl.append(('<after last line>', p.returncode, (p.stderr or '')[-3000:], 'CRASH-AT-EXIT'))
                break
            bad = todo[len(o)]
            q = runner(pre + [bad], iso_timeout)
            qo = answers(q, 1)
            todo = todo[len(o) + 1:]
            if qo and qo[0]:
                res.append(qo[0])              # answers when run alone
                if q.returncode != 0:
                    fl.append((bad, q.returncode, (q.stderr or '')[-3000:], 'CRASH-AT-EXIT'))
                continue
            kind = 'HANG' if getattr(q, 'timed_out', False) else 'CRASH'
            fl.append((bad, q.returncode, (q.stderr or '')[-3000:], kind))
            res.append(kind)
            stops += 1
            if kind == 'HANG' or stops >= max_stops:
                res += [NOTRUN] * len(todo)
                break
        return i, res, fl
    outs, fails = [None] * len(shards), []
    with cf.ThreadPoolExecutor(max_workers=jobs) as ex:
        for i, o, fl in ex.map(work, range(len(shards))):
            outs[i] = o
            fails += fl
    return [l for o in outs for l in o], fails


# ----------------------------------------------------------------------------- tools
class Tools:
    def __init__(self, ctx, variants=('plain',)):
        self.ctx = ctx
        self.exe = {}
        for v in variants:
            self.exe[v] = vf.build_cpp(ctx, 'cx_offset.cpp', v)
        self.ora = vf.oracle_build('offset')

    def H(self, lines, variant='plain', timeout=90):
        """harness; a line on which the library crashes answers 'CRASH <rc> <stderr tail>', one on which it does not return
        'HANG' (found by running the offending line alone); after a hang the rest of that shard answers NOTRUN and the
        following calls use a short timeout, so that the check stays bounded on a tree whose library hangs"""
        env = {'ASAN_OPTIONS': 'detect_leaks=1:abort_on_error=0', 'UBSAN_OPTIONS': 'print_stacktrace=1'} if variant.startswith('asan') else None
        if getattr(self, 'hang_seen', False):
            timeout = min(timeout, 20)
        out, fails = run_robust(lambda inp, t: vf.run_lines(self.exe[variant], inp, timeout=t, env=env), lines, timeout=timeout, iso_timeout=10)
        if any(f[3] == 'HANG' for f in fails):
            self.hang_seen = True
        info = dict((f[0], f) for f in fails)
        res = []
        for l, o in zip(lines, out):
            if o == 'CRASH' and l in info:
                o = 'CRASH %s %s' % (info[l][1], ' '.join(info[l][2].split())[:1500])
            res.append(o)
        nr = sum(1 for o in res if o == NOTRUN)
        if nr:
            self.ctx.count('harness_lines_not_run_after_a_hang_or_crash', nr)
        return res

    def H1(self, line, variant='plain', timeout=60):
        env = {'ASAN_OPTIONS': 'detect_leaks=1:abort_on_error=0', 'UBSAN_OPTIONS': 'print_stacktrace=1'}
        p = vf.sh([self.exe[variant]], input=line + '\n', timeout=timeout, env=env)
        o = p.stdout.split('\n')
        if p.returncode == 0 and o and o[0]:
            return o[0]
        err = ' '.join(p.stderr.split())
        return 'CRASH %s %s' % (p.returncode, err[:1500])

    def O(self, lines, timeout=3600):
        out, fails = vf.par_lines(self.ora, lines, timeout=timeout)
        if fails:
            raise vf.Infra('oracle_offset failed: rc=%s %s' % (fails[0][1], fails[0][2][-500:]))
        bad = [o for o in out if o.startswith('ERR')]
        if bad:
            raise vf.Infra('oracle_offset: ' + bad[0][:300])
        return out


# ----------------------------------------------------------------------------- protocol
def case_groups_str(case):
    s = [str(len(case['groups']))]
    for g in case['groups']:
        s.append('%d %d %s' % (g['jt'], g['et'], vf.fmt_paths(g['paths'])))
    return ' '.join(s)


def exe_line(case, cmd='EXE'):
    # case['via']: 0 options through the constructor, 1 through the public setters on an object constructed with other
    # values, 2 through the setters after that object has executed once (harness commands EXE1/EXE2/RUN1/RUN2)
    if case.get('via'):
        cmd = cmd + str(case['via'])
    return '%s %s %s %d %d %s %s' % (cmd, fhex(case['ml']), fhex(case['at']), case.get('pc', 0), case.get('rev', 0),
                                     fhex(case['delta']), case_groups_str(case))


def parse_exe(out):
    t = out.split()
    if not t or t[0] != 'OK':
        return dict(ok=False, raw=out, notrun=(out == NOTRUN))
    r = dict(ok=True, err=int(t[1]))
    if t[2] == 'S':          # RUN
        r['sol'], pos = vf.parse_paths(t, 3)
        return r
    r['same'] = int(t[2])
    assert t[3] == 'S'
    r['sol'], pos = vf.parse_paths(t, 4)
    assert t[pos] == 'G'
    ng = int(t[pos + 1]); pos += 2
    gs = []
    for _ in range(ng):
        jt, et, np_ = int(t[pos]), int(t[pos + 1]), int(t[pos + 2]); pos += 3
        lens = [int(x) for x in t[pos:pos + np_]]; pos += np_
        low, isrev = int(t[pos]), int(t[pos + 1]); pos += 2
        gs.append(dict(jt=jt, et=et, lens=lens, low=low, isrev=isrev))
    r['groups'] = gs
    assert t[pos] == 'O'
    no = int(t[pos + 1]); pos += 2
    obs = []
    for _ in range(no):
        obs.append(dict(gi=int(t[pos]), pi=int(t[pos + 1]), kind=int(t[pos + 2]), gd=t[pos + 3], jt=int(t[pos + 4]),
                        et=int(t[pos + 5]), spr=t[pos + 6], dlt=t[pos + 7]))
        pos += 8
    r['obs'] = obs
    assert t[pos] == 'F'
    r['final'] = t[pos + 1:pos + 7]
    assert t[pos + 7] == 'C'
    r['paths_reversed'] = int(t[pos + 8])
    return r


def plan_line(case, groups):
    """PLAN line from the group fields the harness reported"""
    s = ['PLAN', str(case.get('rev', 0)), fhex(case['delta']), str(len(groups))]
    for g in groups:
        s += [str(g['jt']), str(g['et']), str(len(g['lens']))] + [str(x) for x in g['lens']] + [str(g['low']), str(g['isrev'])]
    return ' '.join(s)


def parse_plan(out):
    t = out.split()
    assert t[0] == 'P', out
    r = dict(mode=t[1], fillneg=int(t[2]), revsol=int(t[3]), entries=[])
    n = int(t[4]); pos = 5
    for _ in range(n):
        r['entries'].append(dict(gi=int(t[pos]), pi=int(t[pos + 1]), len=int(t[pos + 2]), gd=t[pos + 3], jt=int(t[pos + 4]),
                                 et=int(t[pos + 5]), act=t[pos + 6], stepsfor=t[pos + 7], mdelta=t[pos + 8]))
        pos += 9
    return r


def hexeq(a, b):
    """bitwise equality of two hex-float strings (also distinguishes -0)"""
    fa, fb = float.fromhex(a), float.fromhex(b)
    if fa != fa or fb != fb:
        return (fa != fa) and (fb != fb)
    return fa == fb and math.copysign(1, fa) == math.copysign(1, fb)


def libm_loop(T, cmd_lines, maxrounds=6):
    """Run oracle commands that take a libm table (`... T n {fn a b r}`), answering NEED requests through the
    harness' libm server until every line has an answer."""
    tabs = [[] for _ in cmd_lines]
    outs = [None] * len(cmd_lines)
    todo = list(range(len(cmd_lines)))
    for _ in range(maxrounds):
        res = T.O(['%s T %d %s' % (cmd_lines[i], len(tabs[i]), ' '.join(tabs[i])) for i in todo])
        q, nxt = [], []
        for i, o in zip(todo, res):
            if o.startswith('NEED'):
                tk = o.split(); n = int(tk[1])
                reqs = [tk[2 + 3 * k:5 + 3 * k] for k in range(n)]
                q.append((i, reqs)); nxt.append(i)
            else:
                outs[i] = o
        if not q:
            break
        ans = T.H(['LIBM %d %s' % (len(reqs), ' '.join(' '.join(r) for r in reqs)) for _, reqs in q])
        for (i, reqs), a in zip(q, ans):
            vals = a.split()[1:]
            for r, v in zip(reqs, vals):
                tabs[i].append(' '.join(r) + ' ' + v)
        todo = nxt
    return outs


# ----------------------------------------------------------------------------- exact integer geometry (generators)
def cross(a, b, c):
    return (b[0] - a[0]) * (c[1] - a[1]) - (b[1] - a[1]) * (c[0] - a[0])


def on_seg(a, b, p):
    return cross(a, b, p) == 0 and min(a[0], b[0]) <= p[0] <= max(a[0], b[0]) and min(a[1], b[1]) <= p[1] <= max(a[1], b[1])


def segs_intersect(a, b, c, d):
    d1, d2, d3, d4 = cross(c, d, a), cross(c, d, b), cross(a, b, c), cross(a, b, d)
    if ((d1 > 0 and d2 < 0) or (d1 < 0 and d2 > 0)) and ((d3 > 0 and d4 < 0) or (d3 < 0 and d4 > 0)):
        return True
    return on_seg(c, d, a) or on_seg(c, d, b) or on_seg(a, b, c) or on_seg(a, b, d)


def is_simple(p):
    n = len(p)
    if n < 3 or len(set(p)) != n:
        return False
    for i in range(n):
        a, b = p[i], p[(i + 1) % n]
        for j in range(i + 1, n):
            c, d = p[j], p[(j + 1) % n]
            if j == i + 1 or (i == 0 and j == n - 1):
                # adjacent edges: only the shared vertex
                if j == i + 1:
                    if on_seg(a, b, d) or on_seg(c, d, a):
                        return False
                else:
                    if on_seg(a, b, c) or on_seg(c, d, b):
                        return False
                continue
            if segs_intersect(a, b, c, d):
                return False
    return True


def turn_ok(a, b, c):
    """the turn at b (from a->b to b->c) stays at least ~10.01 degrees away from a full reversal (exact integer test)"""
    d1 = (b[0] - a[0], b[1] - a[1]); d2 = (c[0] - b[0], c[1] - b[1])
    dot = d1[0] * d2[0] + d1[1] * d2[1]
    if dot >= 0:
        return True
    l1 = d1[0] ** 2 + d1[1] ** 2; l2 = d2[0] ** 2 + d2[1] ** 2
    return dot * dot * 10000 <= 9698 * l1 * l2


def angles_ok(p, closed):
    n = len(p)
    if closed:
        return all(turn_ok(p[i - 1], p[i], p[(i + 1) % n]) for i in range(n))
    return all(turn_ok(p[i - 1], p[i], p[i + 1]) for i in range(1, n - 1))


def area2(p):
    return sum(p[i - 1][0] * p[i][1] - p[i][0] * p[i - 1][1] for i in range(len(p)))


def pip(p, q):
    """strictly inside a simple polygon (q not on the boundary)"""
    n = len(p); w = 0
    for i in range(n):
        a, b = p[i - 1], p[i]
        if on_seg(a, b, q):
            return False
        if a[1] <= q[1] < b[1] and cross(a, b, q) > 0:
            w += 1
        elif b[1] <= q[1] < a[1] and cross(a, b, q) < 0:
            w -= 1
    return w != 0


def paths_disjoint(p, q):
    for i in range(len(p)):
        for j in range(len(q)):
            if segs_intersect(p[i - 1], p[i], q[j - 1], q[j]):
                return False
    return True


def seg_dist2(a, b, q):
    """squared distance point-segment as a Fraction"""
    L = (b[0] - a[0]) ** 2 + (b[1] - a[1]) ** 2
    t = (q[0] - a[0]) * (b[0] - a[0]) + (q[1] - a[1]) * (b[1] - a[1])
    if L == 0 or t <= 0:
        return Fraction((q[0] - a[0]) ** 2 + (q[1] - a[1]) ** 2)
    if t >= L:
        return Fraction((q[0] - b[0]) ** 2 + (q[1] - b[1]) ** 2)
    return Fraction(cross(a, b, q) ** 2, L)


def min_gap2(p, q):
    """squared distance between two disjoint closed paths (attained at a vertex of one of them)"""
    best = None
    for (u, v) in ((p, q), (q, p)):
        for w in u:
            for j in range(len(v)):
                d = seg_dist2(v[j - 1], v[j], w)
                if best is None or d < best:
                    best = d
    return best


def valid_polyset(polys, mingap=1):
    """polys: list of (outer, [holes]) with outer of positive area and holes negative (y-up); all simple, angle bound,
    holes strictly inside their outer, everything pairwise disjoint with a gap"""
    allp = []
    for outer, holes in polys:
        if not (is_simple(outer) and angles_ok(outer, True) and area2(outer) > 0):
            return False
        for h in holes:
            if not (is_simple(h) and angles_ok(h, True) and area2(h) < 0):
                return False
            if not all(pip(outer, v) for v in h):
                return False
        allp.append(outer); allp += holes
    for i in range(len(allp)):
        for j in range(i + 1, len(allp)):
            if not paths_disjoint(allp[i], allp[j]):
                return False
            if min_gap2(allp[i], allp[j]) < mingap * mingap:
                return False
    # no hole inside another hole, no outer inside another outer
    for oi, (outer, holes) in enumerate(polys):
        for i in range(len(holes)):
            for j in range(len(holes)):
                if i != j and pip(holes[j], holes[i][0]):
                    return False
        for oj, (outer2, _) in enumerate(polys):
            if oi != oj and pip(outer2, outer[0]):
                return False
    return True


# ----------------------------------------------------------------------------- generators
def star(rng, cx, cy, rmin, rmax, n, spiky=False):
    """star-shaped polygon around (cx, cy), counter-clockwise (positive area)"""
    pts = []
    base = rng.below(3600) / 3600.0 * 2 * math.pi
    for i in range(n):
        a = base + 2 * math.pi * (i + (rng.below(600) - 300) / 1000.0) / n
        if spiky:
            r = rmax if i % 2 == 0 else rmin
            r = r * (0.85 + rng.below(300) / 1000.0)
        else:
            r = rmin + (rmax - rmin) * rng.below(1001) / 1000.0
        pts.append((int(round(cx + r * math.cos(a))), int(round(cy + r * math.sin(a)))))
    return pts


RECTILINEAR = [
    [(0, 0), (6, 0), (6, 2), (2, 2), (2, 6), (0, 6)],                                   # L
    [(0, 0), (7, 0), (7, 6), (5, 6), (5, 2), (2, 2), (2, 6), (0, 6)],                   # U
    [(0, 0), (9, 0), (9, 2), (6, 2), (6, 7), (3, 7), (3, 2), (0, 2)],                   # T
    [(0, 0), (8, 0), (8, 8), (0, 8)],                                                   # square
    [(0, 0), (3, 0), (3, 1), (5, 1), (5, 3), (8, 3), (8, 6), (4, 6), (4, 4), (0, 4)],   # stairs
    [(0, 0), (10, 0), (10, 1), (1, 1), (1, 5), (10, 5), (10, 6), (0, 6)],               # C with thin arms
]


def shape_poly(rng, S, cx, cy):
    k = rng.below(10)
    if k < 4:
        return star(rng, cx, cy, S * (0.45 + rng.below(30) / 100.0), S * (0.8 + rng.below(40) / 100.0), rng.range(3, 11))
    if k < 6:
        return star(rng, cx, cy, S * 0.45, S * 1.1, 2 * rng.range(3, 6), spiky=True)
    if k < 9:
        base = rng.choice(RECTILINEAR)
        u = max(1, int(S / 4))
        sh = rng.choice([0, 0, 1, -1]) if S >= 20 else 0     # shear keeps simplicity
        p = [(cx + u * (x - 4) + sh * u * (y - 3) // 2, cy + u * (y - 3)) for x, y in base]
        if rng.chance(1, 2):
            p = [(cx + (y - cy), cy - (x - cx)) for x, y in p][::-1]      # rotate by -90 degrees, keep orientation
            p = p[::-1] if area2(p) < 0 else p
        return p
    # thin triangle / sliver-free convex
    return star(rng, cx, cy, S * 0.3, S * 1.2, 3)


def gen_polyset(rng, S, npoly=None, maxholes=2):
    """list of (outer, holes); outers positive (CCW, y up), holes negative; valid by construction + exact check"""
    for _attempt in range(200):
        npoly_ = npoly or rng.choice([1, 1, 1, 2, 2, 3])
        polys = []
        x = 0
        for _ in range(npoly_):
            cx = x + int(1.3 * S); cy = rng.range(-S // 3, S // 3) if S >= 3 else 0
            outer = shape_poly(rng, S, cx, cy)
            if area2(outer) < 0:
                outer = outer[::-1]
            holes = []
            nh = rng.choice([0, 0, 1, 1, 2]) if maxholes else 0
            for _h in range(min(nh, maxholes)):
                for _try in range(20):
                    hr = S * (0.08 + rng.below(25) / 100.0)
                    if hr < 3:
                        break
                    hx = cx + rng.range(-int(S * 0.5), int(S * 0.5)); hy = cy + rng.range(-int(S * 0.5), int(S * 0.5))
                    h = star(rng, hx, hy, hr * 0.6, hr, rng.range(3, 7))
                    if area2(h) > 0:
                        h = h[::-1]
                    if valid_polyset([(outer, holes + [h])], mingap=rng.choice([1, 2, 5])):
                        holes.append(h)
                        break
            polys.append((outer, holes))
            gap = rng.choice([S // 8, S // 2, 2 * S, 6 * S]) + 2
            x = max(v[0] for v in outer) + gap
        if valid_polyset(polys):
            return polys
    raise vf.Infra('polygon generator failed')


def flatten_polys(polys, reverse=False):
    ps = []
    for outer, holes in polys:
        ps.append(outer); ps += holes
    if reverse:
        ps = [p[::-1] for p in ps]
    return ps


def gen_polyline(rng, S, n, x0=0, y0=0):
    """open polyline with n points, each turn at least 10 degrees from a full reversal; self-crossing allowed"""
    for _ in range(1000):
        p = [(x0 + rng.range(-S, S), y0 + rng.range(-S, S))]
        ok = True
        while len(p) < n:
            for _t in range(50):
                L = S * (0.08 + rng.below(100) / 100.0)
                a = rng.below(3600) / 3600.0 * 2 * math.pi
                q = (p[-1][0] + int(round(L * math.cos(a))), p[-1][1] + int(round(L * math.sin(a))))
                if q == p[-1]:
                    continue
                if len(p) >= 2 and not turn_ok(p[-2], p[-1], q):
                    continue
                p.append(q)
                break
            else:
                ok = False
                break
        if ok:
            return p
    raise vf.Infra('polyline generator failed')


def dedup_path(p, closed):
    """what the Group constructor's StripDuplicates leaves: no consecutive equal vertices; for closed paths (Polygon,
    Joined) no trailing copies of the first vertex"""
    q = []
    for v in p:
        if not q or tuple(q[-1]) != tuple(v):
            q.append(tuple(v))
    if closed:
        while len(q) > 1 and q[-1] == q[0]:
            q.pop()
    return q


def add_dups(rng, p, closed):
    """the same path written with repeated vertices: one or two vertices doubled (tripled), and -- for a closed path --
    the first vertex repeated at the end (the common way of storing a ring).  Ordinary input: the offsetter must treat it
    like the path without the repetitions."""
    if not p:
        return list(p)
    q = []
    k = rng.below(len(p)); k2 = rng.below(len(p)) if rng.chance(1, 2) else -1
    for i, v in enumerate(p):
        q.append(v)
        if i == k:
            q += [v] * rng.choice([1, 1, 2])
        if i == k2 and k2 != k:
            q.append(v)
    if closed and len(p) >= 3 and rng.chance(3, 4):
        q += [p[0]] * rng.choice([1, 1, 1, 2])
    return q


def qdelta(x):
    """quantise to 1/64 so that rationals stay small"""
    return round(x * 64) / 64.0


def bbox(paths):
    xs = [v[0] for p in paths for v in p]; ys = [v[1] for p in paths for v in p]
    return min(xs), min(ys), max(xs), max(ys)


def translate(p, dx, dy):
    return [(x + dx, y + dy) for x, y in p]


# ----------------------------------------------------------------------------- tolerances of the properties
def arc_tol_eff(at, absd):
    at = fr(at); absd = fr(absd)
    return min(absd, at) if at > fr(FPT) else absd * Fraction(2, 1000)


def prop_tol(jt, at, delta, with_arc=None):
    """arc tolerance (round constructions only) + 2 units + 0.1% of |delta|"""
    absd = abs(fr(delta))
    arc = arc_tol_eff(at, absd) if (with_arc if with_arc is not None else jt == 2) else 0
    return arc + 2 + absd / 1000


def join_factor(jt, ml):
    if jt == 2 or jt == 1:
        return Fraction(1)
    if jt == 0:
        return SQRT2_UB
    return max(fr(ml), SQRT2_UB)


def rat(x):
    x = fr(x)
    return '%d %d' % (x.numerator, x.denominator)


def dbl_paths(ps):
    return [[(2 * x, 2 * y) for x, y in p] for p in ps]


def fmt_pts(pts):
    return '%d %s' % (len(pts), ' '.join('%d %d' % q for q in pts))


def dedup(pts):
    seen = set(); out = []
    for q in pts:
        if q not in seen:
            seen.add(q); out.append(q)
    return out


# ----------------------------------------------------------------------------- sample points (doubled coordinates)
def unit(dx, dy):
    h = math.hypot(dx, dy)
    return (dx / h, dy / h) if h > 0 else (0.0, 0.0)


def samples_closed(rng, paths, dists, ngrid, reach, budget=700):
    """points at (signed, outward positive for CCW paths' right side) distances from edges and vertices + a grid.
    Returned in doubled integer coordinates."""
    pts = []
    for p in paths:
        n = len(p)
        if n < 2:
            continue
        for i in range(n):
            a, b, c = p[i - 1], p[i], p[(i + 1) % n]
            n1 = unit(b[1] - a[1], -(b[0] - a[0]))          # right-hand normal of a->b (the library's GetUnitNormal)
            n2 = unit(c[1] - b[1], -(c[0] - b[0]))
            bis = unit(n1[0] + n2[0], n1[1] + n2[1])
            for s in (0.5, rng.below(1000) / 1000.0):
                m = (a[0] + (b[0] - a[0]) * s, a[1] + (b[1] - a[1]) * s)
                for d in dists:
                    pts.append((m[0] + n1[0] * d, m[1] + n1[1] * d))
            for d in dists:
                if bis != (0.0, 0.0):
                    pts.append((b[0] + bis[0] * d, b[1] + bis[1] * d))
                pts.append((b[0] + n1[0] * d, b[1] + n1[1] * d))
    x0, y0, x1, y1 = bbox(paths)
    x0 -= reach; y0 -= reach; x1 += reach; y1 += reach
    for i in range(ngrid):
        for j in range(ngrid):
            pts.append((x0 + (x1 - x0) * (i + rng.below(100) / 100.0) / ngrid, y0 + (y1 - y0) * (j + rng.below(100) / 100.0) / ngrid))
    q = dedup([(int(round(2 * x)), int(round(2 * y))) for x, y in pts])
    if len(q) > budget:
        rng.shuffle(q)
        q = q[:budget]
    return q


def samples_output(rng, sol, budget=250):
    """points next to the vertices and edge midpoints of the result (doubled coordinates)"""
    pts = []
    for p in sol:
        n = len(p)
        for i in range(n):
            a, b = p[i - 1], p[i]
            for dx, dy in ((3, 1), (-3, -1), (1, -3), (-1, 3)):
                pts.append((2 * b[0] + dx, 2 * b[1] + dy))
            nx, ny = unit(b[1] - a[1], -(b[0] - a[0]))
            mx, my = a[0] + b[0], a[1] + b[1]                # doubled midpoint
            for d in (2.0, -2.0):
                pts.append((int(round(mx + nx * d)), int(round(my + ny * d))))
    pts = dedup(pts)
    if len(pts) > budget:
        rng.shuffle(pts)
        pts = pts[:budget]
    return pts


def samples_open(rng, paths, dists, end_dists, ngrid, reach, budget=700):
    """sample points around open polylines: both sides of every edge, around every vertex, beyond both ends"""
    pts = []
    for p in paths:
        n = len(p)
        if n == 0:
            continue
        if n == 1:
            for d in dists:
                for k in range(8):
                    a = k * math.pi / 4 + 0.1
                    pts.append((p[0][0] + abs(d) * math.cos(a), p[0][1] + abs(d) * math.sin(a)))
            continue
        for i in range(n - 1):
            a, b = p[i], p[i + 1]
            n1 = unit(b[1] - a[1], -(b[0] - a[0]))
            for s in (0.5, rng.below(1000) / 1000.0, 0.02, 0.98):
                m = (a[0] + (b[0] - a[0]) * s, a[1] + (b[1] - a[1]) * s)
                for d in dists:
                    pts.append((m[0] + n1[0] * d, m[1] + n1[1] * d))
                    pts.append((m[0] - n1[0] * d, m[1] - n1[1] * d))
        for i in range(n):
            for d in dists:
                for k in range(6):
                    a = k * math.pi / 3 + rng.below(100) / 100.0
                    pts.append((p[i][0] + abs(d) * math.cos(a), p[i][1] + abs(d) * math.sin(a)))
        for (e, f) in ((p[0], p[1]), (p[-1], p[-2])):
            u = unit(e[0] - f[0], e[1] - f[1])          # pointing beyond the end
            nn = (u[1], -u[0])
            for d in end_dists:
                for lat in (0.0, 0.5, -0.5, 0.95, -0.95, 1.2, -1.2):
                    w = lat * max(abs(x) for x in dists)
                    pts.append((e[0] + u[0] * d + nn[0] * w, e[1] + u[1] * d + nn[1] * w))
    ne = [p for p in paths if p]
    if ne:
        x0, y0, x1, y1 = bbox(ne)
        x0 -= reach; y0 -= reach; x1 += reach; y1 += reach
        for i in range(ngrid):
            for j in range(ngrid):
                pts.append((x0 + (x1 - x0) * (i + rng.below(100) / 100.0) / ngrid, y0 + (y1 - y0) * (j + rng.below(100) / 100.0) / ngrid))
    q = dedup([(int(round(2 * x)), int(round(2 * y))) for x, y in pts])
    if len(q) > budget:
        rng.shuffle(q)
        q = q[:budget]
    return q


# ----------------------------------------------------------------------------- C06 specification check
def c06_kind(jt, ml):
    if jt == 2:
        return 0, Fraction(1)
    if jt == 1:
        return 2, Fraction(1)
    return 1, join_factor(jt, ml)


def has_empty_polygon_group_before(case):
    seen_empty = False
    for g in case['groups']:
        if g['et'] == 0 and all(len(p) == 0 for p in g['paths']):
            seen_empty = True
        elif seen_empty and g['et'] == 0:
            return True
    return False


def first_polygon_group_empty(case):
    for g in case['groups']:
        if g['et'] == 0:
            return all(len(p) == 0 for p in g['paths'])
    return False


def reversed_input(case):
    """the polygon paths of the case are given in the reversed (negative outer) orientation"""
    if 'orient' in case:
        return case['orient'] < 0
    big = [p for g in case['groups'] if g['et'] == 0 for p in g['paths'] if len(p) >= 3]
    return bool(big) and area2(max(big, key=lambda p: abs(area2(p)))) < 0


def empty_group_key(case, res_area2=None, exp_area2=None):
    """the two failure modes caused by an EndType::Polygon group that has no lowest path (all its paths empty).
    When the input has the shape of both (vertex-less group in front of clockwise polygons, delta < 0) the result decides:
    orientation lost = the result is empty or has counter-clockwise outlines (total area >= 0) where clockwise ones are
    due; otherwise the orientation is right and the later groups were inflated instead of shrunk."""
    pre_orient = (first_polygon_group_empty(case) and reversed_input(case)
                  and any(g['et'] == 0 and any(p for p in g['paths']) for g in case['groups']))
    pre_delta = has_empty_polygon_group_before(case) and case['delta'] < 0
    if pre_orient and pre_delta and res_area2 is not None:
        want_neg = (exp_area2 < 0) if exp_area2 else (not case.get('rev'))     # (nothing expected: the input decides)
        lost = (res_area2 >= 0) if want_neg else (res_area2 <= 0)
        return 'offset.orientation-lost.empty-polygon-group-first' if lost else 'offset.delta-abs-leak.empty-polygon-group'
    if pre_orient:
        return 'offset.orientation-lost.empty-polygon-group-first'
    if pre_delta:
        return 'offset.delta-abs-leak.empty-polygon-group'
    return None


def paths_area2(ps):
    return sum(area2(list(p)) for p in ps if len(p) >= 3)


def c06_key(case, mode, sol=None):
    k = empty_group_key(case, paths_area2(sol) if sol is not None else None)
    if k:
        return k
    jt = case['groups'][0]['jt']
    d = case['delta']
    reg = 'identity' if abs(d) < 0.5 else ('inflate' if d > 0 else 'shrink')
    return 'offset.c06.%s.%s.%s' % (JT[jt].lower(), reg, mode)


def c06_input_paths(case):
    # the specification is about the polygons, however they are written (repeated vertices, closing vertex)
    return [dedup_path(p, True) for g in case['groups'] for p in g['paths'] if len(p) > 0]


def c06_prepare(rng, case, sol, ngrid=8, budget=600):
    """sample points + the two oracle lines (spec classification, winding of the result)"""
    paths = c06_input_paths(case)
    jt = case['groups'][0]['jt']
    d = fr(case['delta'])
    orient = case['orient']
    if abs(case['delta']) < 0.5:
        tol = Fraction(1, 4)
        dists = [x * orient for x in (0.5, -0.5, 1.5, -1.5, 4, -4)]
        pts = samples_closed(rng, paths, dists, ngrid, 10, budget) + samples_output(rng, sol, budget // 3)
        pts = dedup(pts)
        spec = 'C06ID %s %s %s' % (rat(2 * tol), vf.fmt_paths(dbl_paths(paths)), fmt_pts(pts))
    else:
        kind, f = c06_kind(jt, case['ml'])
        tol = prop_tol(jt, case['at'], d)
        lo, hi = min(d, f * d), max(d, f * d)
        ds = [float(d), 0.7, -0.7]
        for m in (1.01, 2, 10):
            ds += [float(lo - m * tol), float(hi + m * tol)]
        if kind == 2:
            ds += [float(d) / 2, float(d - (tol * 1.01 if d > 0 else -tol * 1.01))]
        dists = [x * orient for x in ds]
        reach = float(max(abs(lo), abs(hi)) + 12 * tol)
        pts = samples_closed(rng, paths, dists, ngrid, reach, budget) + samples_output(rng, sol, budget // 3)
        pts = dedup(pts)
        spec = 'C06 %d %d %s %s %s %s %s' % (orient, kind, rat(2 * d), rat(f), rat(2 * tol),
                                             vf.fmt_paths(dbl_paths(paths)), fmt_pts(pts))
    wn = 'WN %s %s' % (vf.fmt_paths(dbl_paths(sol)), fmt_pts(pts))
    return pts, spec, wn


def region_eval(ctx, T, rng, cases, prepare, sign_of, key_of, label, pid_kind):
    """Run the cases through the harness (EXE: plain + observed run), classify sample points with the Coq
    specification and compare with the winding number of the result.  Returns per-case dicts."""
    outs = T.H([exe_line(c) for c in cases])
    res = []
    olines = []
    idx = []
    for i, (c, o) in enumerate(zip(cases, outs)):
        r = parse_exe(o)
        res.append(r)
        if bad_answer(ctx, r, label, o, dict(kind=pid_kind, case=c)):
            continue
        if r['err'] != 0:
            viol(ctx, 'offset.error-code', '%s: ErrorCode %d on valid input' % (label, r['err']), replay=dict(kind=pid_kind, case=c))
            continue
        if not r['same']:
            viol(ctx, 'tie-break:offset-observer-intrusive',
                          '%s: result with the observing delta callback differs from the plain run' % label,
                          replay=dict(kind=pid_kind, case=c), nofail=True)
        pts, spec, wn = prepare(rng, c, r['sol'])
        r['pts'] = pts
        olines += [spec, wn]
        idx.append(i)
    oo = T.O(olines)
    nviol = 0
    for k, i in enumerate(idx):
        c, r = cases[i], res[i]
        ver = [int(x) for x in oo[2 * k].split()]
        wn = [int(x) for x in oo[2 * k + 1].split()]
        sg = sign_of(c)
        nc = sum(1 for v in ver if v == 1); nu = sum(1 for v in ver if v == 0)
        r['ncover'], r['nuncover'], r['nfree'] = nc, nu, len(ver) - nc - nu
        ctx.count('evaluations', len(ver))
        ctx.count('sample_points_must_cover', nc); ctx.count('sample_points_must_uncover', nu)
        ctx.count('sample_points_free', len(ver) - nc - nu)
        bad = None
        for q, v, w in zip(r['pts'], ver, wn):
            if v == 1 and w != sg:
                bad = ('missing' if w == 0 else 'wrong-winding', q, v, w)
                break
            if v == 0 and w != 0:
                bad = ('extra', q, v, w)
                break
        r['bad'] = bad
        if bad:
            nviol += 1
            mode, q, v, w = bad
            viol(ctx, key_of(c, mode, r['sol']),
                          '%s: point (%s, %s) must be %s by the result but its winding number there is %d (expected %d); '
                          'delta=%s join=%s %s' % (label, q[0] / 2, q[1] / 2, 'covered' if v == 1 else 'uncovered', w, sg if v == 1 else 0,
                                                    c['delta'], JT[c['groups'][0]['jt']], ET[c['groups'][0]['et']]),
                          replay=dict(kind=pid_kind, case=c, point2=list(q), verdict=v, wn=w))
    return res


# ----------------------------------------------------------------------------- C07 specification check
def c07_key(case, mode, sol=None):
    g = case['groups'][0]
    if g['et'] == 1 and joined_leak_shape(g['paths']):
        return 'offset.endtype-leak.joined-2pt-then-longer'
    return 'offset.c07.%s-join.%s-end.%s' % (JT[g['jt']].lower(), ET[g['et']].lower(), mode)


def stripped_len(p, closed):
    q = [v for i, v in enumerate(p) if i == 0 or tuple(v) != tuple(p[i - 1])]
    if closed:
        while len(q) > 1 and tuple(q[-1]) == tuple(q[0]):
            q.pop()
    return len(q)


def joined_leak_shape(paths):
    """a two-point path followed (later in the same group) by a path with more than two points"""
    seen2 = False
    for p in paths:
        n = stripped_len(p, True)
        if n == 2:
            seen2 = True
        elif n > 2 and seen2:
            return True
    return False


def c07_prepare(rng, case, sol, ngrid=7, budget=650):
    g = case['groups'][0]
    jt, et = g['jt'], g['et']
    paths = [dedup_path(p, et == 1) for p in g['paths']]      # the polylines, however they are written
    absd = abs(fr(case['delta']))
    tol = prop_tol(jt, case['at'], absd, with_arc=(jt == 2 or et == 4))
    fj = join_factor(jt, case['ml'])
    fmax = max(fj, SQRT2_UB)
    ds = [float(absd) * 0.5, 0.7]
    for m in (1.01, 2, 10):
        ds += [float(absd - m * tol), float(absd * fj + m * tol), float(absd + m * tol)]
    ds = [x for x in ds if x > 0]
    ends = [0.0, float(tol) * 1.01, -float(tol) * 1.01]
    for m in (1.01, 2, 10):
        ends += [float(absd - m * tol), float(absd + m * tol), float(absd * fmax + m * tol)]
    reach = float(absd * fmax + 12 * tol)
    pts = dedup(samples_open(rng, paths, ds, ends, ngrid, reach, budget) + samples_output(rng, sol, budget // 3))
    spec = 'C07 %d %d %s %s %s %s %s' % (jt, et, rat(fr(case['ml'])), rat(2 * absd), rat(2 * tol),
                                         vf.fmt_paths(dbl_paths(paths)), fmt_pts(pts))
    wn = 'WN %s %s' % (vf.fmt_paths(dbl_paths(sol)), fmt_pts(pts))
    return pts, spec, wn


# ----------------------------------------------------------------------------- locality: every path as if alone
def canon(sol):
    return vf.canon_paths(sol)


def alone_case(case, gi, pi):
    g = case['groups'][gi]
    c = dict(case)
    c['groups'] = [dict(jt=g['jt'], et=g['et'], paths=[g['paths'][pi]])]
    return c


def locality_key(case, diffs):
    """classifier of an alone-vs-together difference from the structure of the input (diffs = (expected, actual) rings)"""
    for gi, g in enumerate(case['groups']):
        if g['et'] == 1 and joined_leak_shape(g['paths']):
            return 'offset.endtype-leak.joined-2pt-then-longer'
    k = empty_group_key(case, paths_area2(diffs[1]), paths_area2(diffs[0])) if diffs else empty_group_key(case)
    if k:
        return k
    ets = sorted(set(ET[g['et']].lower() for g in case['groups']))
    return 'offset.alone-vs-together.' + '+'.join(ets)


def locality_eval(ctx, T, cases, label, pid_kind, key_of=None):
    """cases whose paths (or `units` = list of (gi, [pi...]) blocks that belong together, e.g. a polygon with its holes)
    are far apart: the result must be exactly the union of the results of offsetting every unit alone."""
    lines, owner = [], []
    for ci, c in enumerate(cases):
        lines.append(exe_line(c, 'RUN')); owner.append((ci, None))
        us = c.get('units') or [(gi, [pi]) for gi, g in enumerate(c['groups']) for pi in range(len(g['paths']))]
        for u in us:
            gi, pis = u
            g = c['groups'][gi]
            a = dict(c); a.pop('units', None)
            a['groups'] = [dict(jt=g['jt'], et=g['et'], paths=[g['paths'][pi] for pi in pis])]
            lines.append(exe_line(a, 'RUN')); owner.append((ci, u))
    outs = T.H(lines)
    tog, alone = {}, {}
    for (ci, u), o in zip(owner, outs):
        r = parse_exe(o)
        if bad_answer(ctx, r, label, o, dict(kind=pid_kind, case=cases[ci])):
            r = dict(ok=False, sol=[])
        if u is None:
            tog[ci] = r
        else:
            alone.setdefault(ci, []).append((u, r))
    nbad = 0
    diffs = []
    for ci, c in enumerate(cases):
        ctx.count('evaluations', 1)
        exp = canon([p for _, r in alone.get(ci, []) for p in r['sol']])
        got = canon(tog[ci]['sol'])
        if exp != got:
            diffs.append((ci, exp, got))
    # The clean-up union rounds an intersection point into the current scanbeam, and the scanbeams depend on the
    # y coordinates of every path in the call, so distant paths can move a vertex of the result by one unit.
    # Such differences are inside the +-2 units the property allows: a difference counts only when the two regions
    # disagree at a point farther than 2 units from the boundary of the alone-result.
    if diffs:
        rs = ctx.rng.fork(4242)
        olines = []
        for ci, exp, got in diffs:
            pts = dedup(samples_output(rs, [list(p) for p in exp], 400) + samples_output(rs, [list(p) for p in got], 400))
            if not pts:
                pts = [(0, 0)]
            P = fmt_pts(pts)
            E = vf.fmt_paths(dbl_paths(exp)); G = vf.fmt_paths(dbl_paths(got))
            olines += ['WN %s %s' % (E, P), 'WN %s %s' % (G, P), 'FAR 4 1 1 %s %s' % (E, P), 'FAR 4 1 1 %s %s' % (G, P)]
        oo = T.O(olines)
        for k, (ci, exp, got) in enumerate(diffs):
            c = cases[ci]
            wa, wb, fa, fb = (oo[4 * k + i].split() for i in range(4))
            gross = any(x != y and (f == '1' or g == '1') for x, y, f, g in zip(wa, wb, fa, fb)) or (not exp) != (not got)
            if not gross:
                ctx.count('locality_rounding_only_differences', 1)
                ctx.sample(dict(kind=pid_kind, case=c, note='differs from alone by sweep rounding only'), limit=2, key='rounding_only_samples')
                continue
            nbad += 1
            missing = [list(p) for p in exp if p not in got][:3]
            extra = [list(p) for p in got if p not in exp][:3]
            key = key_of(c, (exp, got)) if key_of else locality_key(c, (exp, got))
            viol(ctx, key, '%s: offsetting the paths together differs from offsetting each alone although they are far apart '
                          '(delta=%s); paths only in alone-results: %s; only in the joint result: %s'
                          % (label, c['delta'], missing, extra),
                          replay=dict(kind=pid_kind, case=c, expected=[list(map(list, p)) for p in exp], actual=[list(map(list, p)) for p in got]))
    return nbad


# ----------------------------------------------------------------------------- plan tie (HM+T through the observer)
def plan_tie(ctx, T, cases, label, pid_kind):
    """EXE every case; the values the library used for every path (observer) must equal the OffsetPlan model's plan
    computed from the group fields the library derived; the group fields must equal the model of the Group ctor."""
    outs = T.H([exe_line(c) for c in cases])
    parsed = [parse_exe(o) for o in outs]
    plines, glines, gidx = [], [], []
    for ci, (c, r) in enumerate(zip(cases, parsed)):
        if bad_answer(ctx, r, label, outs[ci], dict(kind=pid_kind, case=c)):
            continue
        plines.append((ci, plan_line(c, r['groups'])))
        for gi, g in enumerate(c['groups']):
            glines.append('GROUP %d %d %s' % (g['jt'], g['et'], vf.fmt_paths(g['paths']))); gidx.append((ci, gi))
    pouts = T.O([l for _, l in plines])
    gouts = T.O(glines) if glines else []
    nbreak = 0
    # group constructor
    for (ci, gi), o in zip(gidx, gouts):
        r = parsed[ci]
        if not r['ok'] or gi >= len(r['groups']):
            continue
        t = o.split()
        ps, pos = vf.parse_paths(t, 1)
        low, isrev = int(t[pos]), int(t[pos + 1])
        hg = r['groups'][gi]
        ctx.count('group_ctor_compared', 1)
        if [len(p) for p in ps] != hg['lens'] or low != hg['low'] or isrev != hg['isrev']:
            nbreak += 1
            viol(ctx, 'tie-break:OffsetPlan.mk_group', '%s: Group constructor differs from the model: library lens=%s low=%s rev=%s, model lens=%s low=%s rev=%s'
                          % (label, hg['lens'], hg['low'], hg['isrev'], [len(p) for p in ps], low, isrev),
                          replay=dict(kind=pid_kind, case=cases[ci], group=gi), nofail=True)
    # temp_lim_ left by Execute must be the value for the miter limit in force (however it was supplied)
    mls = sorted(set(fhex(c['ml']) for c in cases))
    tl = dict(zip(mls, T.O(['TLIM %s' % m for m in mls]))) if mls else {}
    steps_req = {}
    for (ci, _), po in zip(plines, pouts):
        c, r = cases[ci], parsed[ci]
        pl = parse_plan(po)
        ctx.count('plans_compared', 1)
        msgs = []
        first = {}
        for o in r['obs']:
            first.setdefault((o['gi'], o['pi'], o['kind']), []).append(o)
        ctx.count('check_reverse_compared', 1)
        if parse_plan(po)['mode'] == 'offset':
            ctx.count('temp_lim_compared', 1)
            if not hexeq(r['final'][5], tl[fhex(c['ml'])]):
                nbreak += 1
                viol(ctx, 'tie-break:OffsetGeom.temp_lim', '%s: temp_lim_ after Execute is %s, the model derives %s from the miter limit %s in force '
                     '(options supplied %s)' % (label, r['final'][5], tl[fhex(c['ml'])], c['ml'],
                                                ['by the constructor', 'by the setters', 'by the setters after an Execute'][c.get('via', 0)]),
                     replay=dict(kind=pid_kind, case=c), nofail=True)
        if pl['mode'] != 'nothing' and pl['fillneg'] != r['paths_reversed']:
            nbreak += 1
            viol(ctx, 'tie-break:OffsetPlan.check_reverse', '%s: CheckReverseOrientation returns %d, the model %d (groups: %s)'
                          % (label, r['paths_reversed'], pl['fillneg'], [(ET[g['et']], g['lens'], g['low'], g['isrev']) for g in r['groups']]),
                          replay=dict(kind=pid_kind, case=c), nofail=True)
        if pl['mode'] != 'offset':
            if r['obs']:
                msgs.append('model says %s but the library offset %d paths' % (pl['mode'], len(r['obs'])))
        else:
            for e in pl['entries']:
                k = (e['gi'], e['pi'], 0)
                ob = first.get(k)
                if e['len'] == 0:
                    continue
                if not ob:
                    msgs.append('path %s: no observation, model says %s' % (k[:2], e['act']))
                    continue
                if len(ob) != 1:
                    msgs.append('path %s: member values changed while the path was offset' % (k[:2],))
                o = ob[0]
                ctx.count('plan_entries_compared', 1)
                if not hexeq(o['gd'], e['gd']) or o['jt'] != e['jt'] or o['et'] != e['et'] or not hexeq(o['dlt'], e['mdelta']):
                    msgs.append('path %s: library used group_delta_=%s join=%d end=%d delta_=%s, model %s %d %d %s'
                                % (k[:2], o['gd'], o['jt'], o['et'], o['dlt'], e['gd'], e['jt'], e['et'], e['mdelta']))
                if e['stepsfor'] == 'none':
                    if float.fromhex(o['spr']) != 0.0:
                        msgs.append('path %s: steps_per_rad_=%s but the model says it was never computed' % (k[:2], o['spr']))
                else:
                    steps_req.setdefault((fhex(c['at']), e['stepsfor']), []).append((ci, k, o['spr']))
                ob2 = first.get((e['gi'], e['pi'], 1))
                if (e['act'] == 'joined') != bool(ob2):
                    msgs.append('path %s: reverse pass %s but model action is %s' % (k[:2], 'seen' if ob2 else 'not seen', e['act']))
            known = set((e['gi'], e['pi']) for e in pl['entries'])
            for k in first:
                if (k[0], k[1]) not in known:
                    msgs.append('observation for unknown path %s' % (k,))
        if msgs:
            nbreak += 1
            viol(ctx, 'tie-break:OffsetPlan.plan', '%s: plan model and library disagree: %s' % (label, '; '.join(msgs[:3])),
                          replay=dict(kind=pid_kind, case=c), nofail=True)
    # steps_per_rad_ for the abs_delta the model says it was computed for
    if steps_req:
        keys = sorted(steps_req)
        so = libm_loop(T, ['STEPS %s %s' % k for k in keys])
        for k, o in zip(keys, so):
            t = o.split()
            for (ci, pk, spr) in steps_req[k]:
                ctx.count('steps_compared', 1)
                if t[0] != 'OK' or not hexeq(t[1], spr):
                    nbreak += 1
                    viol(ctx, 'tie-break:OffsetGeom.step_consts', '%s: steps_per_rad_ %s differs from the model %s (arc tolerance %s, |delta| %s)'
                                  % (label, spr, o, k[0], k[1]), replay=dict(kind=pid_kind, case=cases[ci]), nofail=True)
    return nbreak, parsed


# ----------------------------------------------------------------------------- raw curve tie (HM+X, bit exact)
def raw_line(ml, at, delta, jt, et, paths):
    return 'RAW %s %s %s %d %d %s' % (fhex(ml), fhex(at), fhex(delta), jt, et, vf.fmt_paths(paths))


def raw_tie(ctx, T, cases, label, pid_kind):
    """cases: dict(ml, at, delta, jt, et, paths).  DoGroupOffset's raw output must equal the OffsetGeom model exactly."""
    lines = [raw_line(c['ml'], c['at'], c['delta'], c['jt'], c['et'], c['paths']) for c in cases]
    houts = T.H(lines)
    oouts = libm_loop(T, lines)
    nbreak = 0
    for c, h, o in zip(cases, houts, oouts):
        ctx.count('raw_curves_compared', 1)
        hr = h.split(' V ')[0]
        if o is None or hr != o:
            nbreak += 1
            # where do they differ
            what = 'library %s ... model %s ...' % (hr[:160], (o or 'no answer')[:160])
            try:
                hp, _ = vf.parse_paths(hr.split(), 2); op, _ = vf.parse_paths(o.split(), 2)
                if len(hp) == len(op):
                    for a, b in zip(hp, op):
                        if a != b:
                            if len(a) == len(b):
                                k = [i for i in range(len(a)) if a[i] != b[i]][0]
                                what = 'vertex %d of a raw curve: library %s, model %s' % (k, a[k], b[k])
                            else:
                                what = 'raw curve lengths differ: library %d, model %d' % (len(a), len(b))
                            break
                else:
                    what = 'number of raw curves differs: library %d, model %d' % (len(hp), len(op))
            except Exception:
                pass
            viol(ctx, 'tie-break:OffsetGeom.raw-curve', '%s: raw offset curve of the library differs from the binary64 model: %s '
                          '(join %s end %s delta %s)' % (label, what, JT[c['jt']], ET[c['et']], c['delta']),
                          replay=dict(kind=pid_kind, case=c), nofail=True)
    return nbreak


def float_selftest(ctx, T, n=4000):
    """IEEE operations of the C++ build vs Coq primitive floats, bitwise"""
    rng = ctx.rng.fork(991)
    ops = ['add', 'sub', 'mul', 'div', 'sqrt', 'ceil', 'abs', 'round']
    items = []
    for i in range(n):
        op = ops[i % len(ops)]
        e1 = rng.range(-30, 40); e2 = rng.range(-30, 40)
        a = (rng.below(1 << 53) / float(1 << 52)) * (2.0 ** e1) * (1 if rng.chance(1, 2) else -1)
        b = (rng.below(1 << 53) / float(1 << 52)) * (2.0 ** e2) * (1 if rng.chance(1, 2) else -1)
        if op == 'sqrt':
            a = abs(a)
        if op in ('ceil', 'round'):
            a = a if abs(a) < 2 ** 52 else a / 2 ** 20
            if rng.chance(1, 4):
                a = float(rng.range(-1000, 1000)) + rng.choice([0.0, 0.5, -0.5])
        items.append('%s %s %s' % (op, fhex(a), fhex(b)))
    chunks = [items[i:i + 200] for i in range(0, len(items), 200)]
    lines = ['FOP %d %s' % (len(c), ' '.join(c)) for c in chunks]
    ho = T.H(lines); oo = T.O(lines)
    bad = 0
    for c, h, o in zip(chunks, ho, oo):
        hv, ov = h.split()[1:], o.split()[1:]
        for it, x, y in zip(c, hv, ov):
            # ceil/round are only used followed by a conversion to an integer: compare the values (-0 = 0)
            same = (float.fromhex(x) == float.fromhex(y)) if it.split()[0] in ('ceil', 'round') else hexeq(x, y)
            if not same:
                bad += 1
                if bad <= 3:
                    viol(ctx, 'tie-break:FloatModel.ieee-op', 'IEEE operation differs between the C++ build and Coq primitive floats: %s -> %s vs %s' % (it, x, y),
                                  replay=dict(kind='fop', item=it), nofail=True)
    ctx.count('ieee_ops_compared', len(items))
    return bad


# ----------------------------------------------------------------------------- delta callbacks (coverage of the zero-delta branches)
# Values a DeltaCallback64 may return for which OffsetPoint / OffsetOpenPath emit the input vertex itself
# (|value| <= floating_point_tolerance = 1e-12), and one value just above the threshold
TINY = [0.0, 1e-13, -1e-13, 1e-12, -1e-12]
ABOVE_TINY = 2e-12
SEL = {0: 'nowhere (constant)', 1: 'every vertex', 2: 'vertices selected by a bit mask', 3: 'first vertex', 4: 'last vertex', 5: 'first and last vertex'}


def is_tiny(v):
    return abs(v) <= 1e-12


def tiny_raw_cases(rng, n, closed):
    """RAW cases (plain DoGroupOffset, no callback) whose delta is at / below / just above floating_point_tolerance: the
    model (select_join BTiny, cap) says every vertex is emitted as it is; tied bit for bit like every other raw curve."""
    cs = []
    for i in range(n):
        jt = rng.below(4)
        et = 0 if closed else rng.range(1, 4)
        dl = (TINY + [ABOVE_TINY, -ABOVE_TINY])[i % 7]
        if dl == 0.0 and (jt == 2 or et == 4):
            dl = 1e-13            # Round + 0: the step constants are NaN, which the libm table cannot carry
        S = rng.choice([30, 300, 3000])
        if closed:
            ps = flatten_polys(gen_polyset(rng, S, npoly=1, maxholes=1), rng.chance(1, 2))
        else:
            ps = [gen_polyline(rng, S, rng.choice([1, 2, 3, 4, 6]))]
            if rng.chance(1, 3):
                ps.append(translate(gen_polyline(rng, S, rng.choice([2, 3])), 10 * S, 0))
        cs.append(dict(ml=rng.choice([1, 2, 5]), at=rng.choice([0, 0.25]), delta=dl, jt=jt, et=et, paths=ps))
    return cs


def gen_cb_case(rng, closed):
    """one group + a callback description: value z at the selected vertices, d elsewhere"""
    jt = rng.below(4)
    S = rng.choice([30, 300, 3000])
    if closed:
        et = 0
        ps = flatten_polys(gen_polyset(rng, S, npoly=rng.choice([1, 1, 2]), maxholes=1), rng.chance(1, 3))
        if rng.chance(1, 6):
            ps.append([(5 * S, 5 * S)])                              # a single point in a polygon group
        d = qdelta(rng.choice([1, 2.25, S / 20, S / 8])) * (1 if rng.chance(2, 3) else -1)
    else:
        et = rng.range(1, 4)
        ps = []
        x = 0
        for _ in range(rng.choice([1, 1, 2, 3])):
            for _try in range(200):
                n = rng.choice([1, 2, 2, 3, 3, 4, 5, 7])
                p = gen_polyline(rng, S, n)
                if not (et == 1 and n >= 3 and not angles_ok(p, True)):
                    break
            x0, y0, x1, y1 = bbox([p])
            ps.append(translate(p, int(x - x0), 0))
            x += (x1 - x0) + 12 * S
        d = qdelta(rng.choice([1, 2.25, S / 20, S / 8]))             # open paths: group_delta_ = |delta|
    sel = rng.choice([0, 1, 1, 2, 2, 2, 3, 3, 4, 4, 5])
    z = rng.choice(TINY + [0.0, 0.0, 0.0, -d, -d, ABOVE_TINY, d / 2])
    return dict(ml=rng.choice([1, 2, 5]), at=rng.choice([0, 0.25]), pc=0, rev=int(rng.chance(1, 5)), delta=d, jt=jt, et=et, paths=ps,
                sel=sel, mask=rng.below(1 << 16), z=z, delta2=rng.choice([3.0, -2.0, 0.25, 10.5]),
                groups=[dict(jt=jt, et=et, paths=ps)])


def cb_spec(sel, mask, z, d):
    return '%d %d %s %s' % (sel, mask, fhex(z), fhex(d))


def rawcb_line(c, sel, mask, z, d):
    return 'RAWCB %s %s %s %d %d %s' % (cb_spec(sel, mask, z, d), fhex(c['ml']), fhex(c['at']), c['jt'], c['et'], vf.fmt_paths(c['paths']))


def parse_rawcb(out):
    t = out.split()
    if not t or t[0] != 'OK':
        return dict(ok=False, raw=out, notrun=(out == NOTRUN))
    raw, pos = vf.parse_paths(t, 2)
    assert t[pos] == 'K'
    n = int(t[pos + 1]); pos += 2
    calls = []
    for _ in range(n):
        pi, ln, j, k = (int(x) for x in t[pos:pos + 4])
        val = float.fromhex(t[pos + 4]); v = (int(t[pos + 5]), int(t[pos + 6]))
        cn = int(t[pos + 7]); pos += 8
        chunk = [(int(t[pos + 2 * i]), int(t[pos + 2 * i + 1])) for i in range(cn)]
        pos += 2 * cn
        calls.append(dict(pi=pi, n=ln, j=j, k=k, val=val, v=v, chunk=chunk))
    return dict(ok=True, raw=raw, calls=calls)


def cb_what(c):
    return ('callback returning %r at %s%s and %r elsewhere, join %s end %s'
            % (c['z'], SEL[c['sel']], (' (mask 0x%04x, bit j mod 16)' % c['mask']) if c['sel'] == 2 else '', c['delta'], JT[c['jt']], ET[c['et']]))


def callback_raw_tie(ctx, T, cases, label, pid_kind, variant='plain'):
    """DoGroupOffset with a DeltaCallback64 installed (harness RAWCB), judged vertex by vertex:
      * the constant callback d gives exactly the raw curves of the plain run with delta d (which raw_tie ties to the model);
      * at a vertex where the callback returns |v| <= 1e-12 the library emits the input vertex and nothing else
        (clipper.offset.cpp OffsetPoint / the two caps of OffsetOpenPath; a single point is dropped);
      * at every other vertex it emits what the constant callback with that value emits there: the value returned at a
        vertex decides the construction at that vertex alone."""
    lines, idx = [], []
    for ci, c in enumerate(cases):
        d, z = c['delta'], c['z']
        need2 = (c['sel'] != 0) and (not is_tiny(z)) and z != d
        idx.append((len(lines), need2))
        lines.append(rawcb_line(c, 0, 0, 0.0, d))
        lines.append(rawcb_line(c, c['sel'], c['mask'], z, d))
        lines.append(raw_line(c['ml'], c['at'], d, c['jt'], c['et'], c['paths']))
        if need2:
            lines.append(rawcb_line(c, 0, 0, 0.0, z))
    outs = T.H(lines, variant)
    nbad = 0
    for c, (p, need2) in zip(cases, idx):
        rp = dict(kind=pid_kind, case=c)
        C, M = parse_rawcb(outs[p]), parse_rawcb(outs[p + 1])
        P = outs[p + 2]
        Z = parse_rawcb(outs[p + 3]) if need2 else None
        if any(bad_answer(ctx, r, label, o, rp) for r, o in ((C, outs[p]), (M, outs[p + 1])) + (((Z, outs[p + 3]),) if need2 else ())):
            continue
        if not P.startswith('OK'):
            bad_answer(ctx, dict(ok=False, notrun=(P == NOTRUN)), label, P, rp)
            continue
        ctx.count('callback_raw_cases', 1)
        ctx.count('evaluations', len(M['calls']))
        plain_raw, _ = vf.parse_paths(P.split(' V ')[0].split(), 2)
        if C['raw'] != plain_raw:
            nbad += 1
            viol(ctx, 'offset.delta-callback.constant-differs-from-execute',
                 '%s: with a DeltaCallback64 returning the constant %r the raw offset curves differ from those of delta = %r without a callback '
                 '(join %s end %s)' % (label, c['delta'], c['delta'], JT[c['jt']], ET[c['et']]), replay=rp)
            continue
        seq = lambda R: [(x['pi'], x['n'], x['j'], x['k']) for x in R['calls']]
        if seq(C) != seq(M) or (Z is not None and seq(Z) != seq(M)):
            nbad += 1
            viol(ctx, 'tie-break:offset-callback-call-sequence', '%s: the vertices at which the callback is called depend on the values it returns (%s)'
                 % (label, cb_what(c)), replay=rp, nofail=True)
            continue
        if sum(len(x['chunk']) for x in M['calls']) != sum(len(p_) for p_ in M['raw']):
            nbad += 1
            viol(ctx, 'tie-break:offset-callback-chunks', '%s: raw points that belong to no callback call (%s)' % (label, cb_what(c)), replay=rp, nofail=True)
            continue
        for i, x in enumerate(M['calls']):
            if is_tiny(x['val']):
                ctx.count('callback_zero_vertices', 1)
                ctx.hist('callback_zero_at', 'single point' if x['n'] == 1 else ('cap' if x['j'] == x['k'] else 'join'))
                exp = [] if x['n'] == 1 else [x['v']]
                key = 'offset.delta-callback.zero-delta-vertex-moved'
                what = ('the callback returned %r (|.| <= floating_point_tolerance) at vertex %d %s of a %d-point path: the library must emit '
                        'exactly that vertex%s, it emitted %s' % (x['val'], x['j'], x['v'], x['n'], ' (nothing for a single point)' if x['n'] == 1 else '', x['chunk'][:6]))
            else:
                ref = C if x['val'] == c['delta'] else Z
                exp = ref['calls'][i]['chunk']
                key = 'offset.delta-callback.vertex-not-local'
                what = ('the callback returned %r at vertex %d %s: the points emitted there (%s) differ from those the constant callback %r '
                        'gives at the same vertex (%s)' % (x['val'], x['j'], x['v'], x['chunk'][:6], x['val'], exp[:6]))
            if x['chunk'] != exp:
                nbad += 1
                viol(ctx, key, '%s: %s; %s' % (label, what, cb_what(c)), replay=dict(rp, call=i))
                break
    return nbad


CBX_FLAGS = dict(
    ov=('offset.execute-callback-overload-differs',
        'Execute(DeltaCallback64, Paths64&) on a fresh object differs from SetDeltaCallback(cb) + Execute(1.0, paths) on a fresh object '
        '(or a result container that was not empty when passed in changes the result)'),
    rep=('offset.delta-callback.execute-twice-differs', 'Execute(cb, paths) a second time on the same object (into a non-empty container) differs from the first'),
    tr=('offset.delta-callback.tree-differs-from-fresh', 'Execute(1.0, PolyTree64&) on the used object, into a tree that held another result, differs from a fresh object'),
    tp=('offset.tree-paths-mismatch', 'the polygons of Execute(., PolyTree64&) are not the paths of Execute(., Paths64&)'),
    hist=('offset.execute-after-callback-overload-differs',
          'Execute(delta, paths) after Execute(cb, paths) on the same object differs from a fresh object on which the same callback is installed'),
    pl=('offset.delta-callback.constant-differs-from-execute', 'Execute(cb, paths) with a constant callback d differs from Execute(d, paths)'),
    id=('offset.delta-callback.zero-delta-changes-region',
        'a callback returning |v| <= 1e-12 at every vertex of polygon groups must leave every vertex where it is: the result differs from Execute(0.25, paths)'))


def cbx_line(c):
    return 'CBX %s %s %s %d %d %s %s' % (cb_spec(c['sel'], c['mask'], c['z'], c['delta']), fhex(c['ml']), fhex(c['at']), c.get('pc', 0), c.get('rev', 0),
                                        fhex(c['delta2']), case_groups_str(c))


def callback_api_eval(ctx, T, cases, label, pid_kind, variants=('plain',)):
    """public API with a delta callback (harness CBX): the Execute(cb, paths) overload, result containers that are not empty,
    repetition, tree overload, a later Execute(delta) on the same object.  Under a sanitizer variant only crashes count."""
    lines = [cbx_line(c) for c in cases]
    nbad = 0
    ref = None
    for variant in variants:
        outs = T.H(lines, variant)
        if ref is None:
            ref = outs
        for c, o, o0 in zip(cases, outs, ref):
            rp = dict(kind=pid_kind, case=c, variant=variant)
            r = dict(ok=o.startswith('OK'), notrun=(o == NOTRUN))
            if bad_answer(ctx, r, '%s [%s]' % (label, variant), o, rp):
                nbad += 1
                continue
            ctx.count('evaluations', 1)
            ctx.count('callback_api_cases', 1)
            t = o.split()
            if t[1] != '0':
                viol(ctx, 'offset.error-code', '%s: ErrorCode %s on valid input' % (label, t[1]), replay=rp)
            flags = dict(x.split('=') for x in t[2:10])
            if flags.get('leak') == '1':
                ctx.count('execute_delta_after_callback_overload_uses_the_callback', 1)
            for k, (key, what) in CBX_FLAGS.items():
                if flags.get(k) == '0':
                    nbad += 1
                    viol(ctx, key, '%s: %s; %s, then Execute(%r)' % (label, what, cb_what(c), c['delta2']), replay=rp)
            if o0.startswith('OK') and o.split(' S ')[1] != o0.split(' S ')[1]:
                nbad += 1
                viol(ctx, 'offset.delta-callback.repeat-run-differs', '%s: the %s build gives another result than the %s build / the first run; %s'
                     % (label, variant, variants[0], cb_what(c)), replay=rp)
    return nbad
