"""C08 -- RectClip equals intersection with the rectangle, path by path.

prove      coq/props/Properties_C08.v: theorems over the TRANSLATED leaf functions (coq/gen/Gen_rect.v, regenerated from
           clipper.rectclip.cpp on every run), over the complete hand model coq/model/RectClip.v of RectClip64
           (Execute / ExecuteInternal / Add / AddCorner / CheckEdges / TidyEdges / GetPath + PointInPolygon) and the soundness
           of the sample checker coq/model/RectClipCheck.v.
correspond HM+X   every stage of RectClip64::Execute read through private access (start_locs_, the OutPt2 heap with results_ and
                  edges_[8] after ExecuteInternal, after CheckEdges, after the four TidyEdges, and the public RectClip result)
                  == the extracted model, exactly, on every generated case; the translated leaf functions natively vs extracted
                  on boundary grids; PointInPolygon / Path1ContainsPath2 natively vs model.
           multi  2-4 polygons for one rectangle in ONE call (families that leave state behind: arches hugging the outside of the rectangle
                  past 1-3 corners without crossing, followed by crossing paths, ...) and two Execute calls on one RectClip64 object:
                  result == concatenation of the results of each path alone on a fresh object (each of those is a case of the SPEC+O
                  stream) == extracted model rect_clip_paths (C08_paths_app)
           SPEC+O the property itself on the implementation's output, each polygon separately, decided by the extracted verified
                  checker (command CHK of bin/oracle_rectclip), exact integer arithmetic:
                    every output vertex within rect + 1;
                    at sample points (half-integer grid, given in doubled coordinates) strictly inside the rectangle and farther
                    than 2 units from the input path: sum of output winding numbers = input winding number when the input is a
                    simple polygon (exact self-intersection test), equal parity when it is not and none of its edges lies along a
                    side; at sample points outside the rectangle and farther than 2 from the path: output winding number 0 (parity
                    even for non-simple input);
                    polygons with every vertex in the closed rectangle returned unchanged, polygons missing the rectangle vanish;
                    at the same inside sample points no output path winds against the orientation of the (simple) input [output paths whose
                    signed area has the opposite sign but which contain no such point -- slivers produced by rounding intersection points
                    to the grid -- are counted in the evidence (reversed_sliver_paths), not reported: the property quantifies over points
                    farther than 2 units from the path];
                    every output vertex that is not an input vertex within 1 unit (Euclidean) of the rectangle's boundary.
Failure modes (classifier keys):
  clip.crash / clip.exception      RectClip crashed, hung (timeout / 3 GiB address space limit) or threw
  clip.ip-off-side                 (regression recogniser; repaired by triage/C08-ip-onto-side.patch) root cause key: the failing output contains an intersection point computed OFF the rectangle side (GetSegmentIntersectPt
                                   truncates x1 + t*dx1, so the perpendicular coordinate can be one unit off), and the same model with computed
                                   intersection points projected onto their side passes every clause at the same sample points
  clip.vertex-outside              an output vertex outside rect + 1
  clip.new-vertex-off-boundary     a new vertex farther than 1 from the rectangle's boundary
  clip.inside-changed              a polygon entirely inside the rectangle is not returned unchanged
  clip.outside-not-vanished        a polygon that misses the rectangle produced output
  clip.outside-degenerate-path     (regression recogniser; repaired by triage/C08-getpath-degenerate.patch) ... and that output consists only of paths with fewer than 3 vertices, which cover nothing (GetPath returns the one
                                   or two points that are left after removing collinear vertices)
  clip.orientation                 an output path winds around a sample point (strictly inside, > 2 from the path) against the simple input's orientation
  clip.wn.simple                   winding clause, simple input, strictly inside
  clip.wn.parity                   winding clause, non-simple input without an edge along a side, strictly inside
  clip.outside-covered             output covers a point outside the rectangle (simple input) / odd parity there (non-simple)
  clip.multi-path-state            "for each input polygon separately": RectClip(rect, {p1..pk}) in one call, or two Execute calls on one RectClip64
                                   object, differ from the concatenation of the results of each path alone on a fresh object (state such as
                                   start_locs_ survives a path)
  corr.*                           model / implementation disagreement (correspondence break), tie-break:*, proof-break:*
"""
import itertools, json, os
import vf
from checks import C09

META = dict(
    text='RectClip returns, for each input polygon separately, paths inside the rectangle (within 1 unit) whose winding number at every '
         'point strictly inside the rectangle and farther than 2 units from the path equals the input polygon\'s (simple polygons) or has '
         'the same parity (self-intersecting, no edge along a side); nothing is covered outside; polygons inside are unchanged, polygons '
         'outside vanish, orientation is preserved, new vertices lie on the boundary (within 1)',
    note='theorems over the translated leaf functions (GetLocation partition, the Z/4 facts of HeadingClockwise/GetAdjacentLocation/'
         'AreOpposites, GetIntersection names a side, GetSegmentIntersection against a rectangle side lands within one unit of it for '
         '|coordinates| <= 2^25) and over a complete executable Coq model of RectClip64 (bounds shortcuts, provenance of every emitted '
         'vertex, corner loops) tied to the C++ by exact equality of every intermediate stage '
         'read through private access; the winding-number clause is validated, not proved: a Coq-verified sample checker decides it '
         'exactly at the sample points of every generated case.  Three defects it exposed (stale ip2 of a one-sided pass-through, intersection '
         'points one unit off their side, 1- and 2-point output paths) are repaired; their inputs are kept in corpus/C08',
    technique='Coq proof over translated kernels and a faithful executable model + exact stage-by-stage model/implementation correspondence '
              '+ Coq-verified specification checker on the public API (SPEC+O)',
    category='proof')

LIM = 1 << 40
LEAF_CMDS = ('ADJ', 'HCW', 'OPP', 'LOC', 'EDGES', 'RMISC', 'ISCW', 'IHC', 'GSI', 'COLL', 'HOV', 'VOV', 'GI', 'SLCW', 'BOUNDS')
SAMPLE_CODES = {1: 'clip.wn.simple', 2: 'clip.wn.parity', 3: 'clip.outside-covered', 4: 'clip.outside-covered', 5: 'clip.orientation'}


# ----------------------------------------------------------------------------- tools
class Tools:
    def __init__(self, ctx, want_asan=True):
        self.ctx = ctx
        self.api_only = False
        self.tie_error = None
        try:
            self.exe = vf.build_cpp(ctx, 'cx_rectclip.cpp', 'plain')
        except vf.BuildFailure as e:
            self.tie_error = str(e)
            self.api_only = True
            self.exe = vf.build_cpp(ctx, 'cx_rectclip.cpp', 'plain', extra=['-DCX_RECT_API_ONLY'])
        self.asan = None
        if want_asan:
            try:
                self.asan = vf.build_cpp(ctx, 'cx_rectclip.cpp', 'asan', extra=['-DCX_RECT_API_ONLY'] if self.api_only else [])
            except vf.BuildFailure as e:
                self.tie_error = self.tie_error or str(e)
        self.oracle = vf.oracle_build('rectclip')

    def impl(self, lines, asan=False, timeout=300):
        return run_capped(self.asan if asan else self.exe, lines, timeout=timeout,
                          env={'ASAN_OPTIONS': 'detect_leaks=1:abort_on_error=0', 'UBSAN_OPTIONS': 'print_stacktrace=1'} if asan else None)

    def model(self, lines, timeout=900):
        return C09.run_robust(self.oracle, lines, timeout=timeout)


def run_capped(binary, lines, timeout=300, env=None, max_bad=6):
    """C09.run_robust with a cap: the harness ends itself (status 124, output flushed) when one command runs longer than a few
    seconds, so the input line a shard died on is the first one without output; it is marked 'CRASH ...' and the shard is resumed
    behind it.  A line the harness died on without flushing (a real crash) is confirmed by running it alone.  After max_bad dead
    lines in one shard the rest of that shard is marked 'SKIP' (a tree that hangs on thousands of inputs must not stall the check)."""
    import concurrent.futures as cf
    n = len(lines)
    if n == 0:
        return []

    def work(shard):
        out, pos, bad = [], 0, 0
        while pos < len(shard):
            p = vf.run_lines(binary, shard[pos:], timeout=timeout, env=env)
            o = p.stdout.split('\n')[:-1]      # drops '' after a complete last line, or a partial line of a killed process
            rest = len(shard) - pos
            if p.returncode == 0 and len(o) == rest:
                out += o
                break
            good = min(len(o), rest - 1)
            if p.returncode == 0:
                raise vf.Infra('lost outputs from %s' % binary)
            if p.returncode != 124 and not getattr(p, 'timed_out', False):
                # died without flushing: everything printed is valid, the culprit is somewhere behind; probe the next line alone
                q = vf.run_lines(binary, [shard[pos + good]], timeout=60, env=env)
                qo = q.stdout.split('\n')
                if q.returncode == 0 and len(qo) >= 1 and qo[0] != '':
                    out += o[:good] + [qo[0]]
                    pos += good + 1
                    continue
                p = q
            out += o[:good]
            out.append('CRASH rc=%s %s' % (p.returncode, ' '.join((p.stderr or '')[-600:].split())))
            pos += good + 1
            bad += 1
            if bad >= max_bad:
                out += ['SKIP'] * (len(shard) - pos)
                break
        return out
    chunk = max(1, (n + vf.NPROC - 1) // vf.NPROC)
    shards = [lines[i:i + chunk] for i in range(0, n, chunk)]
    with cf.ThreadPoolExecutor(max_workers=vf.NPROC) as ex:
        res = [x for o in ex.map(work, shards) for x in o]
    if len(res) != n:
        raise vf.Infra('lost outputs from %s' % binary)
    return res


# ----------------------------------------------------------------------------- generators (closed paths)
def clamp(v):
    return max(-LIM, min(LIM, v))


def rand_rect(rng, mag):
    return C09.rand_rect(rng, mag)


def isqrt_dir(rng, k, n):
    """k-th of n directions as a rational vector (no trigonometry: points on a square, which is star-shaped too)"""
    # walk around the unit square perimeter [-1000,1000]^2
    t = (8000 * k) // n + rng.range(0, max(0, 8000 // n - 1))
    side, u = divmod(t % 8000, 2000)
    u -= 1000
    return [(u, -1000), (1000, u), (-u, 1000), (-1000, -u)][side]


def gen_case(rng, style, mag, rect=None):
    r = list(rect) if rect else rand_rect(rng, mag)
    l, t, rr, b = r
    w, h = rr - l, b - t
    cx, cy = (l + rr) // 2, (t + b) // 2
    sp = lambda lo, hi: C09.special(rng, lo, hi, mag)
    P = []
    if style in C09.STYLES:
        c = C09.gen_polyline(rng, style, mag)
        r, P = c['rect'], [tuple(p) for p in c['path']]
        if len(P) < 3:
            P.append((sp(r[0], r[2]), sp(r[1], r[3])))
    elif style == 'star':
        # star-shaped around a centre in/near the rectangle: simple unless snapping breaks it
        n = rng.choice([3, 4, 5, 6, 8, 10, 14])
        c0 = (rng.range(l - w, rr + w), rng.range(t - h, b + h)) if rng.chance(1, 2) else (rng.range(l, rr), rng.range(t, b))
        R = rng.choice([max(2, w // 3), max(2, w), max(2, 2 * w + 2 * h), max(3, mag // 2), 5, 12])
        for k in range(n):
            dx, dy = isqrt_dir(rng, k, n)
            rad = rng.range(max(1, R // 3), R)
            P.append((c0[0] + dx * rad // 1000, c0[1] + dy * rad // 1000))
        if rng.chance(1, 2):    # snap some coordinates onto the side lines / corners
            for k in range(n):
                if rng.chance(1, 3):
                    x, y = P[k]
                    if rng.chance(1, 2):
                        x = min([l, rr, l - 1, rr + 1], key=lambda v: abs(v - x))
                    if rng.chance(1, 2):
                        y = min([t, b, t - 1, b + 1], key=lambda v: abs(v - y))
                    P[k] = (x, y)
        if rng.chance(1, 2):
            P.reverse()
    elif style == 'enclose':
        # a ring around the rectangle (encloses it), sometimes touching its corners / sides, both orientations
        n = rng.choice([4, 4, 5, 6, 8, 12])
        g = rng.choice([0, 0, 1, 2, 3, max(1, w // 2), max(1, mag // 3)])
        ring = []
        per = [(l - g, t - g), (cx, t - g), (rr + g, t - g), (rr + g, cy), (rr + g, b + g), (cx, b + g), (l - g, b + g), (l - g, cy)]
        if n <= 4:
            ring = [per[0], per[2], per[4], per[6]]
        else:
            ring = per[:]
            while len(ring) < n:
                k = rng.below(len(ring))
                a, c = ring[k], ring[(k + 1) % len(ring)]
                ring.insert(k + 1, ((a[0] + c[0]) // 2, (a[1] + c[1]) // 2))
        far = rng.range(0, max(1, mag // 2))
        P = []
        for (x, y) in ring:
            # push outward randomly (keeps enclosing)
            ox = (-1 if x < cx else 1 if x > cx else 0) * (rng.range(0, far) if rng.chance(1, 2) else 0)
            oy = (-1 if y < cy else 1 if y > cy else 0) * (rng.range(0, far) if rng.chance(1, 2) else 0)
            P.append((x + ox, y + oy))
        if rng.chance(1, 2):
            P.reverse()
        k = rng.below(len(P))
        P = P[k:] + P[:k]
    elif style == 'spiral':
        # winds around the rectangle several times (self-intersecting when closed), sometimes dipping inside
        turns = rng.choice([1, 2, 2, 3, 4])
        g0 = rng.choice([0, 1, 2, max(1, w // 3), max(1, mag // 8)])
        step = rng.choice([0, 1, 2, max(1, w // 4), max(1, mag // 16)])
        cw = rng.chance(1, 2)
        k0 = rng.below(4)
        for q in range(4 * turns + rng.below(4)):
            g = g0 + step * q
            c4 = [(l - g, t - g), (rr + g, t - g), (rr + g, b + g), (l - g, b + g)]
            v = c4[(k0 + (q if cw else -q)) % 4]
            if rng.chance(1, 6):
                v = (sp(l, rr), sp(t, b))
            P.append(v)
    elif style == 'snake':
        # simple polygon whose boundary goes around the rectangle and comes back (a thick open ring), or a comb crossing a side
        if rng.chance(1, 2):
            g1 = rng.choice([1, 2, 3, max(2, w // 2)])
            g2 = g1 + rng.choice([1, 2, max(1, w // 2), max(1, mag // 8)])
            gap = rng.choice([0, 1, max(1, h // 3)])
            inner = rng.choice([0, 0, 1, -1, -(w // 3)])   # inner ring possibly inside the rectangle
            a = g1 if inner == 0 else inner
            P = [(l - g2, cy - gap), (l - g2, t - g2), (rr + g2, t - g2), (rr + g2, b + g2), (l - g2, b + g2), (l - g2, cy + gap + 1),
                 (l - a, cy + gap + 1), (l - a, b + a), (rr + a, b + a), (rr + a, t - a), (l - a, t - a), (l - a, cy - gap)]
        else:
            # comb: teeth crossing one side; tips possibly exactly on the side
            teeth = rng.choice([1, 2, 3, 5])
            side = rng.below(4)
            depth_in = rng.choice([0, 1, 2, max(1, h // 2), h, h + 1, h + 3])
            base_out = rng.choice([1, 2, 5, max(1, mag // 4)])
            tw = max(1, w // (2 * teeth + 1))
            x = l - rng.choice([0, 1, tw])
            P = [(x, t - base_out)]
            for k in range(teeth):
                x1 = x + tw * (2 * k + 1)
                x2 = x1 + tw
                tip = t + depth_in - (rng.choice([0, 0, 1]) if rng.chance(1, 3) else 0)
                valley = t - rng.choice([0, 0, 1, base_out // 2])
                P += [(x1, valley), (x1, tip), (x2, tip), (x2, valley)]
            P.append((x + tw * (2 * teeth + 2), t - base_out))
            # rotate the picture so that the comb crosses side `side`
            def rot(p, k):
                x_, y_ = p[0] - cx, p[1] - cy
                for _ in range(k):
                    x_, y_ = -y_, x_
                return (x_ + cx, y_ + cy)
            if w == h or side == 0:
                P = [rot(p, side if w == h else 0) for p in P]
        if rng.chance(1, 2):
            P.reverse()
    elif style == 'rectil':
        # rectilinear closed walk on special coordinates: many edges along the side lines
        n = rng.choice([2, 3, 4, 6])
        xs = [sp(l, rr) for _ in range(n)]
        ys = [sp(t, b) for _ in range(n)]
        for k in range(n):
            P.append((xs[k], ys[k]))
            P.append((xs[(k + 1) % n], ys[k]))
    elif style == 'corner':
        # edges through the corners / vertices at the corners
        n = rng.choice([3, 4, 5, 6])
        cs = [(l, t), (rr, t), (rr, b), (l, b)]
        for k in range(n):
            c = rng.choice(cs)
            m = rng.below(4)
            if m == 0:
                P.append(c)
            elif m == 1:
                d = rng.choice([(1, 1), (1, -1), (2, 1), (1, 2), (-3, 1), (1, 0), (0, 1), (-1, -1), (3, -2)])
                s = rng.range(1, max(1, min(mag, 50)))
                P.append((c[0] + s * d[0], c[1] + s * d[1]))
                P.append((c[0] - s * d[0], c[1] - s * d[1]) if rng.chance(1, 2) else c)
            else:
                P.append((sp(l, rr), sp(t, b)))
    elif style == 'hugout':
        # simple polygon that lies OUTSIDE the rectangle but runs along one, two or three of its sides (U, L and I shapes whose
        # inner boundary is the side line itself or a unit or more away): every rectangle corner can lie ON the polygon although
        # the polygon contains no interior point of the rectangle ("path contains rect?" must not be decided by the corners)
        g = rng.choice([1, 2, 5, max(1, w // 3), max(1, mag // 8)])                 # band thickness
        a = [rng.choice([0, 0, 0, 1, 2, max(1, h // 5)]) for _ in range(3)]         # gaps between the sides and the notch (0 = on the side)
        e = rng.choice([0, 0, 1, -1, max(1, h // 4), -max(1, h // 4), g])            # how far the prongs reach past the open side
        nl, nr, nb, nt = l - a[0], rr + a[1], b + a[2], t - e
        shape = rng.below(4)
        if shape <= 1:      # U open towards -y
            P = [(nl - g, nt), (nl, nt), (nl, nb), (nr, nb), (nr, nt), (nr + g, nt), (nr + g, nb + g), (nl - g, nb + g)]
        elif shape == 2:    # L along the left and bottom sides
            P = [(nl - g, nt), (nl, nt), (nl, nb), (rr + e, nb), (rr + e, nb + g), (nl - g, nb + g)]
        else:               # I: a band along the left side
            P = [(nl - g, nt), (nl, nt), (nl, b + e), (nl - g, b + e)]
        if rng.chance(1, 3):    # extra collinear vertices at the corners / side midpoints
            Q = []
            for k in range(len(P)):
                p0, p1 = P[k], P[(k + 1) % len(P)]
                Q.append(p0)
                for c in [(l, t), (rr, t), (rr, b), (l, b), (l, cy), (rr, cy), (cx, b)]:
                    if c != p0 and c != p1 and (p1[0] - p0[0]) * (c[1] - p0[1]) - (p1[1] - p0[1]) * (c[0] - p0[0]) == 0 and min(p0[0], p1[0]) <= c[0] <= max(p0[0], p1[0]) and min(p0[1], p1[1]) <= c[1] <= max(p0[1], p1[1]) and rng.chance(1, 2):
                        Q.append(c)
            P = Q
        # symmetries of the picture: flips keep the rectangle, the transposition swaps its roles (the rectangle is mapped too)
        if rng.chance(1, 2):
            P = [(l + rr - x, y) for x, y in P]
        if rng.chance(1, 2):
            P = [(x, t + b - y) for x, y in P]
        if rng.chance(1, 2):
            P = [(y, x) for x, y in P]
            r = [t, l, b, rr]
        if rng.chance(1, 2):
            P.reverse()
        k = rng.below(len(P))
        P = P[k:] + P[:k]
    elif style == 'polyomino':
        # boundary of a random simply connected set of grid cells around the rectangle (the rectangle covers 3x3 cells of a
        # 7x7 grid): a SIMPLE rectilinear polygon with many vertices whose edges constantly run along the side lines, end at
        # corners, hug the rectangle from outside or inside -- the everyday CAD case of the winding clause
        s = rng.choice([1, 2, 8, max(1, mag // 8)])
        ox, oy = (rng.range(-mag, mag), rng.range(-mag, mag)) if mag > 100 else (0, 0)
        r = [ox, oy, ox + 3 * s, oy + 3 * s]
        for _try in range(20):
            N = 7
            cells = {(rng.range(0, N - 1), rng.range(0, N - 1))}
            for _ in range(rng.choice([2, 4, 6, 9, 12, 16, 22, 30])):
                ci, cj = rng.choice(sorted(cells))
                di, dj = rng.choice([(1, 0), (-1, 0), (0, 1), (0, -1)])
                if 0 <= ci + di < N and 0 <= cj + dj < N:
                    cells.add((ci + di, cj + dj))
            edges = set()
            for (i, j) in cells:
                for e in (((i, j), (i + 1, j)), ((i + 1, j), (i + 1, j + 1)), ((i + 1, j + 1), (i, j + 1)), ((i, j + 1), (i, j))):
                    if (e[1], e[0]) in edges:
                        edges.discard((e[1], e[0]))
                    else:
                        edges.add(e)
            nxt = {}
            ok = True
            for a, b in edges:
                if a in nxt:
                    ok = False      # pinch point
                    break
                nxt[a] = b
            if not ok or not nxt:
                continue
            start = min(nxt)
            cyc, v = [start], nxt[start]
            while v != start and len(cyc) <= len(nxt):
                cyc.append(v)
                v = nxt[v]
            if len(cyc) != len(nxt):
                continue            # a hole: more than one boundary cycle
            keep_collinear = rng.chance(1, 3)
            Q = []
            for k in range(len(cyc)):
                a, b, c = cyc[k - 1], cyc[k], cyc[(k + 1) % len(cyc)]
                straight = (b[0] - a[0]) * (c[1] - b[1]) - (b[1] - a[1]) * (c[0] - b[0]) == 0
                if not straight or (keep_collinear and rng.chance(1, 2)):
                    Q.append(b)
            if len(Q) < 4:
                continue
            P = [(ox + (x - 2) * s, oy + (y - 2) * s) for x, y in Q]
            break
        else:
            P = [(ox - s, oy - s), (ox + s, oy - s), (ox + s, oy + s), (ox - s, oy + s)]
        if rng.chance(1, 2):
            P.reverse()
        k = rng.below(len(P))
        P = P[k:] + P[:k]
    else:
        raise ValueError(style)
    P = [(clamp(x), clamp(y)) for x, y in P]
    r = [clamp(v) for v in r]
    if r[0] >= r[2]:
        r[0] = r[2] - 1
    if r[1] >= r[3]:
        r[1] = r[3] - 1
    return dict(rect=list(r), path=[list(p) for p in P], style=style, mag=mag)


def ring8(r, g):
    """mid-left, top-left, mid-top, top-right, mid-right, bottom-right, mid-bottom, bottom-left of the rectangle grown by g"""
    l, t, rr, b = r
    cx, cy = (l + rr) // 2, (t + b) // 2
    return [(l - g, cy), (l - g, t - g), (cx, t - g), (rr + g, t - g), (rr + g, cy), (rr + g, b + g), (cx, b + g), (l - g, b + g)]


def gen_group_path(rng, r, kind, mag):
    """a polygon for the GIVEN rectangle: families whose ExecuteInternal leaves state behind when Execute does not clear it"""
    l, t, rr, b = r
    w, h = rr - l, b - t
    if kind == 'hug':
        # a thick arch round the outside of the rectangle past 1..3 corners, not touching it (g1 >= 1) or touching (g1 = 0):
        # it visits 2..4 outside regions, never crosses, its bounds overlap the rectangle
        k = rng.choice([1, 2, 2, 3, 3, 3])
        s0 = rng.below(4)
        g1 = rng.choice([0, 1, 1, 2, 3, max(1, w // 3), max(1, mag // 10)])
        g2 = g1 + rng.choice([1, 2, 5, max(1, w // 2), max(1, mag // 5)])
        idx = [(2 * s0 + j) % 8 for j in range(2 * k + 1)]
        outer, inner = ring8(r, g2), ring8(r, g1)
        P = [outer[i] for i in idx] + [inner[i] for i in reversed(idx)]
        if rng.chance(1, 3):      # slide the two ends along their sides
            d = rng.range(-max(1, min(w, h) // 3), max(1, min(w, h) // 3))
            mv = lambda p, i: (p[0] + (d if i in (2, 6) else 0), p[1] + (d if i in (0, 4) else 0))
            P[0], P[-1] = mv(P[0], idx[0]), mv(P[-1], idx[0])
    elif kind == 'poke':
        # a polygon that starts and ends outside on one side and reaches into the rectangle
        s0 = rng.below(4)
        out = rng.choice([1, 2, max(1, h // 2), max(1, mag // 4)])
        dep = rng.choice([0, 1, max(1, h // 2), h, h + 1, h + out])
        a = rng.range(0, max(0, w - 1))
        bb = rng.range(a, w)
        if rng.chance(1, 4):
            a, bb = 0, w
        P = [(l + a, b + out), (l + a, b - dep), (l + bb, b - dep), (l + bb, b + out)]       # from below (bottom side)
        cx2, cy2 = l + rr, t + b                      # doubled centre: rotate by quarter turns about it (exact for squares only)
        if w == h:
            for _ in range(s0):
                P = [((cx2 - (2 * y - cy2)) // 2, (cy2 + (2 * x - cx2)) // 2) for x, y in P]
        elif s0 % 2 == 1:
            P = [(x, t + b - y) for x, y in P]        # from above
    else:
        return gen_case(rng, kind, mag, rect=r)['path']
    P = [(clamp(x), clamp(y)) for x, y in P]
    if rng.chance(1, 2):
        P.reverse()
    k0 = rng.below(len(P))
    return [list(p) for p in P[k0:] + P[:k0]]


GROUP_KINDS = ['hug', 'hug', 'hug', 'poke', 'poke', 'star', 'enclose', 'spiral', 'snake', 'rectil', 'corner']


def gen_group(rng, mag):
    """2..4 polygons for one rectangle; a fruitless path (hug) is followed by a crossing one more often than not"""
    r = rand_rect(rng, mag)
    n = rng.choice([2, 2, 3, 3, 4])
    kinds = [rng.choice(GROUP_KINDS) for _ in range(n)]
    if rng.chance(2, 3):
        kinds[rng.below(n - 1)] = 'hug'
    return [dict(rect=list(r), path=gen_group_path(rng, r, k, mag), style='group:' + k, mag=mag) for k in kinds]


STYLES = ['star', 'enclose', 'spiral', 'snake', 'rectil', 'corner', 'star', 'snake', 'hugout', 'polyomino', 'polyomino'] + C09.STYLES
MAGS = [6, 30, 1000, 1 << 20, 1 << 25, 1 << 30, 1 << 38, 1 << 36]


LAT_K = 8   # lattice unit: the 5x5 lattice is {0,8,..,32}^2, the rectangle [8,24]^2, so that sample points > 2 units from a path exist


def lattice_case(c, k=LAT_K, dx=0, dy=0):
    return dict(rect=[k + dx, k + dy, 3 * k + dx, 3 * k + dy], path=[[(i % 5) * k + dx, (i // 5) * k + dy] for i in c], style='lattice%d' % len(c), mag=4 * k)


def load_corpus():
    return C09.load_corpus('C08')


# ----------------------------------------------------------------------------- sample points (doubled coordinates)
def sample_points(rng, c, out, maxn):
    l, t, rr, b = c['rect']
    xs = set([2 * l, 2 * rr])
    ys = set([2 * t, 2 * b])
    for x, y in c['path']:
        xs.add(2 * x); ys.add(2 * y)
    for p in out or []:
        for x, y in p:
            xs.add(2 * x); ys.add(2 * y)

    def cand(vals, lo, hi):
        v = sorted(vals)
        res = set()
        for a, bb in zip(v, v[1:]):
            res.add((a + bb) // 2)
        for s in (lo, hi):
            for d in (-11, -5, -1, 1, 5, 11):
                res.add(s + d)
        res.add(v[0] - 7); res.add(v[-1] + 7)
        res.add((lo + hi) // 2)
        return sorted(res)
    cx, cy = cand(xs, 2 * l, 2 * rr), cand(ys, 2 * t, 2 * b)
    pts = set()
    inx = [x for x in cx if 2 * l < x < 2 * rr]
    iny = [y for y in cy if 2 * t < y < 2 * b]
    # structured: the bands half a unit inside and half a unit outside every side (where an intersection point computed off its
    # side shows), at up to k positions along the side
    k = max(2, maxn // 12)
    for xb in (2 * l - 1, 2 * l + 1, 2 * rr - 1, 2 * rr + 1):
        for y in (iny if len(iny) <= k else [rng.choice(iny) for _ in range(k)]):
            pts.add((xb, y))
    for yb in (2 * t - 1, 2 * t + 1, 2 * b - 1, 2 * b + 1):
        for x in (inx if len(inx) <= k else [rng.choice(inx) for _ in range(k)]):
            pts.add((x, yb))
    want = max(maxn, len(pts) + maxn // 3)
    tries = 0
    while len(pts) < want and tries < 4 * want:
        tries += 1
        if inx and iny and rng.chance(2, 3):
            pts.add((rng.choice(inx), rng.choice(iny)))
        else:
            pts.add((rng.choice(cx), rng.choice(cy)))
    return sorted(pts)


def lattice_points():
    """sample points for the lattice scope (doubled coordinates): in every lattice cell, per axis, the points at 2.5, 4 and 5.5
    units from the lower lattice line (all at least 2.5 units from every lattice line)"""
    vals = [2 * LAT_K * k + d for k in range(4) for d in (5, 8, 11)]
    return [(x, y) for x in vals for y in vals]


# ----------------------------------------------------------------------------- evaluation
def clipx_cmd(c):
    return 'CLIPX %s %d %s' % (C09.rect_str(c['rect']), len(c['path']), vf.fmt_path(c['path']))


def clipt_cmd(c):
    return 'CLIPT %s %d %s' % (C09.rect_str(c['rect']), len(c['path']), vf.fmt_path(c['path']))


def chk_cmd(c, out, pts):
    return 'CHK %s %d %s %s %d %s' % (C09.rect_str(c['rect']), len(c['path']), vf.fmt_path(c['path']), vf.fmt_paths(out), len(pts), vf.fmt_path(pts))


def parse_final(s):
    """'X .. F <paths>' -> paths ; None when the run crashed / threw"""
    t = s.split()
    if not t or t[0] != 'X' or 'F' not in t:
        return None
    ps, _ = vf.parse_paths(t, t.index('F') + 1)
    return ps


def parse_verdict(s):
    t = s.split()
    if len(t) != 17 or t[0] != 'V':
        raise vf.Infra('oracle CHK failed: %s' % s[:300])
    v = [int(x) for x in t[1:]]
    d = dict(cls=v[0], inside_ok=v[1], outside_ok=v[2], reversed=v[3], used_in=v[4], used_out=v[5],
             nbv=v[6], bv=(v[7], v[8]), nbn=v[9], bn=(v[10], v[11]), nbs=v[12], bs=(v[13], v[14]), code=v[15])
    keys = []
    if d['nbv']:
        keys.append('clip.vertex-outside')
    if d['nbn']:
        keys.append('clip.new-vertex-off-boundary')
    if not d['inside_ok']:
        keys.append('clip.inside-changed')
    if not d['outside_ok']:
        keys.append('clip.outside-not-vanished')
    if d['nbs']:
        keys.append(SAMPLE_CODES[d['code']])
    d['keys'] = keys
    return d


def parse_tagged(o):
    """'OK npaths {n {x y kind idx}}' -> (paths, tags) ; (None, None) on ERR"""
    tk = o.split()
    if not tk or tk[0] != 'OK':
        return None, None
    pos, ps, tags = 2, [], []
    for _ in range(int(tk[1])):
        k = int(tk[pos]); pos += 1
        p, tg = [], []
        for _ in range(k):
            p.append((int(tk[pos]), int(tk[pos + 1])))
            tg.append(int(tk[pos + 2]))
            pos += 4
        ps.append(p); tags.append(tg)
    return ps, tags


def evaluate(tools, cases, rng, npts, lattice=False, with_model=True, fixed_pts=None):
    """per case: dict(impl, model, out, v (verdict), fail [keys], mismatch)"""
    if tools.api_only:
        # the stage harness does not build against this tree (tie break): public API only, no stage-by-stage comparison
        a = ['X 0 F ' + x[3:] if x.startswith('OK ') else x
             for x in tools.impl(['CLIP %s 1 %d %s' % (C09.rect_str(c['rect']), len(c['path']), vf.fmt_path(c['path'])) for c in cases])]
        b = [None] * len(cases)
    else:
        cmds = [clipx_cmd(c) for c in cases]
        a = tools.impl(cmds)
        b = tools.model(cmds) if with_model else [None] * len(cmds)
    if len(cases) > 1000:
        tools.ctx.log('implementation and model stages done (%d cases)' % len(cases))
    outs = [parse_final(x) for x in a]
    idx = [i for i, o in enumerate(outs) if o is not None]
    lp = lattice_points() if lattice else None
    ptsl = {}
    for i in idx:
        if fixed_pts is not None and fixed_pts[i]:
            ptsl[i] = [tuple(q) for q in fixed_pts[i]]
        elif lattice and cases[i]['style'].startswith('lattice') and not cases[i]['style'].endswith('*'):
            ptsl[i] = lp
        else:
            ptsl[i] = sample_points(rng, cases[i], outs[i], npts)
    vs = tools.model([chk_cmd(cases[i], outs[i], ptsl[i]) for i in idx])
    if len(cases) > 1000:
        tools.ctx.log('specification checker done')
    vm = dict(zip(idx, vs))
    res = []
    for i, c in enumerate(cases):
        d = dict(impl=a[i], model=b[i], out=outs[i], v=None, fail=[], mismatch=(b[i] is not None and a[i] != b[i]), pts=ptsl.get(i))
        if a[i] == 'SKIP':
            d['mismatch'] = False        # not evaluated (too many dead commands in this shard)
        elif outs[i] is None:
            d['fail'] = ['clip.crash' if a[i].startswith('CRASH') else 'clip.exception']
        else:
            d['v'] = parse_verdict(vm[i])
            d['fail'] = list(d['v']['keys'])
        res.append(d)
    # a polygon that misses the rectangle and whose whole output consists of paths with fewer than 3 vertices (they cover nothing):
    # RectClip64::GetPath returns whatever is left after removing collinear vertices, also when only one or two points remain
    for d in res:
        if d['fail'] == ['clip.outside-not-vanished'] and d['out'] and all(len(p) < 3 for p in d['out']):
            d['fail'] = ['clip.outside-degenerate-path']
    # root cause classification of a failing output that is exactly the model's output (tagged with provenance):
    #  clip.ip-off-side  the diagnostic variant of the model in which the points returned by GetSegmentIntersection are projected onto the
    #                    side they were computed for (rect_clip_snapped_t) gives a DIFFERENT output (so some intersection point was computed
    #                    off its side) and that output passes every clause at the same sample points
    fi = [i for i, d in enumerate(res) if d['fail'] and d['out'] is not None]
    if fi:
        tl = tools.model([clipt_cmd(cases[i]) for i in fi])
        cand = []
        for i, o in zip(fi, tl):
            ps, tags = parse_tagged(o)
            if ps is None or ps != [[tuple(v) for v in p] for p in res[i]['out']]:
                continue
            cand.append(i)
        if cand:
            sl = tools.model([clipt_cmd(cases[i]).replace('CLIPT', 'CLIPS', 1) for i in cand])
            ok = [(i, parse_tagged(o)[0]) for i, o in zip(cand, sl)]
            ok = [(i, ps) for i, ps in ok if ps is not None and ps != [[tuple(v) for v in p] for p in res[i]['out']]]
            vs2 = tools.model([chk_cmd(cases[i], ps, res[i]['pts']) for i, ps in ok])
            for (i, ps), v2 in zip(ok, vs2):
                if not parse_verdict(v2)['keys']:
                    res[i]['clauses'] = res[i]['fail']
                    res[i]['fail'] = ['clip.ip-off-side']
    return res


def describe(c, e):
    v = e['v']
    s = 'rect=%s path=%s -> %s' % (c['rect'], c['path'], (e['out'] if e['out'] is not None else e['impl'][:300]))
    if v:
        s += ' ; class=%s (0 simple, 1 self-intersecting, 2 self-intersecting with an edge along a side)' % v['cls']
        if v['nbv']:
            s += ' ; vertex (%d,%d) outside rect+1' % v['bv']
        if v['nbn']:
            s += ' ; new vertex (%d,%d) farther than 1 from the boundary' % v['bn']
        if v['nbs']:
            s += ' ; at sample point (%s,%s) [= doubled (%d,%d)] clause %d fails (1 sum wn out != wn in, 2 parity differs, 3 covered outside, 4 odd outside, 5 an output path winds against the input orientation)' % (
                v['bs'][0] / 2, v['bs'][1] / 2, v['bs'][0], v['bs'][1], v['code'])
        if not v['inside_ok']:
            s += ' ; polygon entirely inside not returned unchanged'
        if not v['outside_ok']:
            s += ' ; polygon misses the rectangle but output is not empty'
    return s


def record(ctx, tools, case, d, rng):
    for key in d['fail']:
        # a root-cause key keeps the clauses that make the demonstration unambiguous (a vertex far outside the rectangle)
        need = [k for k in d.get('clauses', []) if k == 'clip.vertex-outside']

        def fails_many(cs, key=key, need=need):
            return [key in e['fail'] and all(k in e.get('clauses', []) for k in need)
                    for e in evaluate(tools, cs, rng.fork(3), 48, with_model=False)]
        small = C09.shrink_generic(case, fails_many, 3) if not key.endswith('crash') else case
        e = evaluate(tools, [small], rng.fork(3), 48, with_model=False)[0]
        if key not in e['fail']:
            small, e = case, d
        extra = ''
        if key == 'clip.ip-off-side':
            extra = (' (clauses %s; the output contains an intersection point that GetIntersection computed off the rectangle side -- the truncated '
                     'x1 + t*dx1 of GetSegmentIntersectPt -- and the failure disappears when computed intersection points are projected onto '
                     'their side)' % ','.join(e.get('clauses', [])))
        ctx.violation(key, 'RectClip violates "%s"%s: %s' % (key, extra, describe(small, e)),
                      replay=dict(kind='clip', rect=small['rect'], path=small['path'], key=key, pts=e.get('pts') if e.get('pts') and len(e['pts']) <= 160 else None,
                                  original=dict(rect=case['rect'], path=case['path'])))


# ----------------------------------------------------------------------------- leaf / pip ties
def leaf_tie(ctx, tools, n_random):
    if tools.api_only:
        return []
    rng = ctx.rng.fork(77)
    lines = [l for l in C09.leaf_cases(rng, n_random) if l.split()[0] in LEAF_CMDS]
    # PointInPolygon / Path1ContainsPath2: exhaustive small lattice + random
    lat = [(x, y) for x in range(4) for y in range(4)]
    polys = [[(0, 0), (3, 0), (3, 3), (0, 3)], [(0, 0), (3, 3), (3, 0), (0, 3)], [(1, 0), (3, 2), (1, 3), (0, 1)], [(0, 0), (2, 0), (2, 2), (1, 2), (1, 1), (0, 1)],
             [(0, 1), (1, 1), (2, 1), (2, 3), (0, 3)], [(0, 0), (3, 0), (0, 0), (0, 3)], [(1, 1), (1, 1), (1, 1)], [(0, 0), (3, 0)]]
    for p in polys:
        for k in range(len(p)):
            q = p[k:] + p[:k]
            for v in lat:
                lines.append('PIP %d %d %d %s' % (v[0], v[1], len(q), vf.fmt_path(q)))
    for i in range(n_random):
        mag = [3, 5, 20, 1000, 1 << 26, 1 << 40][i % 6]
        n = rng.range(3, 9)
        P = [(rng.range(-mag, mag), rng.range(-mag, mag)) for _ in range(n)]
        if rng.chance(1, 2):
            for k in range(1, n):
                if rng.chance(1, 3):
                    P[k] = (P[k][0], P[k - 1][1])
        q = rng.choice(P) if rng.chance(1, 4) else (rng.range(-mag, mag), rng.choice(P)[1] if rng.chance(1, 2) else rng.range(-mag, mag))
        lines.append('PIP %d %d %d %s' % (q[0], q[1], n, vf.fmt_path(P)))
        l, t = rng.range(-mag, mag), rng.range(-mag, mag)
        R = [(l, t), (l + rng.range(1, mag), t), (l + rng.range(1, mag), t + rng.range(1, mag)), (l, t + rng.range(1, mag))]
        lines.append('P1C2 %d %s 4 %s' % (n, vf.fmt_path(P), vf.fmt_path(R)))
    a = tools.impl(lines)
    b = tools.model(lines)
    ctx.count('leaf_evaluations', len(lines))
    ctx.count('evaluations', len(lines))
    return [(l, x, y) for l, x, y in zip(lines, a, b) if x != y]


# ----------------------------------------------------------------------------- run
def generate(ctx, n_random, lat_full, lat_sample, n_groups):
    rng = ctx.rng
    cases = load_corpus()
    ncorp = len(cases)
    lat = []
    for n in lat_full:     # every closed lattice path with n vertices (all starting points: the state machine depends on where it starts)
        lat += [lattice_case(c) for c in itertools.product(range(25), repeat=n)]
    srng = rng.fork(4)
    for n, cnt in lat_sample:
        for _ in range(cnt):
            lat.append(lattice_case(tuple(srng.below(25) for _ in range(n))))
    cases += lat
    # exact scalings/translations of lattice cases into the large regimes
    for _ in range(n_random // 6):
        c = lat[srng.below(len(lat))]
        k = srng.choice([1, 3, 1000, 1 << 20, 1 << 25, 1 << 30, 1 << 35])
        s = LAT_K * k
        lim = LIM - 5 * s
        dx, dy = srng.range(-lim, lim), srng.range(-lim, lim)
        if srng.chance(1, 3):
            dx, dy = -2 * s, -2 * s
        i5 = [(x // LAT_K) + 5 * (y // LAT_K) for x, y in c['path']]
        cc = lattice_case(i5, s, dx, dy)
        cc['style'] = c['style'] + '*'
        cases.append(cc)
    grng = rng.fork(2)
    for i in range(n_random):
        cases.append(gen_case(grng, STYLES[i % len(STYLES)], MAGS[(i // len(STYLES)) % len(MAGS)]))
    # groups of polygons clipped in ONE call; every member is also a case of its own (judged by the single-polygon specification)
    groups = []
    mrng = rng.fork(6)
    for i in range(n_groups):
        g = gen_group(mrng, MAGS[i % len(MAGS)])
        groups.append(list(range(len(cases), len(cases) + len(g))))
        cases += g
    return cases, ncorp, groups


def multi_cmds(rect, paths, split):
    """RectClip(rect, paths) in one call, and Execute(paths[:split]); Execute(paths[split:]) on one object"""
    return ['CLIP %s %s' % (C09.rect_str(rect), vf.fmt_paths(paths)),
            'CLIP2 %s %s %s' % (C09.rect_str(rect), vf.fmt_paths(paths[:split]), vf.fmt_paths(paths[split:]))]


def parse_clip2(s):
    t = s.split()
    if not t or t[0] != 'OK' or '|' not in t:
        return None
    k = t.index('|')
    a, _ = vf.parse_paths(t, 1)
    b, _ = vf.parse_paths(t, k + 1)
    return a + b


def multi_eval(tools, rect, paths, split):
    """-> (one-call result, two-call result, [result of each path alone on a fresh object]) ; None where the run died"""
    cmds = multi_cmds(rect, paths, split) + ['CLIP %s 1 %d %s' % (C09.rect_str(rect), len(p), vf.fmt_path(p)) for p in paths]
    o = tools.impl(cmds)
    return C09.parse_ok_paths(o[0]), parse_clip2(o[1]), [C09.parse_ok_paths(x) for x in o[2:]]


def multi_bad(res):
    one, two, singles = res
    if one is None or two is None or any(x is None for x in singles):
        return True
    exp = [p for x in singles for p in x]
    return one != exp or two != exp


def check_groups(ctx, tools, cases, ev, groups):
    """result(paths) must be the concatenation, in input order, of result(each path alone on a fresh object) -- for one call on all
    paths and for two Execute calls on one RectClip64 object; the model of the call (rect_clip_paths) must agree as well"""
    if not groups:
        return
    rng = ctx.rng.fork(8)
    cmds, meta = [], []
    for g in groups:
        paths = [cases[i]['path'] for i in g]
        split = rng.range(1, len(g) - 1) if len(g) > 1 else 1
        cmds += multi_cmds(cases[g[0]]['rect'], paths, split)
        meta.append((g, split))
    a = tools.impl(cmds)
    b = tools.model(cmds)
    ctx.count('evaluations', len(cmds))
    ctx.count('multi_path_calls', len(cmds))
    nbad = nmm = nstate = 0
    for k, (g, split) in enumerate(meta):
        one, two = C09.parse_ok_paths(a[2 * k]), parse_clip2(a[2 * k + 1])
        singles = [ev[i]['out'] for i in g]
        if any(x is None for x in singles) or any(ev[i]['impl'] == 'SKIP' for i in g):
            continue
        exp = [[tuple(v) for v in p] for x in singles for p in x]
        ctx.hist('group_size', len(g))
        if sum(1 for x in singles if x) >= 1 and any(not x and ev[i]['impl'].split()[1:2] == ['0'] for i, x in zip(g, singles)):
            nstate += 1        # a member that went through ExecuteInternal and produced nothing, next to one that produced output
        norm = lambda ps: None if ps is None else [[tuple(v) for v in p] for p in ps]
        if norm(one) != exp or norm(two) != exp:
            nbad += 1
            if nbad == 1:
                rect = cases[g[0]]['rect']
                paths = [cases[i]['path'] for i in g]
                # shrink: drop paths while the call still differs from the concatenation of the single results
                cur, sp = paths, split
                changed = True
                while changed and len(cur) > 1:
                    changed = False
                    for j in range(len(cur)):
                        cand = cur[:j] + cur[j + 1:]
                        csp = min(max(1, sp - (1 if j < sp else 0)), max(1, len(cand) - 1))
                        if len(cand) >= 1 and multi_bad(multi_eval(tools, rect, cand, csp)):
                            cur, sp, changed = cand, csp, True
                            break
                r1, r2, rs = multi_eval(tools, rect, cur, sp)
                ctx.violation('clip.multi-path-state',
                              'RectClip does not treat each input polygon separately: rect=%s paths=%s: one call returns %s, Execute(first %d); Execute(rest) on one '
                              'object returns %s, but each path alone on a fresh object gives %s' % (rect, cur, r1, sp, r2, rs),
                              replay=dict(kind='multi', rect=rect, paths=cur, split=sp, original=dict(paths=paths, split=split)))
        if a[2 * k] != b[2 * k] or a[2 * k + 1] != b[2 * k + 1]:
            nmm += 1
            if nmm == 1 and nbad == 0:
                ctx.violation('corr.clip-paths-model', 'RectClip on several paths differs from the Coq model rect_clip_paths: `%s` -> implementation `%s` model `%s`'
                              % (cmds[2 * k][:600], a[2 * k][:400], b[2 * k][:400]),
                              replay=dict(kind='multi', rect=cases[g[0]]['rect'], paths=[cases[i]['path'] for i in g], split=split), nofail=True)
    ctx.cov['multi_path_groups'] = len(groups)
    ctx.cov['multi_path_groups_with_fruitless_and_fruitful_member'] = nstate
    ctx.cov['multi_path_failures'] = nbad
    ctx.cov['multi_path_model_mismatches'] = nmm


def explore(ctx, tools, n_random, lat_full, lat_sample, asan_n, npts, n_groups=0):
    cases, ncorp, groups = generate(ctx, n_random, lat_full, lat_sample, n_groups)
    ctx.log('%d polygons (%d corpus, lattice paths of %s vertices exhaustive + %s sampled, %d random/scaled, %d in %d multi-path groups)'
            % (len(cases), ncorp, lat_full, lat_sample, n_random + n_random // 6, sum(len(g) for g in groups), len(groups)))
    ev = evaluate(tools, cases, ctx.rng.fork(5), npts, lattice=True)
    check_groups(ctx, tools, cases, ev, groups)
    ctx.count('evaluations', len(cases))
    ctx.count('api_cases', len(cases))
    seen, nontriv, mism, nfail, shrunk = set(), 0, [], 0, set()
    used_in = used_out = 0
    for c, d in zip(cases, ev):
        ctx.hist('sizes', min(len(c['path']), 16))
        ctx.hist('style', c['style'])
        v = d['v']
        if v is not None:
            ctx.hist('class', ['simple', 'self-intersecting', 'self-intersecting+edge-along-side'][v['cls']])
            used_in += v['used_in']
            used_out += v['used_out']
            if v['reversed']:
                ctx.count('reversed_sliver_paths', v['reversed'])
            t = d['impl'].split()
            if t[1] == '0':
                ctx.hist('output_paths', min(len(d['out']), 6))
            ctx.hist('shortcut', ['none', 'skip', 'copy'][int(t[1])])
            if t[1] == '0' and (v['used_in'] + v['used_out']) > 0:
                hsh = vf.sha(clipx_cmd(c))
                if hsh not in seen:
                    seen.add(hsh)
                    nontriv += 1
                    if len(seen) % 4000 == 1:
                        ctx.sample(dict(rect=c['rect'], path=c['path'], out=d['out'], cls=v['cls'], samples_used=[v['used_in'], v['used_out']]))
        if d['mismatch']:
            mism.append((c, d))
        if d['fail']:
            nfail += 1
            newkeys = [k for k in d['fail'] if k not in shrunk]
            if newkeys:
                shrunk.update(newkeys)
                record(ctx, tools, c, dict(d, fail=newkeys), ctx.rng)
            for key in d['fail']:
                ctx.hist('failures', key)
    ctx.cov['distinct_nontrivial'] = ctx.cov.get('distinct_nontrivial', 0) + nontriv
    ctx.cov['model_mismatches'] = len(mism)
    ctx.cov['spec_failures'] = nfail
    ctx.cov['sample_points_inside_used'] = used_in
    ctx.cov['sample_points_outside_used'] = used_out
    if tools.asan and asan_n:
        sub = cases[:ncorp] + [cases[i] for i in range(ncorp, len(cases), max(1, (len(cases) - ncorp) // asan_n))]
        cmds = ['CLIP %s 1 %d %s' % (C09.rect_str(c['rect']), len(c['path']), vf.fmt_path(c['path'])) for c in sub]
        a = tools.impl(cmds, asan=True)
        p = tools.impl(cmds)
        ctx.count('asan_cases', len(sub))
        for c, x, y in zip(sub, a, p):
            if x != y:
                ctx.violation('clip.asan', 'ASan/UBSan build differs or reports: rect=%s path=%s plain=%s asan=%s'
                              % (c['rect'], c['path'], y[:200], x[:400]), replay=dict(kind='clip', rect=c['rect'], path=c['path'], key='clip.asan'))
                break
    return mism


def run(ctx):
    ctx.assumptions += [
        'theorems about GetLocation/HeadingClockwise/GetAdjacentLocation/AreOpposites/GetSegmentIntersection are over the definitions translated from clipper.rectclip.cpp by cpp2v on this run; the structural theorems are about the hand model coq/model/RectClip.v, tied to the C++ by exact equality of every stage on every generated case (not by a semantics of C++)',
        'int64 arithmetic modelled in unbounded Z (no overflow for |coords| <= 2^61); binary64 via Coq primitive floats, harness built with -ffp-contract=off; non CLIPPER2_HI_PRECISION build',
        'the winding-number clause is validated, not proved: the verified checker decides it exactly at the sample points handed to it (soundness: C08_sample_check_sound); it is not lifted to all points of the plane',
        'C08_isect_on_rect and C08_isect_on_rect_cases (binary64 reasoning with Flocq, the former through the C18 accuracy theorem proofs/Core_isect_acc.v) depend on the Coq standard library axioms of the real numbers (ClassicalDedekindReals.sig_forall_dec, sig_not_dec, Classical_Prop.classic, FunctionalExtensionality.functional_extensionality_dep) and on FloatAxioms (the specification of the primitive binary64 operations); the primitive float/int63 operations themselves are listed by Print Assumptions for every theorem that computes with floats; all other theorems are closed under the global context',
        '"new vertex within one unit of the boundary" is read as Euclidean distance <= 1; "inside the rectangle within one grid unit" as every coordinate within [side - 1, side + 1]; "farther than 2 units" as strictly greater; rectangles are non-empty (left < right, top < bottom), polygons have >= 3 vertices',
    ]
    ctx.cov['rule'] = ('closed lattice paths on the 5x5 lattice (unit 8) against the central 2x2-cell rectangle: ALL 25^3 paths of 3 vertices (every starting point) in both tiers, '
                       'seeded samples of the 4/5/6-vertex paths beyond that (the full <= 6 vertex scope, 2.5e8 paths, is not enumerated); exact scalings/translations of those up to |coords| 2^40; seeded random polygons in 17 styles (star-shaped simple polygons '
                       'snapped to the side lines, rings enclosing the rectangle, spirals winding around it 1-4 times, thick open rings and combs (simple), rectilinear walks on the side lines, through corners, '
                       'and the 9 polyline styles of C09 closed up) x 8 magnitudes up to 2^40; groups of 2-4 polygons for one rectangle (arches round the outside past 1-3 corners, polygons poking in from one side, and the styles above) clipped in one call and in two Execute calls on one object, every member also judged alone; non-trivial = no bounds shortcut taken and at least one sample point qualifies (strictly inside or outside the '
                       'rectangle and > 2 units from the path); distinct by input')
    pr = vf.coq_props(ctx, 'C08')
    broken = not pr['ok']
    tools = Tools(ctx)
    ctx.log('tools ready')
    lm = leaf_tie(ctx, tools, 8000 if ctx.quick else 60000)
    ctx.log('leaf functions: %d mismatches' % len(lm))
    if ctx.quick and not broken and not lm and not tools.tie_error:
        mism = explore(ctx, tools, 16000, [3], [(4, 18000), (5, 6000), (6, 6000)], 3000, 32, n_groups=4500)
    elif ctx.quick:
        # a proof, tie or leaf correspondence break: search for a failing input with a larger budget
        ctx.log('break (proof %s, harness %s, leaf %d): searching with a larger budget' % (broken, bool(tools.tie_error), len(lm)))
        mism = explore(ctx, tools, 100000, [3], [(4, 80000), (5, 30000), (6, 30000)], 3000, 40, n_groups=20000)
    else:
        mism = explore(ctx, tools, 130000, [3], [(4, 100000), (5, 40000), (6, 40000)], 20000, 64, n_groups=20000)
    found = bool(ctx.violations) or bool(ctx.known_hits)
    if lm:
        l, x, y = lm[0]
        ctx.cov['leaf_mismatches'] = len(lm)
        ctx.violation('corr.leaf.' + l.split()[0], 'leaf function differs from its Coq model (%d cases), e.g. `%s`: implementation `%s` model `%s`'
                      % (len(lm), l, x, y), replay=dict(kind='leaf', line=l, impl=x, model=y), nofail=not found)
    if mism:
        c, d = mism[0]
        ctx.violation('corr.clip-model', 'RectClip64 differs from the Coq model on %d cases (stages: start_locs_, heap after ExecuteInternal / CheckEdges / TidyEdges, result), e.g. rect=%s path=%s: implementation `%s` model `%s`'
                      % (len(mism), c['rect'], c['path'], d['impl'][:700], (d['model'] or '')[:700]),
                      replay=dict(kind='clip', rect=c['rect'], path=c['path'], key='corr.clip-model'), nofail=not found)
    if tools.tie_error:
        ctx.violation('tie-break:cx_rectclip', 'harness no longer builds against the tree (modelled function changed?): ' + tools.tie_error[-600:],
                      replay=dict(kind='build'), nofail=not found)
    if broken:
        ctx.violation('proof-break:Properties_C08', 'proof does not check: ' + ' | '.join(pr['failed'])[:1500],
                      replay=dict(kind='proof', failed=pr['failed']), nofail=not found)
    ctx.cov['exhaustive'] = False
    ctx.cov['trusted_base'] = vf.TRUSTED_COMMON + ['cpp2v translator (clang 14 AST -> Gallina), validated natively vs extracted on every run',
                                                   'Coq primitive floats + Flocq (binary64 exactness lemmas)',
                                                   'oracle/drv_rectclip.ml, harness/cx_rectclip.cpp (parsing/printing, private access)']


def replay(ctx, path):
    rp = json.load(open(path))['replay']
    tools = Tools(ctx, want_asan=False)
    if rp.get('kind') == 'clip':
        c = dict(rect=rp['rect'], path=rp['path'], style='replay', mag=0)
        d = evaluate(tools, [c], ctx.rng.fork(3), 48, fixed_pts=[rp.get('pts')])[0]
        ctx.log('impl  %s' % d['impl'][:1500])
        ctx.log('model %s' % (d['model'] or '')[:1500])
        ctx.count('evaluations', 1)
        for key in d['fail']:
            ctx.violation(key, 'replayed: ' + describe(c, d), replay=rp)
        if d['mismatch'] and not d['fail']:
            ctx.violation('corr.clip-model', 'replayed: implementation `%s` model `%s`' % (d['impl'][:700], (d['model'] or '')[:700]), replay=rp, nofail=True)
    elif rp.get('kind') == 'multi':
        res = multi_eval(tools, rp['rect'], rp['paths'], rp.get('split', 1))
        ctx.log('one call %s ; two calls %s ; alone %s' % res)
        ctx.count('evaluations', 1)
        if multi_bad(res):
            ctx.violation('clip.multi-path-state', 'replayed: rect=%s paths=%s: one call %s, two calls on one object %s, each path alone %s'
                          % (rp['rect'], rp['paths'], res[0], res[1], res[2]), replay=rp)
    elif rp.get('kind') == 'leaf':
        a = tools.impl([rp['line']])[0]
        b = tools.model([rp['line']])[0]
        ctx.log('%s -> impl %s model %s' % (rp['line'], a, b))
        if a != b:
            ctx.violation('corr.leaf.' + rp['line'].split()[0], 'replayed: `%s` implementation `%s` model `%s`' % (rp['line'], a, b), replay=rp, nofail=True)
    else:
        ctx.log('nothing to replay for kind %s' % rp.get('kind'))
