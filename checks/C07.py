"""C07 -- open-path offsetting produces the stroke of the requested width and caps."""
import json, os, glob
from fractions import Fraction
import vf
from checks import offset_common as oc

META = dict(
    text='Coq theorems on faithful models of the offsetter (locality of the plan of member values per path, '
         'index schedule of OffsetOpenPath in bounds for len>=2 and refuted for len=0, normal reversal, cap geometry over the reals, '
         'single-point shapes) + exact binary64 model of the raw stroke curve tied bit-for-bit to DoGroupOffset + public API '
         'validated against a Coq-defined stroke specification with exact rational distance tests',
    note='Theorems are about Gallina models (OffsetPlan.v, OffsetGeom.v); the models are tied to the current source on every run by '
         'executed correspondence (observer callback for member values, private-access call of DoGroupOffset for raw curves, bit exact). '
         'That the clean-up union of the raw curves is the stroke region is validated (sampled points, exact classification), not proved.',
    technique='Coq 8.16 proofs (Reals/Coquelicot, PrimFloat) + extracted OCaml oracle + differential harness; alone-vs-together exact '
              'comparison exposes state carried between paths; ASan/UBSan run on 1-, 2- and 3-point paths (the empty-path access the model predicts is recorded for C10)',
    category='proof')

QUICK = dict(spec=2600, sign=500, rev=450, local=500, plan_rand=900, raw=900, tiny=210, cb=320)
THOROUGH = dict(spec=18000, sign=3000, rev=3000, local=4000, plan_rand=8000, raw=8000, tiny=1000, cb=3000)


# ----------------------------------------------------------------------------- generators
def gen_open_case(rng, single=True):
    S = rng.choice([30, 100, 300, 3000, 100000])
    jt = rng.below(4); et = rng.range(1, 4)
    dl = rng.choice([0.5, 0.75, 1, 1.5, 2.25, 5, S / 20, S / 8, S / 4, S / 2, S, 2 * S])
    dl = oc.qdelta(dl) * (1 if rng.chance(1, 2) else -1)
    ml = rng.choice([0.5, 1, 2, 5])
    npaths = 1 if single else rng.choice([1, 2, 3])
    paths = []
    x = 0
    reach = abs(dl) * max(ml, 1.5) * 4 + 100
    for _ in range(npaths):
        for _try in range(200):
            n = rng.choice([1, 2, 2, 3, 3, 4, 5, 6, 8])
            p = oc.gen_polyline(rng, S, n)
            if et == 1 and n >= 3 and not oc.angles_ok(p, True):
                continue          # a joined path is a ring: the closing turns count as well
            break
        else:
            raise vf.Infra('open path generator failed')
        x0, y0, x1, y1 = oc.bbox([p])
        p = oc.translate(p, int(x - x0), 0)
        x += (x1 - x0) + reach
        if rng.chance(1, 4):
            # the same polyline written with repeated vertices; a Joined ring also with its first vertex repeated at the end
            p = oc.add_dups(rng, p, et == 1)
        paths.append(p)
    return dict(ml=ml, at=rng.choice([0, 0.25, 5]), pc=0, rev=int(rng.chance(1, 5)), delta=dl,
                groups=[dict(jt=jt, et=et, paths=paths)], via=rng.choice([0, 0, 0, 1, 1, 2]))


def slot_path(kind, n, slot, reverse=False):
    """small path of n points at slot position (far from every other slot)"""
    x = 2000 * slot
    if n == 0:
        return []
    if n == 1:
        return [(x, 7)]
    if n == 2:
        return [(x, 0), (x + 90, 30)]
    if n == 3:
        p = [(x, 0), (x + 100, 0), (x + 60, 80)]
    else:
        p = [(x, 0), (x + 100, 0), (x + 130, 70), (x + 50, 120), (x - 20, 50)][:n]
    return p[::-1] if reverse else p


def gen_mixture(rng, allow_polygon=False):
    """several groups with several small paths each, every path in its own far-away slot"""
    ng = rng.choice([1, 1, 2, 2, 3])
    groups = []; slot = 0
    for _ in range(ng):
        et = rng.range(0 if allow_polygon else 1, 4)
        jt = rng.below(4)
        k = rng.choice([1, 2, 2, 3, 4])
        paths = []
        for _p in range(k):
            n = rng.choice([1, 2, 2, 3, 3, 4, 5] + ([0] if et == 0 else []))
            paths.append(slot_path(et, n, slot)); slot += 1
        groups.append(dict(jt=jt, et=et, paths=paths))
    dl = rng.choice([0.75, 1, 3, 10, 10, 25, 60]) * (1 if rng.chance(1, 2) else -1)
    return dict(ml=rng.choice([1, 2, 5]), at=rng.choice([0, 0.25]), pc=0, rev=0, delta=dl, groups=groups)


def enum_plan_cases(full):
    """exhaustive small scope: one group (all end types x {Square, Round} x length sequences up to 3 over {1,2,3}),
    and -- thorough tier -- two groups with sequences up to 2"""
    def seqs(maxlen, alphabet):
        res = [[]]
        out = []
        for _ in range(maxlen):
            res = [s + [a] for s in res for a in alphabet]
            out += res
        return out
    cases = []
    for et in range(5):
        for jt in (0, 2):
            alpha = [1, 2, 3] + ([0] if et == 0 else [])
            for s in seqs(3, alpha):
                for dl in (10.0, -10.0, 0.75):
                    g = dict(jt=jt, et=et, paths=[slot_path(et, n, i) for i, n in enumerate(s)])
                    cases.append(dict(ml=2.0, at=0.0, pc=0, rev=0, delta=dl, groups=[g]))
    if full:
        for et1 in range(5):
            for et2 in range(5):
                for jt in (0, 2):
                    a1 = [1, 2, 3] + ([0] if et1 == 0 else []); a2 = [1, 2, 3] + ([0] if et2 == 0 else [])
                    for s1 in seqs(2, a1):
                        for s2 in seqs(2, a2):
                            for dl in (10.0, -10.0):
                                g1 = dict(jt=jt, et=et1, paths=[slot_path(et1, n, i) for i, n in enumerate(s1)])
                                g2 = dict(jt=jt, et=et2, paths=[slot_path(et2, n, 5 + i) for i, n in enumerate(s2)])
                                cases.append(dict(ml=2.0, at=0.0, pc=0, rev=0, delta=dl, groups=[g1, g2]))
    return cases


def raw_cases(rng, n):
    cs = []
    for _ in range(n):
        S = rng.choice([30, 300, 3000, 1000000])
        et = rng.range(1, 4)
        k = rng.choice([1, 2, 2, 3, 4, 5, 7])
        p = oc.gen_polyline(rng, S, k)
        paths = [p]
        if rng.chance(1, 4):
            paths.append(oc.translate(oc.gen_polyline(rng, S, rng.choice([1, 2, 3])), 10 * S, 0))
        dl = rng.choice([0.5, 1, 2.5, S / 16, S / 3, S, 3 * S]) * (1 if rng.chance(1, 2) else -1)
        if rng.chance(1, 3):
            dl = dl * (1 + rng.below(1000) / 997.0)          # unquantised deltas
        if rng.chance(1, 5):
            paths = [oc.add_dups(rng, q, et == 1) for q in paths]
        cs.append(dict(ml=rng.choice([0.5, 1, 2, 5, 1.7]), at=rng.choice([0, 0.25, 5, 0.1]), delta=dl, jt=rng.below(4), et=et, paths=paths))
    return cs


# ----------------------------------------------------------------------------- individual checks
def sign_symmetry(ctx, T, cases):
    lines = []
    for c in cases:
        m = dict(c); m['delta'] = -c['delta']
        lines += [oc.exe_line(c, 'RUN'), oc.exe_line(m, 'RUN')]
    outs = T.H(lines)
    for i, c in enumerate(cases):
        if oc.NOTRUN in (outs[2 * i], outs[2 * i + 1]):
            continue
        a, b = oc.parse_exe(outs[2 * i]), oc.parse_exe(outs[2 * i + 1])
        ctx.count('evaluations', 1)
        if not (a['ok'] and b['ok']):
            oc.viol(ctx, 'offset.crash-or-exception', 'C07 sign symmetry: harness answered %s / %s' % (outs[2 * i][:200], outs[2 * i + 1][:200]),
                          replay=dict(kind='c07-sign', case=c))
        elif oc.canon(a['sol']) != oc.canon(b['sol']):
            g = c['groups'][0]
            oc.viol(ctx, 'offset.c07.sign-asymmetry.%s-end' % oc.ET[g['et']].lower(),
                          'C07: result for delta=%s differs from the result for delta=%s (join %s end %s)' % (c['delta'], -c['delta'], oc.JT[g['jt']], oc.ET[g['et']]),
                          replay=dict(kind='c07-sign', case=c))


def direction_independence(ctx, T, rng, cases):
    lines = []
    for c in cases:
        r = dict(c); r['groups'] = [dict(jt=g['jt'], et=g['et'], paths=[p[::-1] for p in g['paths']]) for g in c['groups']]
        lines += [oc.exe_line(c, 'RUN'), oc.exe_line(r, 'RUN')]
    outs = T.H(lines)
    olines, keep = [], []
    for i, c in enumerate(cases):
        if oc.NOTRUN in (outs[2 * i], outs[2 * i + 1]):
            continue
        a, b = oc.parse_exe(outs[2 * i]), oc.parse_exe(outs[2 * i + 1])
        if not (a['ok'] and b['ok']):
            oc.viol(ctx, 'offset.crash-or-exception', 'C07 direction: harness answered %s / %s' % (outs[2 * i][:200], outs[2 * i + 1][:200]),
                          replay=dict(kind='c07-dir', case=c))
            continue
        g = c['groups'][0]
        tol = oc.prop_tol(g['jt'], c['at'], c['delta'], with_arc=(g['jt'] == 2 or g['et'] == 4))
        pts = oc.dedup(oc.samples_output(rng, a['sol'], 200) + oc.samples_output(rng, b['sol'], 200))
        if not pts:
            continue
        P = oc.fmt_pts(pts)
        olines += ['WN %s %s' % (vf.fmt_paths(oc.dbl_paths(a['sol'])), P), 'WN %s %s' % (vf.fmt_paths(oc.dbl_paths(b['sol'])), P),
                   'FAR %s 1 %s %s' % (oc.rat(2 * tol), vf.fmt_paths(oc.dbl_paths(a['sol'])), P),
                   'FAR %s 1 %s %s' % (oc.rat(2 * tol), vf.fmt_paths(oc.dbl_paths(b['sol'])), P)]
        keep.append((c, pts))
    oo = T.O(olines)
    for k, (c, pts) in enumerate(keep):
        wa = oo[4 * k].split(); wb = oo[4 * k + 1].split(); far = oo[4 * k + 2].split(); farb = oo[4 * k + 3].split()
        ctx.count('evaluations', len(pts))
        for q, x, y, f, f2 in zip(pts, wa, wb, far, farb):
            # the point must be outside the tolerance band of BOTH results: a result that collapsed under rounding
            # (|delta| near 0.5) has no boundary nearby, which must not make a point 0.7 units from the path count
            if x != y and f == '1' and f2 == '1':
                g = c['groups'][0]
                oc.viol(ctx, 'offset.c07.direction-dependence.%s-end' % oc.ET[g['et']].lower(),
                              'C07: reversing the direction of the input path changes the region at (%s, %s): winding %s vs %s, farther than the '
                              'tolerance from the boundary (delta %s join %s end %s)' % (q[0] / 2, q[1] / 2, x, y, c['delta'], oc.JT[g['jt']], oc.ET[g['et']]),
                              replay=dict(kind='c07-dir', case=c, point2=list(q)))
                break


def is_reversed_polygon_group(g):
    big = [p for p in g['paths'] if len(p) >= 3]
    return g['et'] == 0 and big and all(oc.area2(p) < 0 for p in big)


def c07_locality_key(case, diffs=None):
    if any(is_reversed_polygon_group(g) for g in case['groups']) and any(g['et'] != 0 for g in case['groups']):
        return 'offset.open-path-lost.reversed-polygon-group'
    return oc.locality_key(case, diffs)


def empty_path_ub(ctx, T):
    """DESIGN section 9 item 4: an empty path in a group with an open end type reaches path[0] / norms[0].
    Run under ASan+UBSan, one process per case.  An EMPTY path is not in C07's quantifier ("all open polylines ..., 1-point
    and 2-point paths"): the undefined behaviour is a defect under C10 (robustness, "for every input: ... empty ... paths"),
    not a violation of C07.  It is therefore recorded as an observation (evidence: coverage.notes and
    coverage.empty_path_ub_observed) and reported to the owner of C10; it replays C07_accesses_in_bounds_refuted /
    C07_joined_accesses_in_bounds_refuted (the model's index schedule leaves the bounds for len = 0) on the real code.
    Only a sanitizer report on a NON-empty path is a finding of this check."""
    if 'asan' not in T.exe:
        return
    import concurrent.futures as cf
    seen = []
    ub = [dict(ml=2.0, at=0.0, pc=0, rev=0, delta=10.0, groups=[dict(jt=0, et=et, paths=[[], [(0, 0), (100, 0), (100, 100)]])]) for et in (1, 2, 3, 4)]
    # control: the same without the empty path (one-, two- and three-point paths) must be clean
    ctl = [dict(ml=2.0, at=0.0, pc=0, rev=0, delta=10.0, groups=[dict(jt=0, et=et, paths=[[(5, 5)], [(0, 0), (90, 30)], [(0, 0), (100, 0), (100, 100)]])])
           for et in (1, 2, 3, 4)]
    with cf.ThreadPoolExecutor(max_workers=8) as ex:
        outs = list(ex.map(lambda c: T.H1(oc.exe_line(c, 'RUN'), 'asan'), ub + ctl))
    ctx.count('evaluations', len(outs))
    for c, o in zip(ub, outs[:4]):
        if o.startswith('CRASH'):
            seen.append(oc.ET[c['groups'][0]['et']])
            ctx.sample(dict(kind='c07-asan', case=c, report=o[:300]), limit=1, key='empty_path_ub_sample')
    ctx.cov['empty_path_ub_observed'] = seen
    if seen:
        ctx.notes.append('outside C07 (belongs to C10): an empty path in an EndType::%s group makes DoGroupOffset read path[0]/norms[0] of an '
                         'empty vector (UBSan: reference binding to null pointer), as the model predicts (C07_accesses_in_bounds_refuted)'
                         % '/'.join(seen))
    for c, o in zip(ctl, outs[4:]):
        if o.startswith('CRASH'):
            oc.viol(ctx, 'offset.sanitizer-report', 'C07: sanitizer report on one-, two- and three-point open paths (end type %s): %s'
                    % (oc.ET[c['groups'][0]['et']], o[:400]), replay=dict(kind='c07-asan', case=c))


# ----------------------------------------------------------------------------- corpus
def load_corpus(pid):
    cs = []
    for f in sorted(glob.glob(os.path.join(vf.VERIF, 'corpus', pid, '*.case'))):
        for line in vf.read(f).splitlines():
            line = line.strip()
            if line and not line.startswith('#'):
                d = json.loads(line)
                d['_file'] = os.path.basename(f)
                cs.append(d)
    return cs


def norm_case(c):
    c = dict(c)
    c['groups'] = [dict(jt=g['jt'], et=g['et'], paths=[[tuple(v) for v in p] for p in g['paths']]) for g in c['groups']]
    return c


def run_kind(ctx, T, rng, kind, cases):
    """dispatch used by the corpus and by --replay"""
    cases = [norm_case(c) for c in cases]
    if kind == 'c07':
        oc.region_eval(ctx, T, rng, cases, oc.c07_prepare, lambda c: (-1 if c.get('rev') else 1), oc.c07_key, 'C07 spec', 'c07')
    elif kind == 'c07-sign':
        sign_symmetry(ctx, T, cases)
    elif kind == 'c07-dir':
        direction_independence(ctx, T, rng, cases)
    elif kind == 'c07-local':
        oc.locality_eval(ctx, T, cases, 'C07 locality', 'c07-local', key_of=c07_locality_key)
    elif kind == 'c07-plan':
        oc.plan_tie(ctx, T, cases, 'C07 plan', 'c07-plan')
    elif kind == 'c07-raw':
        oc.raw_tie(ctx, T, cases, 'C07 raw', 'c07-raw')
    elif kind == 'c07-asan':
        empty_path_ub(ctx, T)
    elif kind in ('c07-cbraw', 'c07-cbapi'):
        for c in cases:
            c['paths'] = c['groups'][0]['paths']
        if kind == 'c07-cbraw':
            oc.callback_raw_tie(ctx, T, cases, 'C07 callback raw', 'c07-cbraw')
            oc.callback_raw_tie(ctx, T, cases, 'C07 callback raw [asan]', 'c07-cbraw', variant='asan')
        else:
            oc.callback_api_eval(ctx, T, cases, 'C07 callback', 'c07-cbapi', variants=('plain', 'asan'))
    else:
        raise vf.Infra('unknown replay kind %r' % kind)


def search(ctx, T, rng, budget):
    """after a proof/tie break: more API-level cases aimed at open paths of length 0-3 and all cap kinds"""
    cases = [gen_open_case(rng) for _ in range(budget)]
    oc.region_eval(ctx, T, rng, cases, oc.c07_prepare, lambda c: (-1 if c.get('rev') else 1), oc.c07_key, 'C07 search', 'c07')
    mix = [gen_mixture(rng) for _ in range(budget // 4)]
    oc.locality_eval(ctx, T, mix, 'C07 search locality', 'c07-local', key_of=c07_locality_key)


def run(ctx):
    B = QUICK if ctx.quick else THOROUGH
    pr = vf.coq_props(ctx, 'C07')
    ctx.log('proofs: ok=%s theorems=%d (%.1fs)' % (pr['ok'], len(pr['theorems']), pr['wall']))
    rng = ctx.rng
    try:
        T = oc.Tools(ctx, variants=('plain', 'asan'))
    except vf.BuildFailure as e:
        oc.viol(ctx, 'tie-break:cx_offset-build', 'the offset harness no longer builds against the tree (a modelled member or function changed): %s' % str(e)[-600:],
                      replay=dict(kind='build'), nofail=True)
        return
    nv0 = len(ctx.violations)
    oc.float_selftest(ctx, T)

    # corpus first
    corp = load_corpus('C07')
    by = {}
    for d in corp:
        by.setdefault(d['kind'], []).append(d['case'])
    for k, cs in by.items():
        run_kind(ctx, T, rng.fork(7), k, cs)
    ctx.count('corpus_cases', len(corp))

    # SPEC+O
    r1 = rng.fork(1)
    spec_cases = [gen_open_case(r1, single=r1.chance(2, 3)) for _ in range(B['spec'])]
    res = oc.region_eval(ctx, T, r1, spec_cases, oc.c07_prepare, lambda c: (-1 if c.get('rev') else 1), oc.c07_key, 'C07 spec', 'c07')
    nontriv = set()
    for c, r in zip(spec_cases, res):
        g = c['groups'][0]
        ctx.hist('end_type', oc.ET[g['et']]); ctx.hist('join_type', oc.JT[g['jt']])
        ctx.hist('path_len', '+'.join(str(len(p)) for p in g['paths']) if len(g['paths']) < 3 else '3paths')
        ctx.hist('delta_decade', 'e%d' % int(oc.math.floor(oc.math.log10(abs(c['delta'])))))
        if r.get('ncover', 0) > 0 and r.get('nuncover', 0) > 0:
            nontriv.add(json.dumps(c, sort_keys=True))
    for c in spec_cases[:3]:
        ctx.sample(dict(kind='c07', case=c))
    ctx.log('spec: %d cases, %d violations so far' % (len(spec_cases), len(ctx.violations)))

    # +delta / -delta, direction
    r2 = rng.fork(2)
    sign_symmetry(ctx, T, [gen_open_case(r2, single=False) for _ in range(B['sign'])])
    direction_independence(ctx, T, r2, [gen_open_case(r2) for _ in range(B['rev'])])

    # locality: alone vs together (exact), mixtures of far-apart paths and groups
    r3 = rng.fork(3)
    mix = [gen_mixture(r3, allow_polygon=r3.chance(1, 4)) for _ in range(B['local'])]
    # the witness that refuted C07_plan_local before offset-endtype-leak.patch, replayed on the real code
    mix.append(dict(ml=2.0, at=0.0, pc=0, rev=0, delta=10.0, groups=[dict(jt=0, et=1, paths=[slot_path(1, 2, 0), slot_path(1, 3, 1)])]))
    nb = oc.locality_eval(ctx, T, mix, 'C07 locality', 'c07-local', key_of=c07_locality_key)
    ctx.count('locality_cases', len(mix)); ctx.count('locality_differences', nb)
    ctx.log('locality: %d cases, %d differ' % (len(mix), nb))

    # plan tie (observer) : exhaustive small scope + random mixtures
    pcs = enum_plan_cases(full=not ctx.quick) + [gen_mixture(r3, allow_polygon=True) for _ in range(B['plan_rand'])]
    # rings written with repeated vertices / closing vertex (Group constructor model), options through the setters
    for et in range(5):
        for jt in (0, 2, 3):
            for n in (2, 3, 4, 5):
                ps = [oc.add_dups(r3, slot_path(et, n, i), et in (0, 1)) for i in range(2)]
                pcs.append(dict(ml=r3.choice([1.0, 2.0, 5.0]), at=0.0, pc=0, rev=0, delta=10.0, via=1, groups=[dict(jt=jt, et=et, paths=ps)]))
    nbreak, _ = oc.plan_tie(ctx, T, pcs, 'C07 plan', 'c07-plan')
    ctx.cov['plan_exhaustive_scope'] = 'one group: 5 end types x {Square,Round} x path-length sequences up to 3 over {1,2,3}(+0 for Polygon) x delta {10,-10,0.75}' + \
        ('; two groups with sequences up to 2 x delta {10,-10}' if not ctx.quick else '')
    ctx.log('plan tie: %d cases, %d breaks' % (len(pcs), nbreak))

    # raw curve tie, bit exact
    r4 = rng.fork(4)
    nbr = oc.raw_tie(ctx, T, raw_cases(r4, B['raw']) + oc.tiny_raw_cases(r4, B['tiny'], False), 'C07 raw', 'c07-raw')
    ctx.log('raw tie: %d breaks' % nbr)

    # delta callbacks on open paths (zero at the start / end cap, at inner vertices, everywhere; sign changes): raw curves judged
    # vertex by vertex; Execute(cb, paths) and the other public entry points; a part of both also under ASan+UBSan
    r5 = rng.fork(5)
    cbc = [oc.gen_cb_case(r5, False) for _ in range(B['cb'])]
    ncb = oc.callback_raw_tie(ctx, T, cbc, 'C07 callback raw', 'c07-cbraw')
    ncb += oc.callback_raw_tie(ctx, T, cbc[::4], 'C07 callback raw [asan]', 'c07-cbraw', variant='asan')
    ncb += oc.callback_api_eval(ctx, T, cbc, 'C07 callback', 'c07-cbapi')
    ncb += oc.callback_api_eval(ctx, T, cbc[::4] + [oc.gen_cb_case(r5, True) for _ in range(B['cb'] // 8)], 'C07 callback', 'c07-cbapi', variants=('plain', 'asan'))
    for c in cbc:
        ctx.hist('callback_selection', oc.SEL[c['sel']])
    ctx.log('delta callbacks: %d cases, %d failing' % (len(cbc), ncb))

    # empty path under sanitizers
    empty_path_ub(ctx, T)
    dump_debug(ctx)

    ties_broken = any(v['key'].startswith('tie-break') for v in ctx.violations[nv0:])
    if not pr['ok'] or ties_broken:
        search(ctx, T, rng.fork(9), 4000 if ctx.quick else 40000)
        if not pr['ok'] and not any(not v['nofail'] for v in ctx.violations):
            oc.viol(ctx, 'proof-break:Properties_C07', 'Properties_C07 no longer builds: %s' % '; '.join(pr['failed'])[:800],
                          replay=dict(kind='proof', failed=pr['failed']), nofail=True)

    ctx.cov['distinct_nontrivial'] = len(nontriv)
    ctx.cov['rule'] = ('seeded random open polylines (1-8 points, 5 coordinate scales, self-crossing allowed, every turn >= 10 degrees from a reversal by an exact '
                       'integer test, closing turns included for Joined), all 4 joins x {Joined,Butt,Square,Round}, miter limits {0.5,1,2,5}, arc tolerances {0,0.25,5}, '
                       '|delta| from 0.5 to 2x the path scale, both signs, ReverseSolution, options supplied by the constructor / the setters / the setters after an '
                       'Execute; a quarter of the paths written with repeated vertices (Joined rings also with the first vertex repeated at the end); a spec case is non-trivial when its sample set contains both points the '
                       'property requires covered and points it requires uncovered; distinct = distinct (configuration, input)')
    ctx.assumptions += [
        'binary64 arithmetic of the g++ -O1 -ffp-contract=off build equals Coq primitive floats (self-tested every run on %d operations)' % ctx.cov.get('ieee_ops_compared', 0),
        'libm results (acos, sin, cos, atan2) are supplied by the harness to the model, not modelled',
        'bevel joins: the inner bound is the stroke without the round wedges (edge rectangles only), by analogy with C06',
        'two-point Joined paths (a ring whose ends are full reversals) are accepted between the flat-ended and the square/round-capped stroke',
        'Reals axioms of the Coq standard library (see print_assumptions) for the geometric lemmas; FloatAxioms for PrimFloat facts',
        'region equality under path reversal is checked at points farther than the property tolerance from the result boundary',
    ]


def replay(ctx, path):
    d = json.load(open(path))
    rp = d.get('replay') or d
    ctx.sample(dict(replayed=os.path.basename(path), kind=rp.get('kind'), case=rp.get('case')))
    ctx.cov['rule'] = 'replay of one recorded case'
    T = oc.Tools(ctx, variants=('plain', 'asan'))
    kind = rp.get('kind')
    if kind in ('proof', 'build'):
        pr = vf.coq_props(ctx, 'C07')
        if not pr['ok']:
            oc.viol(ctx, 'proof-break:Properties_C07', '; '.join(pr['failed'])[:800], replay=rp, nofail=True)
        return
    if kind == 'fop':
        oc.float_selftest(ctx, T)
        return
    run_kind(ctx, T, ctx.rng.fork(7), kind, [rp['case']])


def dump_debug(ctx):
    if os.environ.get('VERIF_DEBUG'):
        with open(os.environ['VERIF_DEBUG'], 'w') as f:
            json.dump(ctx.violations, f, default=str)
