"""C10 -- no input can crash, hang or corrupt memory.

What is PROVED (coq/props/Properties_C10.v): bounds-checked, fuelled Gallina models of the loops that could leave
their data structure never fail a check and never run out of fuel, for ALL inputs:
  * BuildIntersectList's merge sort records exactly the inversions of curr_x, ProcessIntersectList's forward scan for
    an adjacent node (no end test in the code) always stops inside intersect_nodes_ and SwapPositionsInAEL's
    precondition always holds (model/Inversions.v);
  * AddPaths_ never reads or writes outside `new Vertex[total_vertex_count]` (model/VertexAlloc.v);
  * the int64 intermediates of the translated scalar kernels stay in range for |coordinates| <= 2^29
    (proofs/NoOverflow.v over coq/gen, regenerated from the source on every run);
  * re-exports of the termination / in-bounds theorems of C09 (RectClipLines), C17 (export arrays), C20 (path
    utilities), C07 (offset index schedules), C04 (owner-chain loops), C19 (detail::Minkowski indexing).
The two C10 models are tied to the code by exact output correspondence under ASan+UBSan:
  tie 1  harness/cx_isect.cpp    real BuildIntersectList / ProcessIntersectList on synthetic AELs (private access)
         vs bin/oracle_inversions (emission order, SEL order, processing order, final AEL -- exact);
  tie 2  harness/cx_addpaths.cpp real AddPaths_, whole Vertex array dumped, vs bin/oracle_vertexalloc (exact).

What is VALIDATED ONLY (runtime behaviour, not provable without a C++ semantics):
  fuzz   harness/cx_fuzzapi.cpp  every public entry point (Clipper64/ClipperD into Paths/PolyTree, the free boolean
         functions, ClipperOffset/InflatePaths, RectClip/RectClipLines, Minkowski, the path utilities, all 14 C
         exports) on gen/malformed.py's stream, each case in a forked child under ASan+UBSan (builds asan and
         asanz = USINGZ) with a CPU-time and an RSS watchdog and LeakSanitizer: SAN / CRASH / HANG / MEM / LEAK is a
         violation with the input line as replay.  Signed-overflow reports are violations for inputs whose
         coordinates and delta are <= 2^29 (the property's clause); beyond 2^29 they are counted only.
  fault  harness/cx_newfail.cpp  operator new throws at the k-th allocation (a stratified sample of k in the quick
         tier, every k in the thorough tier; once and "from k on"): std::bad_alloc must reach the caller and every
         object must be destroyed without a sanitizer report.
  The detectors themselves are exercised on every run (SELFTEST lines that overflow, leak, hang, ... on purpose).
"""
import collections, json, os, re, sys, time
import concurrent.futures as cf
import vf
sys.path.insert(0, os.path.join(vf.VERIF, 'gen'))
import malformed

PID = 'C10'
META = dict(
    text='Coq theorems, for all inputs: the merge sort of BuildIntersectList records exactly the inversions and '
         "ProcessIntersectList's unbounded forward scan always finds an adjacent node inside the list; AddPaths_ never leaves "
         'its Vertex array; int64 intermediates of the scalar kernels stay in range up to 2^29; plus the in-bounds/termination '
         'theorems of RectClipLines, the export arrays, the path utilities, the offset index schedules, the owner-chain loops and '
         'detail::Minkowski. Everything else of '
         'the property is runtime behaviour and is VALIDATED, not proved: every public entry point under ASan+UBSan+LSan '
         '(with and without USINGZ) with CPU/RSS watchdogs on a malformed/extreme input stream, and allocation-failure '
         'injection at the k-th allocation.',
    note='Memory safety of C++ cannot be stated in Coq without a C++ semantics: the theorems are about bounds-checked, '
         'fuelled hand models, tied to the code by exact output correspondence on generated inputs under the sanitizers '
         '(synthetic AELs through private access; the whole Vertex array of AddPaths_). The allocation-failure clause and the '
         'rest of the surface are covered by fault injection and sanitizer runs only. Signed-overflow reports above 2^29 are '
         'counted, not reported (the property claims overflow freedom up to 2^29). double->integer conversions out of range '
         '(not part of -fsanitize=undefined) are not observed.',
    technique='Coq 8.16 proofs about bounds-checked models + exact model/implementation correspondence under ASan/UBSan + '
              'sanitizer fuzzing of the public API in forked children with watchdogs + allocation-failure injection',
    category='proof')

# signed overflow must not abort the child: beyond 2^29 it is outside the property's clause and must not mask what follows
RECOVER = ['-fsanitize-recover=signed-integer-overflow']
ENV_SAN = {'ASAN_OPTIONS': 'detect_leaks=1:abort_on_error=0:exitcode=99:allocator_may_return_null=1:detect_stack_use_after_return=0',
           'UBSAN_OPTIONS': 'print_stacktrace=1:halt_on_error=0'}
ENV_NF = dict(ENV_SAN, ASAN_OPTIONS=ENV_SAN['ASAN_OPTIONS'].replace('detect_leaks=1', 'detect_leaks=0'))
ENV_TIE = {'ASAN_OPTIONS': 'detect_leaks=1:abort_on_error=0:exitcode=99', 'UBSAN_OPTIONS': 'print_stacktrace=1:halt_on_error=1'}
TIMEOUT_MS, RSS_MB = 10000, 2048
RETRY_TIMEOUT_MS, RETRY_RSS_MB = 90000, 8192

OFFSET_SITES = ('DoBevel', 'DoSquare', 'DoRound', 'DoMiter', 'OffsetPoint', 'OffsetOpenPath', 'OffsetOpenJoined', 'OffsetPolygon',
                'BuildNormals', 'DoGroupOffset')


# ----------------------------------------------------------------------------- small helpers
def slug(s, n=70):
    s = re.sub(r'\(.*', '', s)                      # drop the argument list
    s = s.replace('Clipper2Lib::', '')
    s = re.sub(r'<[^<>]*>', '', s)
    s = re.sub(r'<[^<>]*>', '', s)
    s = re.sub(r'^(?:void|bool|int|double|auto|static|inline|const)\s+', '', s.strip())
    s = re.sub(r'^(?:[A-Za-z_:]+\s+)(?=[A-Za-z_])', '', s) if ' ' in s else s
    return re.sub(r'[^A-Za-z0-9_.:-]+', '_', s).strip('_')[:n] or 'unknown'


def is_lib(path):
    return 'Clipper2Lib/' in path


def parse_reports(detail):
    """sanitizer reports in a SAN/LEAK detail: list of dict(kind, where, fn, frames).  The harness keeps the head and the
    tail of an over-long stderr (' ...[cut]... ' in between): the report cut at the end of the head is dropped."""
    if ' ...[cut]... ' in detail:
        head, tail = detail.split(' ...[cut]... ', 1)
        h = parse_reports(head)
        return (h[:-1] if len(h) > 1 else h) + parse_reports(tail)
    reps = []
    # split at the beginning of each report
    marks = [m.start() for m in re.finditer(r'(?:\S+:\d+:\d+: runtime error:|==\d+==ERROR: (?:Address|Leak)Sanitizer)', detail)]
    marks.append(len(detail))
    for a, b in zip(marks, marks[1:]):
        seg = detail[a:b]
        frames = re.findall(r'#\d+ 0x[0-9a-f]+ in (.*?) (/[^ |]+?):(\d+)', seg)
        libf = [(fn, fl, ln) for fn, fl, ln in frames if is_lib(fl)]
        m = re.match(r'(\S+):(\d+):\d+: runtime error: ([^|]*)', seg)
        if m:
            msg = m.group(3)
            if 'signed integer overflow' in msg:
                kind = 'signed-overflow'
            elif 'reference binding to null' in msg:
                kind = 'null-reference'
            elif 'null pointer' in msg:
                kind = 'null-deref'
            elif 'out of bounds' in msg:
                kind = 'index-out-of-bounds'
            elif 'division by zero' in msg:
                kind = 'div-by-zero'
            elif 'shift' in msg:
                kind = 'shift'
            elif 'not a valid value' in msg:
                kind = 'invalid-value'
            elif 'misaligned' in msg:
                kind = 'misaligned'
            else:
                kind = 'ub-' + slug(' '.join(msg.split()[:3]), 30)
            where = '%s:%s' % (os.path.basename(m.group(1)), m.group(2))
            # the reporting location itself may be the only library position when there is no stack
            if not libf and is_lib(m.group(1)):
                libf = [('', m.group(1), m.group(2))]
        else:
            m = re.match(r'==\d+==ERROR: (Address|Leak)Sanitizer: ([A-Za-z-]+)', seg)
            kind = ('leak' if m and m.group(1) == 'Leak' else (m.group(2) if m else 'sanitizer'))
            where = ''
        fn = slug(libf[0][0]) if libf and libf[0][0] else (os.path.basename(libf[0][1]) + '_' + libf[0][2] if libf else '')
        reps.append(dict(kind=kind, where=where, fn=fn, frames=[slug(f[0], 50) for f in libf[:6]], text=seg[:900]))
    return reps


def path_lengths(toks, pos):
    """read '<npaths> (<n> (x y)*n)*' starting at toks[pos]; returns ([n...], new pos)"""
    n = int(toks[pos]); pos += 1
    lens = []
    for _ in range(n):
        k = int(toks[pos]); pos += 1 + 2 * k
        lens.append(k)
    return lens, pos


def offset_groups(line):
    """[(end type, [path lengths])] of an offsetting case line, as the library will see them"""
    t = line.split()
    op = t[0]
    try:
        if op == 'INF64':
            return [(int(t[3]), path_lengths(t, 6)[0])]
        if op == 'INFD':
            return [(int(t[3]), path_lengths(t, 7)[0])]
        if op in ('XI64', 'XI1_64'):
            lens, nul = path_lengths(t, 8)[0], t[7] != '0'
            if op == 'XI1_64':
                return [(int(t[3]), [0 if (nul or not lens) else lens[0]])]
            return [(int(t[3]), [] if nul else lens)]
        if op in ('XID', 'XI1_D'):
            lens, nul = path_lengths(t, 9)[0], t[8] != '0'
            if op == 'XI1_D':
                return [(int(t[3]), [0 if (nul or not lens) else lens[0]])]
            return [(int(t[3]), [] if nul else lens)]
        if op == 'OFF':
            ng, pos, gs = int(t[7]), 8, []
            for _ in range(ng):
                et = int(t[pos + 1])
                lens, pos = path_lengths(t, pos + 2)
                gs.append((et, lens))
            return gs
    except (ValueError, IndexError):
        pass
    return []


def has_empty_open_path(line):
    return any(et != 0 and 0 in lens for et, lens in offset_groups(line))


def bseq_readds_container(line):
    """BSEQ case in which one ReuseableDataContainer64 is added to the same clipper a second time (item kind 8)"""
    t = line.split()
    if t[0] != 'BSEQ':
        return False
    try:
        k, pos = int(t[6]), 7
        for _ in range(k):
            kind = int(t[pos])
            _, pos = path_lengths(t, pos + 1)
            if kind & 8:
                return True
    except (ValueError, IndexError):
        pass
    return False


def is_nan_tok(s):
    return s.lower().lstrip('+-') == 'nan'


# ----------------------------------------------------------------------------- running the harnesses
def parse_out(o):
    f = o.split(' ', 3)
    while len(f) < 4:
        f.append('')
    try:
        ms = int(f[2])
    except ValueError:
        ms = 0
    return dict(status=f[0], entry=f[1], ms=ms, detail=f[3])


def run_supervised(exe, lines, env, timeout_ms=TIMEOUT_MS, rss=RSS_MB, chunk=48, what='harness'):
    out, fails = vf.par_lines(exe, lines, args=['--timeout-ms', str(timeout_ms), '--rss-mb', str(rss)], env=env, chunk=chunk, timeout=3000)
    if fails or len(out) != len(lines):
        # the supervising parent itself died: that is machinery, not the library (every case runs in a forked child)
        raise vf.Infra('%s: supervising process failed: %s' % (what, (fails[0][2] if fails else 'short output')[-1500:]))
    return [parse_out(o) for o in out]


def judge(case, r, variant, ctx):
    """None when the outcome is acceptable, else (key, what)."""
    st, ent, det, line = r['status'], r['entry'], r['detail'], case['line']
    toks = line.split()
    op = toks[0]
    if st in ('OK', 'EXC'):
        if st == 'EXC':
            ctx.hist('exceptions_reaching_caller', '%s: %s' % (ent, det[:48]))
        return None
    twice = bseq_readds_container(line)
    TWICE = ('reuseable-data.same-container-added-twice',
             'the same ReuseableDataContainer64 added twice to one Clipper64 (both copies share their Vertex objects, the sweep pairs '
             'edges by vertex address): %s in %s [%s]: %s' % (st, ent, variant, det[:260]))
    if st == 'SAN':
        reps = parse_reports(det)
        hard = [x for x in reps if x['kind'] != 'signed-overflow']
        if hard and twice:
            return TWICE
        m = re.match(r'exit=(-?\d+)', det)
        code = int(m.group(1)) if m else 0
        if not hard and reps:
            x = reps[0]
            if case.get('le29'):
                return ('overflow-le-2p29.%s' % (x['fn'] or ent),
                        'signed integer overflow with all coordinates and delta <= 2^29 in %s (%s) [%s, %s]: %s'
                        % (x['fn'] or '?', x['where'], ent, variant, x['text'][:260]))
            for y in reps:
                ctx.hist('signed_overflow_beyond_2p29', '%s %s' % (y['fn'] or '?', y['where']))
            if code in (0, 10):
                return None
            return ('crash-after-overflow.%s' % ent, '%s [%s] died with exit code %d after signed overflow reports' % (ent, variant, code))
        x = hard[0] if hard else dict(kind='report', fn='', where='', frames=[], text=det[:400])
        fr = ' '.join(x['frames'])
        if x['kind'] in ('null-reference', 'index-out-of-bounds', 'heap-buffer-overflow', 'SEGV', 'null-deref') \
                and has_empty_open_path(line) and any(s in fr for s in OFFSET_SITES):
            return ('offset.empty-path.open-end-type',
                    'an EMPTY path in a ClipperOffset group with an open end type (Joined/Butt/Square/Round) reaches path[0]/norms[0] in %s '
                    '[%s, %s]: %s' % (x['fn'], ent, variant, x['text'][:300]))
        if x['kind'] == 'stack-overflow' and ('CheckSplitOwner' in fr or 'CheckSplitOwner' in x['text']):
            return ('polytree.checksplitowner.unbounded-recursion',
                    'ClipperBase::CheckSplitOwner recurses without bound through splits of OutRecs without points (the #942 branch is '
                    'taken before the recursive_split marker is tested): stack overflow [%s, %s]' % (ent, variant))
        if op in ('RDP', 'RDPD') and is_nan_tok(toks[1]) and x['kind'] == 'stack-overflow':
            return ('rdp.nan-epsilon.unbounded-recursion',
                    'RamerDouglasPeucker with epsilon = NaN recurses without bound (max_d <= NaN is false, idx stays 0): stack overflow '
                    '[%s, %s]' % (ent, variant))
        return ('san.%s.%s' % (x['kind'], x['fn'] or ent), '%s in %s (%s) [%s, %s]: %s' % (x['kind'], x['fn'] or '?', x['where'], ent, variant, x['text'][:400]))
    if st == 'LEAK':
        reps = [x for x in parse_reports(det) if x['kind'] == 'leak']
        m = re.search(r'Direct leak of .*?(#1 0x[0-9a-f]+ in (.*?) (/\S+?):(\d+))', det)
        site = slug(m.group(2)) if m else (reps[0]['fn'] if reps else ent)
        after_exc = det.startswith('[after-exception]')
        if after_exc and m and 'ClipperOffset::Execute' in m.group(2) and 'PolyPath' in m.group(2):
            return ('offset.polytree-execute.leak-on-exception',
                    'ClipperOffset::Execute(double, PolyTree64&) leaks its `new Paths64` when ExecuteInternal throws (%s) [%s, %s]'
                    % (det[18:80].split(' || ')[0], ent, variant))
        return ('leak.%s.%s' % ('after-exception' if after_exc else 'after-return', site),
                'memory leaked by %s (allocated in %s) [%s]: %s' % (ent, site, variant, det[:400]))
    if twice and st in ('CRASH', 'HANG', 'MEM'):
        return TWICE
    if st == 'CRASH':
        if op in ('RDP', 'RDPD') and is_nan_tok(toks[1]):
            return ('rdp.nan-epsilon.unbounded-recursion', 'RamerDouglasPeucker with epsilon = NaN crashed [%s, %s]: %s' % (ent, variant, det[:200]))
        return ('crash.%s' % ent, '%s crashed [%s]: %s' % (ent, variant, det[:400]))
    if st in ('HANG', 'MEM'):
        big = potentially_large(line)
        return ('%s.%s' % (st.lower(), ent), '%s exceeded the %s limit (%s) [%s]: %s'
                % (ent, 'CPU-time' if st == 'HANG' else 'resident-set',
                   ('%d s CPU / %d MB on the retry' % (RETRY_TIMEOUT_MS // 1000, RETRY_RSS_MB)) if big else
                   ('%d s CPU / %d MB on an input of %d tokens without a large parameter' % (TIMEOUT_MS // 1000, RSS_MB, len(toks))), variant, det[:200]))
    return ('harness.%s' % st, 'unexpected harness status %s: %s' % (st, det[:300]))


def potentially_large(line):
    """may the RESULT of this case be legitimately large?  Only then is a first-pass HANG/MEM re-examined with the large
    limits: a numeric parameter or coordinate of magnitude >= 2^30 with an operation whose output size grows with it
    (offsetting builds circles of ~pi*sqrt(r) vertices, Ellipse likewise), or an input of more than 4000 tokens.
    A small input without such a parameter that burns 10 s of CPU is a hang."""
    t = line.split()
    if len(t) > 4000:
        return True
    if t[0] in ('INF64', 'INFD', 'OFF', 'XI64', 'XI1_64', 'XID', 'XI1_D', 'ELL', 'ELLD'):
        for x in t[1:]:
            try:
                v = abs(float(x))
            except ValueError:
                continue
            if v != v or v >= 2.0 ** 30:
                return True
    return False


def fuzz_variant(ctx, exe, cases, variant, found):
    """run the stream; HANG/MEM cases whose result may be legitimately large are retried alone with much larger limits"""
    t0 = time.time()
    res = run_supervised(exe, [c['line'] for c in cases], ENV_SAN, what='cx_fuzzapi[%s]' % variant)
    # a child killed by the WALL-clock backstop (no CPU-limit signal) was blocked or starved, e.g. on an overloaded
    # machine: the CPU-time limit is the hang detector; such a case is simply run again, alone
    stalled = [i for i, r in enumerate(res) if r['status'] == 'HANG' and 'cpu-limit' not in r['detail'][:120]]
    if stalled:
        again = run_supervised(exe, [cases[i]['line'] for i in stalled], ENV_SAN, chunk=1, what='cx_fuzzapi[%s] stalled' % variant)
        for i, r2 in zip(stalled, again):
            ctx.hist('wall_clock_stalls', '%s -> %s' % (res[i]['entry'], r2['status']))
            res[i] = r2
    retry = [i for i, r in enumerate(res) if r['status'] in ('HANG', 'MEM') and potentially_large(cases[i]['line'])]
    if retry:
        again = run_supervised(exe, [cases[i]['line'] for i in retry], ENV_SAN, RETRY_TIMEOUT_MS, RETRY_RSS_MB, chunk=1, what='cx_fuzzapi[%s] retry' % variant)
        for i, r2 in zip(retry, again):
            ctx.hist('watchdog_retries', '%s %s -> %s' % (res[i]['status'], res[i]['entry'], r2['status']))
            if r2['status'] in ('OK', 'EXC'):
                ctx.sample(dict(line=cases[i]['line'][:300], first=res[i]['status'], retry_ms=r2['ms']), limit=3, key='slow_but_finite')
            res[i] = r2
    nbad = 0
    for c, r in zip(cases, res):
        ctx.hist('status_' + variant, r['status'])
        v = judge(c, r, variant, ctx)
        if v:
            nbad += 1
            key, what = v
            cur = found.get(key)
            if cur is None or len(c['line']) < len(cur['replay']['line']):
                found[key] = dict(what=what, replay=dict(kind='fuzz', variant=variant, line=c['line'], status=r['status'], entry=r['entry'],
                                                         regime=c.get('regime'), le29=c.get('le29'), family=c.get('fam')))
    ctx.log('fuzz[%s]: %d cases, %d outside the property, %.1fs' % (variant, len(cases), nbad, time.time() - t0))
    return res


# ----------------------------------------------------------------------------- self test of the detectors
SELFTESTS = [('ok', ('OK',)), ('oob', ('SAN',)), ('uaf', ('SAN',)), ('leak', ('LEAK',)), ('hang', ('HANG',)), ('mem', ('MEM',)),
             ('overflow', ('SAN',)), ('nullref', ('SAN',)), ('segv', ('SAN', 'CRASH')), ('abort', ('CRASH', 'SAN')), ('dtor-uaf', ('SAN',))]


def selftest(ctx, fz, nf):
    lines = ['SELFTEST ' + k for k, _ in SELFTESTS]
    res = run_supervised(fz, lines, ENV_SAN, 2000, 768, chunk=1, what='selftest')
    bad = []
    for (k, want), r in zip(SELFTESTS, res):
        ctx.hist('selftest', '%s:%s' % (k, r['status']))
        if r['status'] not in want:
            bad.append('%s gave %s (wanted %s): %s' % (k, r['status'], '/'.join(want), r['detail'][:200]))
    # the overflow report must be recognised as such, and must not abort the child
    rp = parse_reports(res[6]['detail'])
    if not rp or rp[0]['kind'] != 'signed-overflow' or not res[6]['detail'].startswith('exit=0'):
        bad.append('signed overflow is not reported as a recoverable signed-overflow: %s' % res[6]['detail'][:200])
    if nf:
        r2 = run_supervised(nf, ['NF 8 2 2 SELFTEST swallow', 'NF 8 2 2 SELFTEST dtor-uaf', 'NF 8 2 2 SELFTEST ok'], ENV_NF, 5000, 768, chunk=1, what='selftest-nf')
        for k, want, r in zip(('swallow', 'dtor-uaf', 'ok'), (('FAIL',), ('SAN',), ('OK',)), r2):
            ctx.hist('selftest', 'nf-%s:%s' % (k, r['status']))
            if r['status'] not in want:
                bad.append('newfail %s gave %s (wanted %s): %s' % (k, r['status'], '/'.join(want), r['detail'][:200]))
    if bad:
        raise vf.Infra('the detectors of the C10 harness do not detect their own seeded faults: ' + ' | '.join(bad))


# ----------------------------------------------------------------------------- tie 1: inversions
def fields(o):
    d = {}
    for part in o.split(' | '):
        t = part.split()
        if t and t[0] == 'OK':
            t = t[1:]
        if t:
            d[t[0]] = t[1:]
    return d


def crashed_line(exe, fails, env):
    """the input line on which a (non-forking) tie harness died, its exit code and the HEAD of its stderr (one line)"""
    for shard, rc, err, got in fails:
        start = max(0, len(got or []) - 1)
        for part in (shard[start:start + 60], shard[:200]):
            ln, rc2, err2 = vf.isolate_failure(exe, part, env=env, timeout=60)
            if ln:
                p = vf.run_lines(exe, [ln], env=env, timeout=60)
                return ln, rc2, (p.stderr or err2)[:8000].replace('\n', ' | ')
    return None, None, (fails[0][2] if fails else '').replace('\n', ' | ')


def tie_inversions(ctx, exe, oracle, n_cases, found):
    t0 = time.time()
    cases = malformed.gen_ael(ctx.rng.fork(101), n_cases)
    lines = [c['line'] for c in cases]
    out, fails = vf.par_lines(exe, lines, env=ENV_TIE, timeout=1200)
    if fails:
        ln, rc, err = crashed_line(exe, fails, ENV_TIE)
        rp = parse_reports(err)
        k = rp[0] if rp else dict(kind='crash', fn='', text=err[-300:])
        found['isect.%s.%s' % (k['kind'], k['fn'] or 'cx_isect')] = dict(
            what='the real BuildIntersectList/ProcessIntersectList on a synthetic AEL: %s in %s: %s' % (k['kind'], k['fn'] or '?', k['text'][:300]),
            replay=dict(kind='isect', line=ln or lines[0], rc=rc))
        bad = {ln} if ln else set(l for sh in fails for l in sh[0])
        keep = [i for i, l in enumerate(lines) if l not in bad]
        cases, lines = [cases[i] for i in keep], [lines[i] for i in keep]
        out, fails = vf.par_lines(exe, lines, env=ENV_TIE, timeout=1200)
        if fails:
            ctx.notes.append('cx_isect: more than one crashing input; the remaining correspondence run was skipped')
            return 0
    q1, q2, meta = [], [], []
    for c, o in zip(cases, out):
        f = fields(o)
        if 'cx' not in f:
            found.setdefault('isect.harness', dict(what='cx_isect: ' + o[:200], replay=dict(kind='isect', line=c['line'])))
            continue
        n = int(f['cx'][0])
        nodes = f['nodes']
        q1.append('ISECT %d %s %s' % (n, ' '.join(f['cx'][1:]), ' '.join(nodes)))
        proc = f['proc']
        q2.append('CHECK %d %s %s' % (n, ' '.join(str(i) for i in range(n)), ' '.join(proc)))
        meta.append((c, f))
    o1, fl1 = vf.par_lines(oracle, q1, timeout=1200)
    o2, fl2 = vf.par_lines(oracle, q2, timeout=1200)
    if fl1 or fl2 or len(o1) != len(q1) or len(o2) != len(q2):
        raise vf.Infra('oracle_inversions failed: %s' % ((fl1 or fl2)[0][2][-800:] if (fl1 or fl2) else 'short output'))
    nontriv = set()
    for (c, f), m1, m2 in zip(meta, o1, o2):
        n = int(f['cx'][0])
        m = int(f['nodes'][0])
        why = None
        pairs = [' '.join(f['nodes'][1 + 4 * i:3 + 4 * i]) for i in range(m)]
        mf = {}
        parts = m1.split(' | ')
        if not m1.startswith('B ') or len(parts) < 5:
            why = 'model: ' + m1[:120]
        else:
            mf = dict(sel=parts[0].split()[1:], nodes=parts[1].split(), p=parts[2].split()[1:], order=parts[3].split(), d=parts[4].split()[1])
            msel, mnodes = mf['sel'][1:], mf['nodes'][1:]
            mpairs = [' '.join(mnodes[2 * i:2 * i + 2]) for i in range(len(mnodes) // 2)]
            if f['links'] != ['1']:
                why = 'AEL links inconsistent after the call'
            elif f['ok'] != ['1'] or f['outrecs'] != ['0']:
                why = 'succeeded_/outrec_list_ changed (ok=%s outrecs=%s)' % (f['ok'], f['outrecs'])
            elif (f['ret'] == ['1']) != (m > 0):
                why = 'BuildIntersectList returned %s with %d nodes' % (f['ret'][0], m)
            elif n >= 2 and f['sel'][1:] != msel:
                why = 'SEL order after BuildIntersectList differs (impl %s | model %s)' % (' '.join(f['sel'][1:]), ' '.join(msel))
            elif pairs != mpairs:
                why = 'intersect nodes differ in number or emission order (impl %s | model %s)' % (pairs[:12], mpairs[:12])
            elif mf['p'][0] != 'ok':
                why = 'the bounds-checked model of ProcessIntersectList fails on the real node list: ' + mf['p'][0]
            elif c['process'] and m > 0:
                proc = f['proc']
                ppairs = [' '.join(proc[1 + 2 * i:3 + 2 * i]) for i in range(int(proc[0]))]
                mael = mf['p'][2:]
                if sorted(ppairs) != sorted(pairs):
                    why = 'ProcessIntersectList did not process exactly the recorded nodes'
                elif m2 == 'S bad':
                    why = 'a processed node had non-adjacent edges or the right edge first (check_schedule fails on the observed order %s)' % ppairs[:12]
                elif m2.split()[2:] != f['ael'][1:]:
                    why = 'AEL after processing is not what the observed swaps produce (impl %s | replayed %s)' % (f['ael'][1:], m2.split()[2:])
                elif f['ael'][1:] != mael:
                    why = 'final AEL order differs from the model (impl %s | model %s)' % (' '.join(f['ael'][1:]), ' '.join(mael))
                elif mf['d'] == '1':
                    morder = mf['order'][1:]
                    mo = [' '.join(morder[2 * i:2 * i + 2]) for i in range(len(morder) // 2)]
                    if mo != ppairs:
                        why = 'processing order differs from the model although all node points are distinct (impl %s | model %s)' % (ppairs[:12], mo[:12])
            elif c['process'] == 0 or m == 0:
                if n >= 2 and f['ael'][1:] != [str(i) for i in range(n)]:
                    why = 'AEL order changed by BuildIntersectList alone'
        if m > 0:
            nontriv.add(c['line'])
        ctx.hist('ael_sizes', '%d-%d' % (n // 8 * 8, n // 8 * 8 + 7))
        ctx.hist('ael_nodes', '0' if m == 0 else ('1-4' if m <= 4 else ('5-32' if m <= 32 else '33+')))
        if why:
            key = 'isect.model-mismatch'
            cur = found.get(key)
            if cur is None or len(c['line']) < len(cur['replay']['line']):
                found[key] = dict(what='BuildIntersectList/ProcessIntersectList on a synthetic AEL disagree with model/Inversions.v: ' + why[:500],
                                  replay=dict(kind='isect', line=c['line'], impl=' | '.join('%s %s' % (k, ' '.join(v)) for k, v in f.items())[:1500], model=m1[:800]),
                                  nofail=True)
    ctx.count('evaluations', len(meta))
    ctx.count('inversion_tie_cases', len(meta))
    ctx.cov['inversion_tie_with_nodes'] = len(nontriv)
    if meta:
        ctx.sample(dict(tie='inversions', line=meta[len(meta) // 2][0]['line'][:300]))
    ctx.log('tie inversions: %d AELs (%d with intersections), %.1fs' % (len(meta), len(nontriv), time.time() - t0))
    return len(nontriv)


# ----------------------------------------------------------------------------- tie 2: AddPaths_ vertex array
def gen_addpaths(rng, n):
    out = []
    regs = malformed.REG_BOOL
    for i in range(n):
        k = rng.below(10)
        if k < 6:
            ps, fam = malformed.shape(rng)
            if rng.chance(1, 2):
                more, f2 = malformed.shape(rng, rng.below(17))
                ps = ps + more
        elif k < 8:      # many tiny paths: empties, single points, all-duplicates between linked ones (slot reuse)
            ps = []
            for _ in range(rng.range(1, 9)):
                a = (rng.range(-3, 3), rng.range(-3, 3))
                ps.append(rng.choice([[], [a], [a, a], [a, a, a], [a, (a[0] + 1, a[1])], [a, (a[0] + 1, a[1]), a],
                                      [a, (a[0] + 2, a[1]), (a[0], a[1] + 2)], [a, (a[0] + 2, a[1]), (a[0], a[1] + 2), a, a]]))
        else:
            ps = [[(rng.range(0, 2), rng.range(0, 2)) for _ in range(rng.range(0, 7))] for _ in range(rng.range(0, 5))]
        name, M = regs[i % len(regs)]
        ps = malformed.place(rng, ps, M)
        out.append(dict(line='AP %d %s' % (rng.below(2), malformed.fmt_paths(ps)), total=sum(len(p) for p in ps)))
    return out


def tie_addpaths(ctx, exes, oracle, n_cases, found):
    t0 = time.time()
    cases = gen_addpaths(ctx.rng.fork(102), n_cases)
    lines = [c['line'] for c in cases]
    model, fl = vf.par_lines(oracle, lines, timeout=1200)
    if fl or len(model) != len(lines):
        raise vf.Infra('oracle_vertexalloc failed: %s' % (fl[0][2][-800:] if fl else 'short output'))
    nontriv = 0
    for variant, exe in exes.items():
        out, fails = vf.par_lines(exe, lines, env=ENV_TIE, timeout=1200)
        if fails:
            ln, rc, err = crashed_line(exe, fails, ENV_TIE)
            rp = parse_reports(err)
            k = rp[0] if rp else dict(kind='crash', fn='', text=err[-300:])
            found['addpaths.%s.%s' % (k['kind'], k['fn'] or 'AddPaths_')] = dict(
                what='the real AddPaths_: %s in %s [%s]: %s' % (k['kind'], k['fn'] or '?', variant, k['text'][:300]),
                replay=dict(kind='addpaths', variant=variant, line=ln or lines[0], rc=rc))
            continue
        for c, o, m in zip(cases, out, model):
            if o.strip() != m.strip():
                key = 'addpaths.model-mismatch'
                cur = found.get(key)
                if cur is None or len(c['line']) < len(cur['replay']['line']):
                    found[key] = dict(what='the Vertex array left by AddPaths_ differs from model/VertexAlloc.v [%s] (impl %s | model %s)'
                                           % (variant, o[:200], m[:200]),
                                      replay=dict(kind='addpaths', variant=variant, line=c['line']), nofail=not o.startswith('A '))
        ctx.count('evaluations', len(out))
    for c, m in zip(cases, model):
        t = m.split()
        if len(t) >= 3 and t[0] == 'A' and int(t[1]) > 0:
            nontriv += 1
            ctx.hist('vertex_array_fill', 'all' if t[1] == t[2] else ('none' if t[2] == '0' else 'partial'))
    ctx.count('addpaths_tie_cases', len(cases))
    ctx.sample(dict(tie='addpaths', line=cases[len(cases) // 3]['line'][:300]))
    ctx.log('tie AddPaths_: %d path lists x %d builds, %.1fs' % (len(cases), len(exes), time.time() - t0))
    return nontriv


# ----------------------------------------------------------------------------- allocation failure
def newfail(ctx, exe, variant, cases, upto, nsample, found):
    t0 = time.time()
    lines = ['NF %d %d 2 %s' % (upto, nsample, c['line']) for c in cases]
    res = run_supervised(exe, lines, ENV_NF, 60000, 4096, chunk=6, what='cx_newfail[%s]' % variant)     # 60 s CPU per injected run
    stalled = [i for i, r in enumerate(res) if r['status'] == 'HANG' and 'cpu-limit' not in r['detail'][:160]]
    if stalled:
        again = run_supervised(exe, [lines[i] for i in stalled], ENV_NF, 60000, 4096, chunk=1, what='cx_newfail[%s] stalled' % variant)
        for i, r2 in zip(stalled, again):
            ctx.hist('wall_clock_stalls', 'nf %s -> %s' % (res[i]['entry'], r2['status']))
            res[i] = r2
    runs = 0
    for c, r in zip(cases, res):
        ctx.hist('newfail_status_' + variant, r['status'])
        det = r['detail']
        if r['status'] == 'OK':
            m = re.search(r'N=(\d+) tried=(\d+) bad_alloc=(\d+) completed=(\d+)(?: nothrow_fallback=(\d+))?', det)
            if m:
                n, tried = int(m.group(1)), int(m.group(2))
                runs += tried
                ctx.count('newfail_injected_runs', tried)
                ctx.count('newfail_bad_alloc_at_caller', int(m.group(3)))
                ctx.count('newfail_completed_without_throwing_failure', int(m.group(4)))
                ctx.hist('newfail_allocations_per_operation', '0' if n == 0 else ('1-9' if n < 10 else ('10-99' if n < 100 else ('100-999' if n < 1000 else '1000+'))))
                ctx.hist('newfail_entry_points', r['entry'])
            continue
        where = re.match(r'\[(k=\d+ sticky=\d)\]', det)
        if r['status'] == 'FAIL':
            cls = 'swallowed' if ' swallowed ' in det else 'other-exception'
            key = 'newfail.%s.%s' % (cls, r['entry'])
            what = ('an injected allocation failure did not reach the caller as std::bad_alloc (%s) in %s [%s]: %s' % (cls, r['entry'], variant, det[:300]))
        else:
            rp = [x for x in parse_reports(det) if x['kind'] != 'signed-overflow']
            if r['status'] == 'SAN' and not rp:
                continue           # only overflow reports beyond 2^29
            if '[counting]' in det[:40]:
                continue           # the un-injected baseline run already misbehaves: reported by the fuzz stage
            x = rp[0] if rp else dict(kind=r['status'].lower(), fn='', text=det[:300])
            key = 'newfail.%s.%s' % (x['kind'], x['fn'] or r['entry'])
            what = ('after an injected allocation failure (%s) in %s: %s in %s [%s]: %s'
                    % (where.group(1) if where else '?', r['entry'], x['kind'], x['fn'] or '?', variant, x['text'][:400]))
        cur = found.get(key)
        if cur is None or len(c['line']) < len(cur['replay']['line']):
            found[key] = dict(what=what, replay=dict(kind='newfail', variant=variant, line=c['line'], nf='NF %d %d 2' % (upto, nsample),
                                                     at=where.group(1) if where else None, status=r['status']))
    ctx.log('fault injection[%s]: %d operations, %d injected runs, %.1fs' % (variant, len(cases), runs, time.time() - t0))


# ----------------------------------------------------------------------------- the check
def build_all(ctx):
    jobs = {('isect', 'asan'): ('cx_isect.cpp', 'asan', ()), ('addpaths', 'asan'): ('cx_addpaths.cpp', 'asan', ()),
            ('addpaths', 'asanz'): ('cx_addpaths.cpp', 'asanz', ()),
            ('fuzz', 'asan'): ('cx_fuzzapi.cpp', 'asan', RECOVER), ('fuzz', 'asanz'): ('cx_fuzzapi.cpp', 'asanz', RECOVER),
            ('nf', 'asan'): ('cx_newfail.cpp', 'asan', RECOVER), ('nf', 'asanz'): ('cx_newfail.cpp', 'asanz', RECOVER)}
    exes, errs = {}, {}
    with cf.ThreadPoolExecutor(max_workers=len(jobs)) as ex:
        futs = {k: ex.submit(vf.build_cpp, ctx, s, v, e, 'g++', 1500) for k, (s, v, e) in jobs.items()}
        for k, fu in futs.items():
            try:
                exes[k] = private_copy(ctx, fu.result())
            except vf.BuildFailure as e:
                errs[k] = str(e)
    return exes, errs


def private_copy(ctx, exe):
    """the shared binary cache is trimmed by concurrent checks: run from a copy under ctx.work"""
    import shutil
    dst = os.path.join(ctx.work, os.path.basename(exe))
    if not os.path.exists(dst):
        try:
            shutil.copy2(exe, dst)
        except OSError:
            return exe
    return dst


def run(ctx):
    quick = ctx.quick
    # ---- 1. prove
    pr = vf.coq_props(ctx, PID)
    if not pr['ok']:
        ctx.log('proof build FAILED: ' + '; '.join(pr['failed'])[:800])
    # ---- 2. build
    exes, errs = build_all(ctx)
    found = {}
    scale = (2.0 if quick else 20.0) * (1.0 if pr['ok'] and not errs else 1.5)      # a broken proof / tie widens the search
    # ---- 3. the detectors detect
    if ('fuzz', 'asan') in exes:
        selftest(ctx, exes[('fuzz', 'asan')], exes.get(('nf', 'asan')))
    # ---- 4. ties
    n_nontriv = 0
    if ('isect', 'asan') in exes:
        n_nontriv += tie_inversions(ctx, exes[('isect', 'asan')], vf.oracle_build('inversions'), int(1500 * scale), found)
    ap = {v: exes[('addpaths', v)] for v in ('asan', 'asanz') if ('addpaths', v) in exes}
    if ap:
        n_nontriv += tie_addpaths(ctx, ap, vf.oracle_build('vertexalloc'), int(1500 * scale), found)
    # ---- 5. every public entry point under the sanitizers
    cases = malformed.gen_all(ctx.rng.fork(1), scale)
    seen, stream = set(), []
    for c in cases:
        if c['line'] not in seen:
            seen.add(c['line'])
            stream.append(c)
    ctx.rng.fork(2).shuffle(stream)            # slow cases of one family do not end up in the same shard
    base = {}
    for variant in ('asan', 'asanz'):
        if ('fuzz', variant) not in exes:
            continue
        res = fuzz_variant(ctx, exes[('fuzz', variant)], stream, variant, found)
        ctx.count('evaluations', len(res))
        base[variant] = res
        for c, r in zip(stream, res):
            ctx.hist('entry_points_' + variant, r['entry'])
    for c in stream:
        ctx.hist('regimes', c['regime'])
        ctx.hist('commands', c['op'])
        ctx.hist('shape_families', c['fam'].split('/')[0][:24])
    ctx.cov['stream_cases_le_2p29'] = sum(1 for c in stream if c['le29'])
    # ---- 6. allocation failure at the k-th allocation
    for variant in ('asan', 'asanz'):
        if ('nf', variant) not in exes or variant not in base:
            continue
        okc = [c for c, r in zip(stream, base[variant]) if r['status'] == 'OK']
        ok_lines = set(c['line'] for c in okc)
        # stratified by command: the same number of operations of every kind
        by = collections.defaultdict(list)
        for c in okc:
            by[c['op']].append(c)
        per = (100 if variant == 'asan' else 25) if quick else (500 if variant == 'asan' else 150)
        sel = []
        for op in sorted(by):
            l = by[op]
            step = max(1, len(l) // per)
            sel += l[::step][:per]
        if quick:
            newfail(ctx, exes[('nf', variant)], variant, sel, 128, 16, found)
        else:
            newfail(ctx, exes[('nf', variant)], variant, sel, 10 ** 9, 0, found)
        seeds = malformed.nf_seed_cases() + [c for c in malformed.fixed_cases() if c['line'] in ok_lines]
        newfail(ctx, exes[('nf', variant)], variant, seeds, 10 ** 9, 0, found)          # every k, both tiers
        ctx.count('evaluations', len(sel) + len(seeds))
    # ---- 7. decide
    for key in sorted(found):
        v = found[key]
        ctx.violation(key, v['what'], replay=v['replay'], nofail=v.get('nofail', False))
    concrete = any(not v.get('nofail') for v in found.values())
    for k, e in errs.items():
        ctx.violation('tie-break:build-%s-%s' % k, 'harness %s [%s] no longer builds against the tree (a modelled or public function disappeared or changed '
                      'its signature): %s' % (k[0], k[1], e[-700:]), replay=dict(kind='build', harness=k[0], variant=k[1], error=e[-2500:]), nofail=not concrete)
    if not pr['ok']:
        ctx.violation('proof-break:' + (re.sub(r'[^A-Za-z0-9_.]+', '_', pr['failed'][0])[:60] if pr['failed'] else 'Properties_C10'),
                      'Properties_C10 no longer builds (%s); the widened search %s' % ('; '.join(pr['failed'])[:500],
                                                                                      'found concrete failing inputs' if concrete else 'found no failing input'),
                      replay=dict(kind='proof', failed=pr['failed']), nofail=not concrete)
    # ---- 8. evidence
    ctx.cov['distinct_nontrivial'] = len(stream) + n_nontriv
    ctx.cov['rule'] = ('fuzz: gen/malformed.py (seeded): 26 malformed shape families (empty lists, empty/1/2-point paths, duplicates, collinear runs, '
                       'spikes, coincident/overlapping paths, bow-ties, combs, ...) placed at magnitudes tiny..2^62 for boolean clipping and ..2^40 '
                       'elsewhere (scaled, pushed into a corner of the range, exact extremes), every option/parameter incl. 0, negative, huge, '
                       'inf and NaN, invalid uint8 enums and null arrays at the C boundary, plus general-position families, coincident paths added '
                       'item by item in arbitrary order (BSEQ) and small-coordinate pinched / sliver / self-touching polygons with 0..20 '
                       'further polygons around them through the 64-bit and the double entry points (rings that are split while the '
                       'result builders walk outrec_list_); distinct = distinct '
                       'command lines, each of which calls at least one public entry point inside a forked, watched child (run under both '
                       'builds). ties: synthetic AELs with at least one recorded intersection and path lists with a non-empty Vertex array '
                       '(counted as non-trivial), compared exactly with the extracted models.')
    for c in stream[:1] + stream[len(stream) // 2:len(stream) // 2 + 1]:
        ctx.sample(dict(kind='fuzz', line=c['line'][:300], regime=c['regime'], family=c['fam']))
    ctx.cov['validated_not_proved'] = ['absence of sanitizer reports / crashes / hangs / leaks on the generated stream for every public entry point',
                                       'allocation-failure clause (bad_alloc reaches the caller, clean destruction) by fault injection',
                                       'USINGZ builds', 'stack depth of the recursive RDP / polytree walks', 'the C++ runtime and allocator']
    ctx.cov['limits'] = dict(cpu_ms=TIMEOUT_MS, rss_mb=RSS_MB, retry_cpu_ms=RETRY_TIMEOUT_MS, retry_rss_mb=RETRY_RSS_MB)
    ctx.cov['trusted_base'] = vf.TRUSTED_COMMON + [
        'AddressSanitizer / UndefinedBehaviorSanitizer / LeakSanitizer of g++ 12 (what they do not instrument is not observed; '
        'float-cast-overflow is not part of -fsanitize=undefined)',
        'harness/cx_fuzzapi.cpp, cx_newfail.cpp (fork + RLIMIT_CPU/RSS watchdog, replaced operator new), validated on every run by SELFTEST cases',
        'harness/cx_isect.cpp builds synthetic AELs of non-contributing closed edges: IntersectEdges then changes wind counts only']
    ctx.assumptions += [
        'memory safety is claimed for the bounds-checked models (all inputs) and observed on the code for the generated inputs only',
        'signed-overflow reports are violations when all coordinates and |delta| are <= 2^29; above that they are counted (property: "arithmetic is free of signed overflow up to 2^29")',
        'a case that exceeds 10 s CPU / 2 GB RSS is re-run alone with 150 s / 8 GB before it is called a hang (a 3.3M-vertex circle for delta = 2^40 is large, not unbounded)',
        'enum class parameters of the C++ API are given valid enumerators only; invalid values are generated for the uint8 parameters of the C exports',
        'allocation failure is injected through the replaced global operator new (allocations made through malloc directly are not failed)']


def replay(ctx, path):
    d = json.load(open(path))
    rp = d.get('replay') or {}
    kind = rp.get('kind')
    found = {}
    if kind == 'fuzz':
        v = rp.get('variant', 'asan')
        exe = vf.build_cpp(ctx, 'cx_fuzzapi.cpp', v, RECOVER)
        case = dict(line=rp['line'], le29=rp.get('le29'), regime=rp.get('regime'), fam=rp.get('family') or '', op=rp['line'].split()[0])
        res = fuzz_variant(ctx, exe, [case], v, found)
        print('input : %s' % rp['line'][:800])
        print('result: %s %s %dms %s' % (res[0]['status'], res[0]['entry'], res[0]['ms'], res[0]['detail'][:1500]))
    elif kind == 'isect':
        tie_one = vf.build_cpp(ctx, 'cx_isect.cpp', 'asan')
        p = vf.run_lines(tie_one, [rp['line']], env=ENV_TIE, timeout=120)
        print('input : %s' % rp['line'][:800])
        print('impl  : %s %s' % (p.stdout.strip()[:1500], p.stderr[-1500:]))
        if p.returncode != 0 or not p.stdout.startswith('OK'):
            found[d.get('key', 'isect.crash')] = dict(what='still failing: rc=%s %s' % (p.returncode, p.stderr[-300:]), replay=rp)
        else:
            f = fields(p.stdout.strip())
            q = 'ISECT %s %s %s' % (f['cx'][0], ' '.join(f['cx'][1:]), ' '.join(f['nodes']))
            m = vf.run_lines(vf.oracle_build('inversions'), [q]).stdout.strip()
            print('model : %s' % m[:1500])
            sub = {}
            # run the full comparison on the single line
            old = malformed.gen_ael
            try:
                malformed.gen_ael = lambda rng, n: [dict(line=rp['line'], n=int(f['cx'][0]), kind=-1, process=int(rp['line'].split()[1]))]
                tie_inversions(ctx, tie_one, vf.oracle_build('inversions'), 1, sub)
            finally:
                malformed.gen_ael = old
            found.update(sub)
    elif kind == 'addpaths':
        v = rp.get('variant', 'asan')
        exe = vf.build_cpp(ctx, 'cx_addpaths.cpp', v)
        p = vf.run_lines(exe, [rp['line']], env=ENV_TIE, timeout=120)
        m = vf.run_lines(vf.oracle_build('vertexalloc'), [rp['line']]).stdout.strip()
        print('input : %s' % rp['line'][:800])
        print('impl  : %s %s' % (p.stdout.strip()[:1500], p.stderr[-1500:]))
        print('model : %s' % m[:1500])
        if p.returncode != 0 or p.stdout.strip() != m:
            found[d.get('key', 'addpaths.model-mismatch')] = dict(what='still failing (rc=%s)' % p.returncode, replay=rp)
    elif kind == 'newfail':
        v = rp.get('variant', 'asan')
        exe = vf.build_cpp(ctx, 'cx_newfail.cpp', v, RECOVER)
        newfail(ctx, exe, v, [dict(line=rp['line'])], 10 ** 9, 0, found)
        print('input : %s %s' % (rp.get('nf'), rp['line'][:800]))
    else:
        print('replay file carries no input (%s): %s' % (kind, json.dumps(rp)[:600]))
        pr = vf.coq_props(ctx, PID)
        _, errs = build_all(ctx)
        if not pr['ok'] or errs:
            found[d.get('key', 'proof-break')] = dict(what='still broken: %s %s' % ('; '.join(pr['failed'])[:300], list(errs)), replay=rp, nofail=True)
    ctx.count('evaluations', 1)
    for key, v in found.items():
        print('still failing: %s' % v['what'][:600])
        ctx.violation(key, v['what'], replay=v.get('replay', rp), nofail=v.get('nofail', False))
    if not found:
        print('replayed input passes on the current tree')
