"""C01 — boolean operations return the fill-rule x clip-type region (DESIGN 6 C01)."""
import json, os, sys
import vf
sys.path.insert(0, os.path.join(vf.VERIF, 'gen'))
import polys

META = dict(
    text=("Coq theorems over a faithful model of the sweep-line decision logic (wind-count assignment, contribution "
          "table, IntersectEdges winding update and action selection, side assignment) for ALL event histories and all "
          "16 fill-rule x clip-type combinations: contributing edge <=> boundary of the specified region, invariant "
          "preserved by every insert/swap/remove, net winding 0/1 on every scanline; the contribution decision is proved "
          "over the TRANSLATED IsContributingClosed/Open (regenerated from the C++ on every run); a second model of the "
          "ring-assembly primitives (AddLocalMinPoly, AddOutPt, AddLocalMaxPoly, JoinOutrecPaths, SwapOutrecs) with "
          "point conservation and the edge/OutRec coupling invariant over ALL valid operation sequences (partial: the "
          "geometry that produces the event sequence, joins/splits and clean-up are not proved).  The models are tied to "
          "the code by exact correspondence on exhaustively enumerated synthetic AELs, on generated ring operation "
          "sequences driven through the real member functions, and by AEL snapshots of real runs; the whole "
          "API is compared with the Coq-defined winding-number specification on generated general-position inputs "
          "(all options, both precision builds, 7 coordinate regimes) within exactly the stated tolerance."),
    note=("Trusted: Coq kernel; extraction of the specification/oracle; C++ harness with private access; generators. "
          "Proved for the 1-D decision logic and the ring-assembly primitives only; scanbeam geometry, intersection "
          "rounding (incl. the out-of-scanbeam repair of AddNewIntersectNode), joins, splits and clean-up are validated by "
          "sampling against the exact specification (random general-position sets in 7 regimes, nearly horizontal "
          "edges crossed a fraction of a unit from a scanline), not proved."),
    technique='Coq proof (invariant by induction over sweep events) + model/implementation correspondence + spec oracle',
)

CT = {1: 'Intersection', 2: 'Union', 3: 'Difference', 4: 'Xor'}
FR = {0: 'EvenOdd', 1: 'NonZero', 2: 'Positive', 3: 'Negative'}


def gen_cases(ctx, n):
    cases = []
    rng = ctx.rng
    while len(cases) < n:
        flat = rng.chance(1, 4)
        if flat:         # nearly horizontal edges crossed by steep ones, around the origin
            S, C, kinds = polys.gen_flat_precise_case(rng) if rng.chance(2, 3) else polys.gen_flat_case(rng)
        else:
            S, C, kinds = polys.gen_genpos_case(rng)
        reg = polys.REGIMES[len(cases) % len(polys.REGIMES)] if not rng.chance(1, 4) else polys.REGIMES[0]
        if flat and (rng.chance(2, 3) or reg[1] > 2 ** 44):      # flat cases span +-3000: keep them inside +-2^61 after scaling
            reg = polys.REGIMES[0]
        S2, C2, tf = polys.apply_regime(rng, S, C, reg)
        if polys.maxabs([S2, C2]) >= 2 ** 61:
            continue
        probes = flat or rng.chance(2, 5) or tf[0] >= 2 ** 44      # always at the magnitudes where binary64 cannot hold the coordinates
        if probes:      # scanlines right next to edge crossings (see polys.add_scanline_probes)
            S2, C2 = polys.add_scanline_probes(rng, S2, C2, k=tf[0], nmax=3 if tf[0] < 2 ** 40 else 12)
        cases.append(dict(S=S2, C=C2, regime=reg[0] + ('+probes' if probes else ''), k=tf[0], kinds=kinds, base=(S, C)))
    return cases


def bool_line(ct, fr, pc, rs, S, C, tree=0, O=()):
    return 'BOOL %d %d %d %d %d %s %s %s' % (ct, fr, pc, rs, tree, vf.fmt_paths(S), vf.fmt_paths(list(O)), vf.fmt_paths(C))


def parse_bool(line):
    t = line.split()
    if not t or t[0] not in ('ok', 'fail'):
        return None
    closed, pos = vf.parse_paths(t, 1)
    opn, pos = vf.parse_paths(t, pos)
    return dict(ok=t[0] == 'ok', closed=closed, open=opn, rest=t[pos:])


def region_line(case, pts, sols):
    """sols: list of (ct, fr, rev, paths).  All coordinates doubled."""
    cm = polys.maxabs([case['S'], case['C']])
    td = 2 ** 41
    tn = 4 * td + cm            # doubled units: 2*(2 + cm*2^-42)
    parts = ['REGION', str(tn), str(td), vf.fmt_paths(polys.double_paths(case['S'])),
             vf.fmt_paths(polys.double_paths(case['C'])), '%d %s' % (len(pts), vf.fmt_path(pts)), str(len(sols))]
    for ct, fr, rev, out in sols:
        parts.append('%d %d %d %s' % (ct, fr, rev, vf.fmt_paths(polys.double_paths(out))))
    return ' '.join(parts)


def run_api(ctx, cases, exes, G):
    """Run every case under all 16 rule combinations on each build; compare with the specification."""
    oracle = vf.oracle_build('region')
    # 1. confirm general position with the extracted Coq predicate
    gp, fails = vf.par_lines(oracle, ['GENPOS ' + vf.fmt_paths(c['S'] + c['C']) for c in cases])
    if fails:
        raise vf.Infra('oracle GENPOS failed: %s' % fails[0][2])
    kept = [c for c, g in zip(cases, gp) if g.strip() == '1']
    ctx.cov['genpos_rejected_by_coq_predicate'] = len(cases) - len(kept)
    cases = kept
    # 2. implementation runs
    jobs = []   # (case index, build, ct, fr, pc, rs)
    lines = {b: [] for b in exes}
    for ci, c in enumerate(cases):
        for ct in CT:
            for fr in FR:
                pc, rs = ctx.rng.below(2), ctx.rng.below(2)
                for b in exes:
                    jobs.append((ci, b, ct, fr, pc, rs))
                    lines[b].append(bool_line(ct, fr, pc, rs, c['S'], c['C']))
    outs = {}
    for b in exes:
        o, fails = vf.par_lines(exes[b], lines[b])
        if fails:
            sh, rc, err, _ = fails[0]
            l = None
            for f in fails:                      # a crash may depend on heap state: look for a line that fails alone
                l, rc1, err1 = vf.isolate_failure(exes[b], f[0])
                if l:
                    break
            ctx.violation('crash.boolop', 'boolean operation crashed or hung (rc=%s, build %s): %s' % (rc1 if l else rc, b, (err1 or err)[-300:]),
                          replay=dict(build=b, line=l or sh[:20]))
            return
        outs[b] = o
    idx = {b: 0 for b in exes}
    sols = {ci: [] for ci in range(len(cases))}
    for (ci, b, ct, fr, pc, rs) in jobs:
        r = parse_bool(outs[b][idx[b]]); idx[b] += 1
        if r is None:
            ctx.violation('crash.boolop.' + b, 'unparsable harness output: %s' % outs[b][idx[b] - 1][:200],
                          replay=dict(case=cases[ci], ct=ct, fr=fr, pc=pc, rs=rs, build=b))
            continue
        if not r['ok']:
            ctx.violation('execute-returned-false', 'Execute returned false (%s %s, build %s)' % (CT[ct], FR[fr], b),
                          replay=dict(S=cases[ci]['S'], C=cases[ci]['C'], ct=ct, fr=fr, pc=pc, rs=rs, build=b))
        sols[ci].append((ct, fr, rs, r['closed'], pc, b))
        ctx.count('evaluations')
        ctx.hist('solution_paths', min(len(r['closed']), 6))
    # 3. specification comparison
    rl, meta = [], []
    for ci, c in enumerate(cases):
        pts = polys.sample_points_doubled(ctx.rng, c['S'], c['C'], G, k=c['k'])
        rl.append(region_line(c, pts, [(ct, fr, rs, out) for (ct, fr, rs, out, pc, b) in sols[ci]]))
        meta.append(len(pts))
        ctx.hist('regime', c['regime'])
        ctx.hist('input_edges', min(40, sum(len(p) for p in c['S'] + c['C'])) // 5 * 5)
        ctx.hist('kinds', '%s/%s' % c['kinds'])
    res, fails = vf.par_lines(oracle, rl, chunk=1, timeout=1500)
    if fails:
        raise vf.Infra('region oracle failed: %s' % (fails[0][2] or fails[0][3])[:500])
    nontrivial = set()
    for ci, (c, line) in enumerate(zip(cases, res)):
        parts = line.split('|')
        nfar = int(parts[0])
        ctx.count('sample_points_total', meta[ci])
        ctx.count('sample_points_far', nfar)
        for (ct, fr, rs, out, pc, b), r in zip(sols[ci], parts[1:]):
            t = r.split()
            if out:
                nontrivial.add((ci, ct, fr))
            if int(t[0]) != 0:
                q = (int(t[1]) / 2.0, int(t[2]) / 2.0)
                ctx.violation('region-mismatch',
                              '%s/%s pc=%d rs=%d build=%s regime=%s: solution winding differs from the specification '
                              'at %d sample points, e.g. (%s, %s)' % (CT[ct], FR[fr], pc, rs, b, c['regime'], int(t[0]), q[0], q[1]),
                              replay=dict(S=c['S'], C=c['C'], ct=ct, fr=fr, pc=pc, rs=rs, build=b, point=q, solution=out))
    ctx.cov['distinct_nontrivial'] = ctx.cov.get('distinct_nontrivial', 0) + len(nontrivial)
    if cases:
        c = cases[0]
        ctx.sample(dict(S=c['S'], C=c['C'], regime=c['regime'], options='all 16 clip type x fill rule, random pc/rs, builds ' + ','.join(exes)))


# ----------------------------------------------------------------------------- model <-> code tie
def rand_edge(rng, allow_open=True):
    opn = allow_open and rng.chance(1, 6)
    pt = 0 if opn else rng.below(2)
    d = rng.choice([1, -1])
    wc = rng.range(-3, 3)
    wc2 = rng.range(-2, 2)
    hot = rng.choice([0, 0, 1, 2])
    return (pt, d, wc, wc2, hot, 1 if opn else 0)


def fmt_edge(e):
    return '%d %d %d %d %d %d' % e


def kernel_tie(ctx, exe, n_swc, n_isect):
    """Exact correspondence between the extracted Sweep1D model and the real SetWindCountFor*PathEdge,
    IsContributing*, IntersectEdges on synthetic AELs (private access, no hooks)."""
    oracle = vf.oracle_build('sweep')
    rng = ctx.rng.fork(7)
    lines = []
    for _ in range(n_swc):
        n = rng.range(0, 6)
        es = [rand_edge(rng) for _ in range(n)]
        pos = rng.range(0, n)
        opn = rng.chance(1, 5)
        lines.append('SWC %d %d %d %s %d %d %d %d' % (rng.range(1, 4), rng.range(0, 3), n, ' '.join(fmt_edge(e) for e in es),
                                                      pos, 0 if opn else rng.below(2), rng.choice([1, -1]), 1 if opn else 0))
    # IntersectEdges: structured enumeration of the decision-relevant space + random fill
    isect = []
    for ct in (1, 2, 3, 4):
        for fr in (0, 1, 2, 3):
            for _ in range(n_isect // 16):
                e1 = rand_edge(rng)
                e2 = rand_edge(rng)
                if fr == 0:   # EvenOdd keeps |wc| = 1 and wc2 in {0,1} for closed edges
                    if not e1[5]:
                        e1 = (e1[0], e1[1], rng.choice([1, -1]), rng.below(2), e1[4], 0)
                    if not e2[5]:
                        e2 = (e2[0], e2[1], rng.choice([1, -1]), rng.below(2), e2[4], 0)
                same = 1 if (e1[4] and e2[4] and e1[4] != e2[4] and not e1[5] and not e2[5] and rng.chance(1, 2)) else 0
                ph = rng.below(3)
                isect.append('ISECT %d %d %d %d %s %s' % (ct, fr, same, ph, fmt_edge(e1), fmt_edge(e2)))
    lines += isect
    impl, f1 = vf.par_lines(exe, lines)
    if f1:
        l, rc, err = vf.isolate_failure(exe, f1[0][0])
        ctx.violation('tie-break:sweep-kernel-crash', 'real engine kernel crashed on a synthetic AEL (rc=%s): %s' % (rc, err[-300:]),
                      replay=dict(line=l), nofail=True)
        return False
    model, f2 = vf.par_lines(oracle, lines)
    if f2:
        raise vf.Infra('sweep oracle failed: %s' % f2[0][2][-500:])
    def norm(x):
        t = x.split()
        return ['fail'] if t and t[0] == 'fail' else t
    bad = [(l, a, b) for l, a, b in zip(lines, impl, model) if norm(a) != norm(b)]
    ctx.cov['kernel_tie_cases'] = len(lines)
    ctx.cov['kernel_tie_disagreements'] = len(bad)
    ctx.hist('kernel_tie_kinds', 'SWC', n_swc)
    ctx.hist('kernel_tie_kinds', 'ISECT', len(isect))
    acts = {}
    for l, a in zip(lines, impl):
        if l.startswith('ISECT'):
            acts[a.split()[0]] = acts.get(a.split()[0], 0) + 1
    ctx.cov['kernel_tie_isect_outcomes'] = acts
    if bad:
        ctx.cov['kernel_tie_first_disagreements'] = [dict(case=l, impl=a, model=b) for l, a, b in bad[:5]]
        ctx.tie_broken = bad[:20]
        return False
    return True


# ----------------------------------------------------------------------------- ring assembly tie (coq/model/Rings.v)
def gen_ring_ops(rng, n):
    """a valid operation sequence for cx_ringasm: hotness of the eight edges is tracked exactly (AddLocalMinPoly makes
    both edges hot, a non-failing AddLocalMaxPoly makes both cold, SwapOutrecs exchanges hotness)"""
    hot, ops = set(), []
    for _ in range(n):
        r = rng.below(10)
        cold = [e for e in range(8) if e not in hot]
        pt = '%d %d' % (rng.range(-3, 3), rng.range(-3, 3))
        if r < 3 and len(cold) >= 2:
            rng.shuffle(cold)
            ops.append('M %d %d %s %d' % (cold[0], cold[1], pt, rng.below(2)))
            hot |= {cold[0], cold[1]}
        elif r < 7 and hot:
            ops.append('A %d %s' % (rng.choice(sorted(hot)), pt))
        elif r < 9 and len(hot) >= 2:
            h = sorted(hot)
            rng.shuffle(h)
            ops.append('X %d %d %s' % (h[0], h[1], pt))
            hot -= {h[0], h[1]}
        else:
            es = list(range(8))
            rng.shuffle(es)
            a, b = es[0], es[1]
            if a not in hot and b not in hot:      # SwapOutrecs dereferences a null OutRec then; the engine never does that
                continue
            ops.append('S %d %d' % (a, b))
            ha, hb = a in hot, b in hot
            hot -= {a, b}
            if ha:
                hot.add(b)
            if hb:
                hot.add(a)
    return 'RA %d %s' % (len(ops), ' '.join(ops))


def ring_tie(ctx, n):
    """Exact correspondence between the extracted ring-assembly model and the real AddLocalMinPoly / AddOutPt /
    AddLocalMaxPoly / JoinOutrecPaths / SwapOutrecs (ASan+UBSan build, private access)."""
    try:
        exe = vf.build_cpp(ctx, 'cx_ringasm.cpp', 'asan')
    except vf.BuildFailure as e:
        ctx.violation('tie-break:cx_ringasm', 'ring-assembly harness no longer builds: %s' % str(e)[-600:],
                      replay=dict(error=str(e)[-2000:]), nofail=True)
        return
    oracle = vf.oracle_build('rings')
    rng = ctx.rng.fork(11)
    lines = [gen_ring_ops(rng, rng.range(1, 40)) for _ in range(n)]
    impl, f1 = vf.par_lines(exe, lines, timeout=300)
    if f1:
        l, rc, err = vf.isolate_failure(exe, f1[0][0])
        ctx.violation('crash.ring-assembly', 'ring assembly primitives crashed / sanitizer report on a valid operation sequence (rc=%s): %s' % (rc, (err or f1[0][2])[-400:]),
                      replay=dict(kind='ringasm', line=l or f1[0][0][:5]))
        return
    model, f2 = vf.par_lines(oracle, lines)
    if f2:
        raise vf.Infra('rings oracle failed: %s' % f2[0][2][-500:])
    bad = [(l, a, b) for l, a, b in zip(lines, impl, model) if a.split() != b.split()]
    ctx.cov['ring_tie_cases'] = len(lines)
    ctx.cov['ring_tie_disagreements'] = len(bad)
    ctx.cov['ring_tie_outcomes'] = dict(ok=sum(1 for a in impl if a.startswith('OK')), fail=sum(1 for a in impl if a.startswith('FAIL')))
    if bad:
        bad.sort(key=lambda x: len(x[0]))
        l, a, b = bad[0]
        ctx.cov['ring_tie_first_disagreement'] = dict(case=l, impl=a, model=b)
        ctx.violation('tie-break:Rings', 'ring assembly model (coq/model/Rings.v) and the engine disagree on %d of %d operation '
                      'sequences, e.g. `%s`: engine `%s` model `%s`' % (len(bad), len(lines), l[:200], a[:200], b[:200]),
                      replay=dict(kind='ringasm', line=l, impl=a, model=b), nofail=True)


def execute_internal_hash():
    """token hash of ClipperBase::ExecuteInternal's body: the SNAP driver replicates it"""
    import re, hashlib
    src = vf.read(os.path.join(vf.SRC, 'clipper.engine.cpp'))
    m = re.search(r'bool ClipperBase::ExecuteInternal\(.*?\n  \}\n', src, flags=re.S)
    if not m:
        return None
    body = re.sub(r'//[^\n]*', '', m.group(0))
    return hashlib.sha256(''.join(body.split()).encode()).hexdigest()[:16]


EXECUTE_INTERNAL_HASH = '0d7de3b394c3b430'


def snapshots(ctx, exe, cases):
    """Drive ExecuteInternal's loop step by step on real inputs and evaluate the proved invariant inv_b on the
    AEL between phases (general position: no joins)."""
    oracle = vf.oracle_build('sweep')
    h = execute_internal_hash()
    if h != EXECUTE_INTERNAL_HASH:
        ctx.notes.append('ExecuteInternal body changed (token hash %s != %s): snapshot driver is stale' % (h, EXECUTE_INTERNAL_HASH))
        ctx.snap_stale = True
        return
    lines, meta = [], []
    for ci, c in enumerate(cases):
        for ct in CT:
            fr = (ci + ct) % 4
            lines.append('SNAP %d %d %s %s %s' % (ct, fr, vf.fmt_paths(c['S']), vf.fmt_paths([]), vf.fmt_paths(c['C'])))
            meta.append((ci, ct, fr))
    outs, fails = vf.par_lines(exe, lines)
    if fails:
        l, rc, err = vf.isolate_failure(exe, fails[0][0])
        ctx.violation('crash.stepped-execute', 'stepped ExecuteInternal crashed (rc=%s): %s' % (rc, err[-300:]), replay=dict(line=l))
        return
    inv_lines = []
    nsnap = 0
    for (ci, ct, fr), o in zip(meta, outs):
        t = o.split()
        k = int(t[1]); pos = 2; snaps = []
        for _ in range(k):
            n = int(t[pos]); pos += 1
            es = []
            has_join = False
            for _ in range(n):
                pt, d, wc, wc2, hot, opn, joined = t[pos:pos + 7]; pos += 7
                has_join = has_join or joined != '0'
                es.append('%s %s %s %s %s %s' % (pt, d, wc, wc2, hot, opn))
            if has_join:
                # joined edges (CheckJoinLeft/Right) are deliberately not hot while contributing: outside the model's
                # invariant (DESIGN C02), so such a snapshot is counted, not judged
                ctx.count('ael_snapshots_with_joined_edges_not_judged')
                snaps.append('0')
            else:
                snaps.append('%d %s' % (n, ' '.join(es)))
        nsnap += k
        inv_lines.append('INV %d %d %d %s' % (ct, fr, k, ' '.join(snaps)))
    res, fails = vf.par_lines(oracle, inv_lines)
    if fails:
        raise vf.Infra('sweep oracle INV failed: %s' % fails[0][2][-500:])
    ctx.cov['ael_snapshots_checked'] = nsnap
    for (ci, ct, fr), r, l in zip(meta, res, lines):
        flags = r.split()
        if '0' in flags:
            c = cases[ci]
            ctx.violation('sweep-invariant-violated',
                          'AEL snapshot %d of a real run (%s/%s, regime %s) violates the proved sweep invariant '
                          '(wind counts / hot flags / sides inconsistent with the region)' % (flags.index('0'), CT[ct], FR[fr], c['regime']),
                          replay=dict(S=c['S'], C=c['C'], ct=ct, fr=fr, pc=0, rs=0, build='plain', snap=flags.index('0')))


def run(ctx):
    pr = vf.coq_props(ctx, 'C01')
    exes = {}
    try:
        exes['plain'] = vf.build_cpp(ctx, 'cx_bool.cpp', 'plain')
        exes['hi'] = vf.build_cpp(ctx, 'cx_bool.cpp', 'hi')
    except vf.BuildFailure as e:
        ctx.violation('tie-break:cx_bool', 'boolean harness no longer builds: %s' % str(e)[-600:], replay=dict(error=str(e)[-2000:]), nofail=True)
        return
    n = 420 if ctx.quick else 900
    G = 20 if ctx.quick else 40
    broken = not pr['ok']
    if broken:
        n *= 4   # search budget after a proof/tie break
    ctx.tie_broken = None
    ctx.snap_stale = False
    tie_ok = True
    try:
        sweep_exe = vf.build_cpp(ctx, 'cx_sweep.cpp', 'plain')
        tie_ok = kernel_tie(ctx, sweep_exe, 20000 if ctx.quick else 200000, 160000 if ctx.quick else 1500000)
    except vf.BuildFailure as e:
        sweep_exe = None
        tie_ok = False
        ctx.tie_broken = [('cx_sweep.cpp does not build', str(e)[-800:], '')]
    if not tie_ok:
        n *= 4
    ring_tie(ctx, 20000 if ctx.quick else 400000)
    cases = gen_cases(ctx, n)
    if sweep_exe and tie_ok:
        snapshots(ctx, sweep_exe, cases)
    run_api(ctx, cases, exes, G)
    if (not tie_ok or ctx.snap_stale) and not ctx.violations:
        what = ('Sweep1D model and engine kernels disagree on synthetic AELs, e.g. %s' % (ctx.tie_broken[0],)
                if ctx.tie_broken else 'ExecuteInternal changed: stepped driver stale')
        ctx.violation('tie-break:Sweep1D', what[:900], replay=dict(disagreements=ctx.tie_broken, note='correspondence model<->engine no longer checks'), nofail=True)
    ctx.cov['rule'] = ('random closed subject/clip sets (8 shape families) accepted by the extracted Coq predicate general_position, '
                       'scaled/translated exactly into 7 coordinate regimes up to 2^61; each run under all 16 clip type x fill rule '
                       'combinations with random PreserveCollinear/ReverseSolution on the default and CLIPPER2_HI_PRECISION builds; '
                       'non-trivial = distinct (case, clip type, fill rule) with a non-empty solution; every sample point farther than '
                       '2 + |coord|*2^-42 from all input edges must have net solution winding = +-[in specified region]')
    ctx.assumptions += ['sampling: the points quantifier is covered by a grid + neighbourhoods of vertices/crossings, not by a theorem',
                        'general position as decided by base/GenPos.v']
    if broken and not ctx.violations:
        ctx.violation('proof-break:Properties_C01', 'Properties_C01 no longer checks: %s' % '; '.join(pr['failed'])[:800],
                      replay=dict(failed=pr['failed'], log=pr['log'][-2000:]), nofail=True)


def replay(ctx, path):
    r = json.load(open(path))['replay']
    exe = vf.build_cpp(ctx, 'cx_bool.cpp', r.get('build', 'plain'))
    p = vf.run_lines(exe, [bool_line(r['ct'], r['fr'], r['pc'], r['rs'], [list(map(tuple, p)) for p in r['S']], [list(map(tuple, p)) for p in r['C']])])
    print(p.stdout)
    case = dict(S=[list(map(tuple, p)) for p in r['S']], C=[list(map(tuple, p)) for p in r['C']], k=1, regime='replay', kinds=(0, 0))
    run_one = parse_bool(p.stdout.strip())
    oracle = vf.oracle_build('region')
    pts = polys.sample_points_doubled(ctx.rng, case['S'], case['C'], 40)
    if 'point' in r:
        pts.append((int(r['point'][0] * 2), int(r['point'][1] * 2)))
    out = vf.run_lines(oracle, [region_line(case, pts, [(r['ct'], r['fr'], r['rs'], run_one['closed'])])]).stdout
    print(out)
    ctx.count('evaluations'); ctx.cov['distinct_nontrivial'] = 2
    if out.split('|')[1].split()[0] != '0':
        ctx.violation('region-mismatch', 'replayed mismatch', replay=r)
