"""C20 - path utilities keep their contracts.

prove      coq/props/Properties_C20.v (theorems about the faithful models in coq/model/PathUtils.v)
correspond harness/cx_pathutils.cpp calls the real TrimCollinear / SimplifyPath / RamerDouglasPeucker+RDP / StripDuplicates /
           StripNearEqual / GetBounds / TranslatePath / Length / Ellipse / PerpendicDistFromLineSqrd / IsCollinear;
           bin/oracle_pathutils (extracted models + extracted specification predicates, oracle/drv_pathutils.ml) reads
           "<request> = <implementation response>" lines and reports
             corr:<what>        model and implementation differ (exact, doubles bitwise)            -> tie break
             prop:<key>:<what>  the implementation's output violates a clause of the property itself -> violation `key`
decide     a prop item is a violation with the (smallest) input as replay; corr items without any property violation trigger
           the search (next larger exhaustive scope for the affected function) and are then reported no-failing-input-found.
"""
import json, math, os, re, subprocess, sys, time
import concurrent.futures as cf
import vf

PID = 'C20'
META = dict(
    text='TrimCollinear/SimplifyPath/RamerDouglasPeucker return an in-order subsequence, keep open end points, TrimCollinear keeps '
         'the area and leaves exactly the corners, RDP keeps removed vertices within epsilon of the chord of their surviving '
         'neighbours, SimplifyPath leaves no removable vertex; StripDuplicates, StripNearEqual, TranslatePath, Ellipse, Length, '
         'GetBounds satisfy their defining equations.',
    note='Coq theorems about index-based, bounds-checked models of the loops (coq/model/PathUtils.v), tied to the C++ by exact '
         'comparison on all paths of <=5 (thorough <=6) points over a 4x4 lattice for every epsilon of the grid (quick tier: two epsilons '
         'for SimplifyPath on 5-point paths), open and closed, '
         'plus seeded longer paths with |coordinates| up to 2^40; the property clauses themselves are evaluated on the '
         "implementation's outputs with predicates extracted from Coq. The models mirror clipper.h with the four C20 repairs "
         '(RDP end handling, SimplifyPath 3-point paths and epsilon^2 clamp, TrimCollinear open 2-point path). StripNearEqual / '
         'StripDuplicates: all paths of <=4 (thorough <=5) lattice points x 6 tolerances, and seeded fan shapes (several vertices '
         'within the tolerance of the first vertex but not of one another) for the Path64, PathD, Paths64 and PathsD overloads.',
    technique='Coq proof (models of the loops) + exact model/implementation correspondence + extracted specification predicates',
    category='proof')

EPS_GRID = [0.0, 0.5, 1.0, 2.0, 10.0, 1e9]
L = 4


def hx(d):
    return float(d).hex()


def fmt_path(p):
    return ' '.join([str(len(p))] + ['%d %d' % (x, y) for x, y in p])


# ----------------------------------------------------------------------------- generators
def gen_path(r, n, kind, scale):
    """kinds: walk (random lattice walk with collinear runs), dup (repeated points), spike (a-b-a), ring (first==last),
    rand (uniform), line (all collinear)."""
    pts = []
    if kind == 'rand':
        pts = [(r.range(-8, 8), r.range(-8, 8)) for _ in range(n)]
    elif kind == 'line':
        dx, dy = r.range(-2, 2), r.range(-2, 2)
        t = 0
        for _ in range(n):
            t += r.range(-1, 3)
            pts.append((t * dx, t * dy))
    else:
        x, y = r.range(-5, 5), r.range(-5, 5)
        dx, dy = 1, 0
        while len(pts) < n:
            if r.chance(1, 3):
                dx, dy = r.range(-3, 3), r.range(-3, 3)
            run = r.range(1, 4)
            for _ in range(run):
                if len(pts) >= n:
                    break
                pts.append((x, y))
                if kind == 'dup' and r.chance(1, 4) and len(pts) < n:
                    pts.append((x, y))
                if kind == 'spike' and r.chance(1, 5) and len(pts) + 1 < n:
                    k = r.range(1, 3)
                    pts.append((x + k * dy, y - k * dx))
                    pts.append((x, y))
                x, y = x + dx, y + dy
        pts = pts[:n]
        if kind == 'ring' and len(pts) >= 2:
            pts[-1] = pts[0]
            if r.chance(1, 3) and len(pts) > 4:
                pts[r.range(1, len(pts) - 2)] = pts[0]
    if scale != 1:
        ox, oy = (r.range(-scale, scale) * 7, r.range(-scale, scale) * 7) if scale > 1 else (0, 0)
        pts = [(px * scale + ox, py * scale + oy) for px, py in pts]
    return pts


def random_requests(ctx, n_cases):
    r = ctx.rng.fork(1)
    reqs = []
    kinds = ['walk', 'dup', 'spike', 'ring', 'rand', 'line']
    scales = [1, 1, 1, 10, 1000, 1 << 20, (1 << 40) // 64]
    for i in range(n_cases):
        kind = r.choice(kinds)
        n = r.choice([5, 6, 7, 8, 9, 10, 12, 15, 20, 30, 40]) if not r.chance(1, 40) else r.range(60, 150)
        if r.chance(1, 15):
            n = r.range(0, 4)
        scale = r.choice(scales)
        p = gen_path(r, n, kind, scale)
        ctx.hist('random_kind', kind)
        ctx.hist('random_len', '0-4' if n < 5 else '5-10' if n <= 10 else '11-40' if n <= 40 else '41+')
        ctx.hist('random_scale', 'x%d' % scale if scale < (1 << 20) else 'x2^%d' % int(round(math.log2(scale))))
        ps = fmt_path(p)
        eps = r.choice(EPS_GRID + [scale * 0.7, scale * 1.5, scale * 3.0, 1e200, 1e-3, scale * 0.25, 1.3407807929942597e154, float('inf')])
        what = r.below(10)
        if what < 3:
            reqs.append('TRIM %d %s' % (r.below(2), ps))
        elif what < 6:
            reqs.append('SIMP %s %d %s' % (hx(eps), r.below(2), ps))
        elif what < 9:
            reqs.append('RDP %s %s' % (hx(eps), ps))
        else:
            c = r.below(2)
            reqs.append('SDUP %d %s' % (c, ps))
            reqs.append('SNEAR %s %d %s' % (hx((scale * r.choice([0.0, 1.0, 1.5, 2.0, 3.0])) ** 2), c, ps))
            reqs.append('BOUNDS %s' % ps)
            reqs.append('TRANS %d %d %s' % (r.range(-1 << 41, 1 << 41), r.range(-1 << 41, 1 << 41), ps))
            reqs.append('LEN %d %s' % (c, ps))
    return reqs


def fmt_pathd(p):
    return ' '.join([str(len(p))] + ['%s %s' % (hx(x), hx(y)) for x, y in p])


def fan_requests(ctx, n_shapes):
    """StripNearEqual / StripDuplicates shapes: a first vertex, optionally 1-3 leading vertices near it, a ring of far
    vertices (one of them with its own satellites), and 2-4 trailing vertices on a circle of radius < tolerance around the
    FIRST vertex, spread so that they are pairwise farther apart than the tolerance (the forward pass keeps them all, the
    closed clean-up has to pop every one of them).  Open and closed, Path64 / PathD / Paths overloads, max_dist_sqrd
    = (tol * {0, 0.5, 1, 1.5, 3})^2; the same shapes with exact copies of the first vertex for StripDuplicates."""
    r = ctx.rng.fork(3)
    reqs = []

    def circle(cx, cy, rad, cnt, phase):
        return [(cx + rad * math.cos(phase + 2 * math.pi * i / cnt), cy + rad * math.sin(phase + 2 * math.pi * i / cnt)) for i in range(cnt)]

    def shape(tol):
        fx, fy = r.range(-40, 40) * tol * 3.0, r.range(-40, 40) * tol * 3.0
        p = [(fx, fy)]
        lead = r.choice([0, 0, 1, 2, 3])
        if lead:
            p += circle(fx, fy, tol * r.choice([0.6, 0.8, 0.95]), lead, r.range(0, 628) / 100.0)
        k = r.range(1, 5)
        body = circle(fx, fy, tol * r.choice([12.0, 30.0]), k + 1, r.range(0, 628) / 100.0)[:k]
        sat = r.range(0, k - 1) if r.chance(1, 2) else -1
        for j, b in enumerate(body):
            p.append(b)
            if j == sat:
                p += circle(b[0], b[1], tol * 0.8, r.range(2, 3), r.range(0, 628) / 100.0)
        trail = r.choice([1, 2, 2, 3, 3, 4])
        p += circle(fx, fy, tol * r.choice([0.75, 0.9, 0.99]), trail, r.range(0, 628) / 100.0)
        ctx.hist('fan_trailing', trail)
        ctx.hist('fan_leading', lead)
        return p

    def to_int(p):
        return [(int(round(x)), int(round(y))) for x, y in p]
    for i in range(n_shapes):
        tol = r.choice([2.0, 5.0, 5.0, 50.0, 1000.0, float(1 << 30)])
        p = shape(tol)
        d2 = (tol * r.choice([0.0, 0.5, 1.0, 1.0, 1.0, 1.5, 3.0])) ** 2
        ctx.hist('fan_tol', 'tol=%g' % tol)
        for c in (0, 1):
            reqs.append('SNEAR %s %d %s' % (hx(d2), c, fmt_path(to_int(p))))
            small = [(x / tol / 8.0, y / tol / 8.0) for x, y in p]            # PathD with tolerance 1/8
            reqs.append('SNEARD %s %d %s' % (hx(d2 / tol / tol / 64.0), c, fmt_pathd(small)))
            if i % 4 == 0:
                others = [to_int(shape(tol)) for _ in range(r.range(0, 2))] + r.choice([[], [[]], [[(3, 4)]]])
                ps = [to_int(p)] + others
                reqs.append('SNEARS %s %d %d %s' % (hx(d2), c, len(ps), ' '.join(fmt_path(q) for q in ps)))
                psd = [small, [(x + 0.25, y - 0.5) for x, y in small]]
                reqs.append('SNEARSD %s %d %d %s' % (hx(d2 / tol / tol / 64.0), c, len(psd), ' '.join(fmt_pathd(q) for q in psd)))
        # control: the same skeleton with exact copies of the first vertex (and of a middle vertex) for StripDuplicates
        ip = to_int(p)
        f0 = ip[0]
        body = [q for q in ip if (q[0] - f0[0]) ** 2 + (q[1] - f0[1]) ** 2 > (3 * tol) ** 2] or [(f0[0] + 7, f0[1])]
        dup = [f0] * r.range(1, 3) + body[:1] * r.range(1, 3) + body[1:] + [f0] * r.range(1, 4)
        if r.chance(1, 3):
            dup = dup[:-1] + [body[0], f0]
        for c in (0, 1):
            reqs.append('SDUP %d %s' % (c, fmt_path(dup)))
            if i % 4 == 0:
                reqs.append('SDUPS %d 3 %s %s %s' % (c, fmt_path(dup), fmt_path(ip), fmt_path([f0, f0])))
    return reqs


def dbl_requests(ctx, n_cases):
    """The double-precision instantiations and the Paths overloads (SimplifyPath<double>, RDP<double>, TranslatePath<double>,
    StripDuplicates<double>, TrimCollinear(PathD, precision), Ellipse(Rect), TransformPath): every 0..3-point path over the
    4x4 lattice scaled by 1/8 (exact binary64 arithmetic) for SimplifyPath<double>, and seeded paths of all kinds both on
    the 1/8 lattice and off it (x 0.1, x 1/3: inexact differences and products), compared bit for bit with the models."""
    r = ctx.rng.fork(4)
    reqs = []
    import itertools
    cells = [(x / 8.0, y / 8.0) for y in range(L) for x in range(L)]
    for n in range(0, 4):
        for p in itertools.product(cells, repeat=n):
            for eps in (0.0, 0.125, 0.25):
                reqs.append('SIMPD %s %d %s' % (hx(eps), (len(reqs) & 1), fmt_pathd(p)))
    kinds = ['walk', 'dup', 'spike', 'ring', 'rand', 'line']
    for i in range(n_cases):
        kind = r.choice(kinds)
        n = r.choice([0, 1, 2, 3, 4, 5, 5, 6, 7, 8, 10, 15, 30])
        ip = gen_path(r, n, kind, 1)
        f = r.choice([0.125, 0.125, 0.25, 0.1, 1.0 / 3.0, 1e-3, 7.0, 1 << 20])
        ctx.hist('double_factor', 'lattice' if f in (0.125, 0.25, 7.0, 1 << 20) else 'inexact')
        p = [(x * f, y * f) for x, y in ip]
        ps = fmt_pathd(p)
        eps = r.choice([0.0, 0.5, 1.0, 2.0, 10.0, 0.7, 1e200, float('inf')]) * f
        c = r.below(2)
        what = r.below(8)
        if what < 2:
            reqs.append('SIMPD %s %d %s' % (hx(eps), c, ps))
        elif what < 4:
            reqs.append('RDPD %s %s' % (hx(eps), ps))
        elif what == 4:
            prec = r.choice([0, 1, 2, 2, 3, 5, 8, -1, -2])
            reqs.append('TRIMD %d %d %s' % (prec, c, ps))
            reqs.append('TRIMD %d %d %s' % (2, c, fmt_pathd([(x * 0.01 * r.choice([1, 1, 25, 50]), y * 0.01) for x, y in ip])))
        elif what == 5:
            reqs.append('SDUPD %d %s' % (c, ps))
            reqs.append('TRANSD %s %s %s' % (hx(r.range(-1000, 1000) * f), hx(r.range(-1000, 1000) / 7.0), ps))
            reqs.append('TFDI %s' % fmt_pathd([(x * f * r.choice([1, 0.5, 1.5]), y * f) for x, y in ip]))
            reqs.append('TFID %s' % fmt_path([(x << r.choice([0, 30, 55]), y * 3) for x, y in ip]))
        elif what == 6:
            others = [[(x * f, y * f) for x, y in gen_path(r, r.choice([0, 1, 3, 5, 6, 9]), r.choice(kinds), 1)] for _ in range(r.range(0, 2))]
            psd = '%d %s' % (1 + len(others), ' '.join(fmt_pathd(q) for q in [p] + others))
            reqs.append('SIMPSD %s %d %s' % (hx(eps), c, psd))
            reqs.append('RDPSD %s %s' % (hx(eps), psd))
            reqs.append('SDUPSD %d %s' % (c, psd))
            reqs.append('TRANSSD %s %s %s' % (hx(0.1), hx(-3.5), psd))
        else:
            others = [gen_path(r, r.choice([0, 2, 5, 7]), r.choice(kinds), 1) for _ in range(r.range(0, 2))]
            pss = '%d %s' % (1 + len(others), ' '.join(fmt_path(q) for q in [ip] + others))
            ieps = r.choice(EPS_GRID)
            reqs.append('SIMPS %s %d %s' % (hx(ieps), c, pss))
            reqs.append('RDPS %s %s' % (hx(ieps), pss))
            reqs.append('TRANSS %d %d %s' % (r.range(-1 << 40, 1 << 40), r.range(-99, 99), pss))
            reqs.append('TFIDS %s' % pss)
    for _ in range(max(60, n_cases // 20)):
        l, t = r.range(-1000, 1000), r.range(-1000, 1000)
        w, h = r.choice([0, 1, 2, 7, 20, 21, 333, 5000]), r.choice([0, 1, 3, 11, 40, 5001])
        if r.chance(1, 8):
            w = -w
        steps = r.choice([0, 0, 1, 3, 4, 5, 8, 17, 64])
        reqs.append('ELLR %d %d %d %d %d' % (l, t, l + w, t + h, steps))
        fl, ft = l / 8.0, t * 0.1
        reqs.append('ELLRD %s %s %s %s %d' % (hx(fl), hx(ft), hx(fl + w * 0.3), hx(ft + h / 4.0), steps))
    return reqs


def leaf_requests(ctx, n):
    """scalar leaves: float self-test, PerpendicDistFromLineSqrd, IsCollinear, Ellipse"""
    r = ctx.rng.fork(2)
    reqs = []

    def rf():
        m = r.range(0, (1 << 53) - 1)
        e = r.range(-60, 60)
        v = math.ldexp(m, e - 52)
        return -v if r.chance(1, 2) else v
    for _ in range(n):
        a, b = rf(), rf()
        if r.chance(1, 10):
            b = a
        reqs.append('FSELF %s %s' % (hx(abs(a)), hx(b)))
    mags = [3, 10, 1000, 1 << 20, 1 << 40, 1 << 53, 1 << 62]
    for _ in range(n):
        m = r.choice(mags)
        v = [r.range(-m, m) // 2 for _ in range(6)]
        if r.chance(1, 4):            # exactly collinear triple
            k1, k2 = r.range(-3, 3), r.range(-3, 3)
            dx, dy = r.range(-m, m) // 16, r.range(-m, m) // 16
            bx, by = r.range(-m, m) // 4, r.range(-m, m) // 4
            v = [bx, by, bx + k1 * dx, by + k1 * dy, bx + k2 * dx, by + k2 * dy]
        if r.chance(1, 12):
            v[4], v[5] = v[2], v[3]   # degenerate line
        reqs.append('PD ' + ' '.join(map(str, v)))
        reqs.append('COL ' + ' '.join(map(str, v)))
    for _ in range(max(40, n // 40)):
        rx = r.choice([0.0, -1.0, 0.3, 1.0, 2.5, 10.0, 100.0, 1234.5, 1e4, r.range(1, 5000) / 7.0])
        ry = r.choice([0.0, 0.0, -2.0, 1.0, 7.25, 300.0, r.range(1, 5000) / 3.0])
        steps = r.choice([0, 0, 1, 2, 3, 4, 5, 8, 17, 64, 100, 361])
        cx, cy = r.range(-10 ** 6, 10 ** 6), r.range(-10 ** 6, 10 ** 6)
        if r.chance(1, 5):
            cx, cy = cx << 20, cy << 20
        reqs.append('ELL %d %d %s %s %d' % (cx, cy, hx(rx), hx(ry), steps))
        reqs.append('ELLD %s %s %s %s %d' % (hx(cx / 8.0), hx(cy / 8.0), hx(rx), hx(ry), steps))
    return reqs


# ----------------------------------------------------------------------------- running
class Results:
    """per failure key (property key or corr.<cmd>): count and the smallest failing input"""
    def __init__(self):
        self.lines = 0
        self.nontrivial = 0
        self.nfail = 0
        self.prop = {}          # key -> [count, (size, line, what)]
        self.corr = {}          # cmd -> [count, (size, line, what, has_new_prop)]

    def add_fail(self, items, line):
        self.nfail += 1
        sz = None
        seen = set()
        for it in items.split('|'):
            if it.startswith('prop:'):
                _, key, what = it.split(':', 2)
                e = self.prop.setdefault(key, [0, None])
            elif it.startswith('corr:'):
                key, what = (line.split()[0].lower() if line.split() else '?'), it[5:]
                e = self.corr.setdefault(key, [0, None])
            else:
                raise vf.Infra('unexpected oracle item %r' % it)
            if key in seen:
                continue
            seen.add(key)
            e[0] += 1
            if sz is None:
                sz = req_size(line)
            if e[1] is None or sz < e[1][0]:
                e[1] = (sz, line, what)

    def merge(self, o):
        self.lines += o.lines
        self.nontrivial += o.nontrivial
        self.nfail += o.nfail
        for mine, theirs in ((self.prop, o.prop), (self.corr, o.corr)):
            for k, (c, best) in theirs.items():
                e = mine.setdefault(k, [0, None])
                e[0] += c
                if e[1] is None or best[0] < e[1][0]:
                    e[1] = best


def run_enum(ctx, exe, orc, what, n, res, lattice=L, every=1):
    """all paths of exactly n points over the lattice, piped shard by shard through harness | oracle -q"""
    total = (lattice * lattice) ** n
    nshards = 1 if total < 5000 else vf.NPROC * (4 if n <= 5 else 16)

    def work(k):
        cmd = '%s enum %s %d %d %d %d | %s -q' % (exe, what, n, lattice, k, nshards, orc)
        return k, vf.sh(['bash', '-c', 'set -o pipefail; ' + cmd], timeout=6000)
    with cf.ThreadPoolExecutor(max_workers=vf.NPROC) as ex:
        for k, p in ex.map(work, range(0, nshards, every)):
            out = p.stdout.split('\n')
            done = [l for l in out if l.startswith('DONE ')]
            if p.returncode != 0 or len(done) != 1:
                raise vf.Infra('enumeration shard %d/%d (%s, n=%d) failed rc=%s: %s' % (k, nshards, what, n, p.returncode, p.stderr[-1500:]))
            _, a, b, c = done[0].split()
            res.lines += int(a)
            res.nontrivial += int(b)
            for l in out:
                if l.startswith('FAIL '):
                    items, _, line = l[5:].partition(' @@ ')
                    res.add_fail(items, line)
    ctx.count('evaluations', 0)


def run_requests(ctx, exe, orc, reqs, res):
    """request lines -> harness -> '<req> = <resp>' -> oracle verdict lines"""
    if not reqs:
        return
    outs, fails = vf.par_lines(exe, reqs)
    if fails:
        raise vf.Infra('harness failed on a shard: rc=%s %s' % (fails[0][1], fails[0][2][-1500:]))
    verd, fails = vf.par_lines(orc, outs)
    if fails:
        raise vf.Infra('oracle failed on a shard: rc=%s %s' % (fails[0][1], fails[0][2][-1500:]))
    for line, v in zip(outs, verd):
        res.lines += 1
        if v.startswith('OK'):
            if v.endswith('1'):
                res.nontrivial += 1
        elif v.startswith('FAIL '):
            res.add_fail(v[5:], line)
        else:
            raise vf.Infra('unexpected oracle line %r for %r' % (v, line))


def req_size(line):
    """ordering for choosing the smallest failing input: number of tokens of the request, then the text"""
    req = line.split(' = ')[0]
    return (len(req.split()), len(req), req)


def decide(ctx, res):
    """turn oracle items into violations; returns the number of property violations that are not known findings"""
    nprop = 0
    for key, (cnt, best) in sorted(res.prop.items()):
        _, line, what = best
        req, _, resp = line.partition(' = ')
        new = ctx.violation(key, '%s: %s  [input: %s -> %s] (%d failing inputs of this kind)' % (key, what, req, resp, cnt),
                            replay=dict(line=req, impl=resp, kind='property', count=cnt))
        ctx.cov.setdefault('property_failures', {})[key] = cnt
        if new:
            nprop += 1
    return nprop


def report_corr(ctx, res, nprop):
    for cmd, (cnt, best) in sorted(res.corr.items()):
        _, line, what = best
        req, _, resp = line.partition(' = ')
        ctx.violation('corr.' + cmd, 'model/implementation disagreement for %s: %s [input: %s -> %s] (%d inputs)'
                      % (cmd.upper(), what[:300], req, resp, cnt),
                      replay=dict(line=req, impl=resp, kind='correspondence', count=cnt), nofail=(nprop == 0))


def vm_crosscheck(ctx, orc, reqs):
    """a sample of requests is evaluated by coqc/vm_compute and compared with the extracted oracle"""
    sample = [q for q in reqs if q.split()[0] in ('TRIM', 'SIMP', 'RDP') and len(q.split()) < 60][:36]
    if not sample:
        return
    p = vf.run_lines(orc, sample)
    outs = p.stdout.split('\n')[:len(sample)]

    def cpath(toks, pos):
        n = int(toks[pos]); pos += 1
        pts = []
        for _ in range(n):
            pts.append('(%s,%s)' % (toks[pos], toks[pos + 1])); pos += 2
        return '[' + ';'.join(pts) + ']', pos

    def cres(toks, pos):
        if toks[pos].startswith('ERR-'):
            return ('ErrOOB' if toks[pos] == 'ERR-OOB' else 'ErrFuel'), pos + 1
        s, pos = cpath(toks, pos)
        return 'Ok ' + s, pos
    def cflt(tok):
        return 'infinity' if tok == 'inf' else tok
    body = ['From Coq Require Import ZArith List Floats.', 'From Clip Require Import base.Geom base.FloatModel model.PathUtils.',
            'Import ListNotations.', 'Local Open Scope Z_scope.']
    for i, (q, o) in enumerate(zip(sample, outs)):
        t, ot = q.split(), o.split()
        if t[0] == 'TRIM':
            ps, _ = cpath(t, 2)
            rs, _ = cres(ot, 0)
            lhs = 'trim_collinear %s %s' % (ps, 'true' if t[1] != '0' else 'false')
        elif t[0] == 'SIMP':
            ps, _ = cpath(t, 3)
            rs, _ = cres(ot, 0)
            lhs = 'simplify_path %s (%s)%%float %s' % (ps, cflt(t[1]), 'true' if t[2] != '0' else 'false')
        else:
            ps, _ = cpath(t, 2)
            rs, _ = cres(ot, 0)
            lhs = 'rdp_path %s (%s)%%float' % (ps, cflt(t[1]))
        body.append('Example x%d : %s = %s. Proof. vm_compute. reflexivity. Qed.' % (i, lhs, rs))
    f = os.path.join(ctx.work, 'XCheck.v')
    with open(f, 'w') as fh:
        fh.write('\n'.join(body) + '\n')
    with vf.Lock('coq'):
        p = vf.sh(['coqc', '-Q', vf.COQ, 'Clip', '-w', '-all', f], cwd=ctx.work, timeout=600)
    ctx.cov['vm_compute_crosscheck'] = len(sample)
    if p.returncode != 0 and 'Unable to unify' not in (p.stdout + p.stderr):
        # coqc could not even load the development (e.g. a scratch copy removed by a concurrent run): not a verdict
        raise vf.Infra('vm_compute cross-check could not be run: %s' % (p.stdout + p.stderr)[-800:])
    if p.returncode != 0:
        ctx.violation('extraction-mismatch', 'vm_compute and the extracted oracle disagree on a sampled case: %s' % (p.stdout + p.stderr)[-600:],
                      replay=dict(file=read_small(f)), nofail=True)


def read_small(f):
    try:
        return vf.read(f)[:20000]
    except OSError:
        return ''


def corpus_requests():
    reqs = []
    d = os.path.join(vf.VERIF, 'corpus', PID)
    for f in sorted(os.listdir(d)) if os.path.isdir(d) else []:
        if f.endswith('.case'):
            for l in vf.read(os.path.join(d, f)).splitlines():
                l = l.strip()
                if l and not l.startswith('#'):
                    reqs.append(l)
    return reqs


def run(ctx):
    pr = vf.coq_props(ctx, PID)
    ctx.log('proofs: ok=%s theorems=%d (%.1fs)' % (pr['ok'], len(pr['theorems']), pr['wall']))
    try:
        exe = vf.build_cpp(ctx, 'cx_pathutils.cpp', 'plain')
    except vf.BuildFailure as e:
        ctx.violation('tie-break:cx_pathutils', 'the harness no longer compiles against the tree (a modelled function disappeared or changed '
                      'signature): %s' % str(e)[-800:], replay=dict(kind='build'), nofail=True)
        return
    orc = vf.oracle_build('pathutils')
    res = Results()
    thorough = not ctx.quick

    # 1. corpus and scalar leaves (float self-test first: the bit-exact claims rest on it)
    corp = corpus_requests()
    ctx.cov['corpus_cases'] = len(corp)
    leaves = leaf_requests(ctx, 10000 if ctx.quick else 40000)
    run_requests(ctx, exe, orc, corp + leaves, res)
    ctx.log('corpus %d + leaf cases %d done, failing lines so far %d' % (len(corp), len(leaves), res.nfail))

    # 2. exhaustive lattice
    nmax = 6 if thorough else 5
    for n in range(0, nmax + 1):
        before = res.lines
        # quick tier, 5-point paths: SimplifyPath with the two-value epsilon grid {0.5, 2} (the full grid is enumerated for
        # 0..4 points here and for 5 and 6 points in the thorough tier); TrimCollinear and RDP (whose first non-trivial
        # length is 5) always with everything
        # 6-point paths (thorough): every 4th shard of the enumeration (4.2 of 16.8 million paths; the search after a break runs all)
        run_enum(ctx, exe, orc, 'TsR' if (n == 5 and not thorough) else 'TSR', n, res, every=4 if n == 6 else 1)
        ctx.hist('exhaustive_lines_by_len', n, res.lines - before)
        ctx.log('exhaustive n=%d over %dx%d: %d lines, failing lines so far %d' % (n, L, L, res.lines - before, res.nfail))

    # 2b. StripNearEqual / StripDuplicates: exhaustive lattice (tolerances^2 in {0,1,2,3,5,10}, open/closed) ...
    for n in range(0, nmax):
        before = res.lines
        run_enum(ctx, exe, orc, 'N', n, res)
        ctx.hist('exhaustive_strip_lines_by_len', n, res.lines - before)
    # ... and "fan" shapes (several vertices within the tolerance of the first one but not of one another), all overloads
    fans = fan_requests(ctx, 600 if ctx.quick else 6000)
    run_requests(ctx, exe, orc, fans, res)
    ctx.sample('SNEAR 0x1.9p+4 1 6 0 0 100 0 100 100 0 100 0 4 4 0')
    ctx.log('strip lattice (<=%d points) + %d fan-shape requests done, failing lines %d' % (nmax - 1, len(fans), res.nfail))

    # 2c. the double-precision instantiations and the Paths overloads
    dbl = dbl_requests(ctx, 3000 if ctx.quick else 30000)
    run_requests(ctx, exe, orc, dbl, res)
    ctx.sample('TRIMD 2 0 5 0x0p+0 0x0p+0 0x1p+0 0x0p+0 0x1p+1 0x0p+0 0x1p+1 0x1p+1 0x0p+0 0x1p+1')
    ctx.log('%d PathD / Paths overload requests done, failing lines %d' % (len(dbl), res.nfail))

    # 3. seeded random longer paths
    rnd = random_requests(ctx, 6000 if ctx.quick else 60000)
    run_requests(ctx, exe, orc, rnd, res)
    for q in rnd[:3]:
        ctx.sample(q[:300])
    ctx.sample('RDP 0x1p+0 6 0 0 10 10 20 0 30 10 40 0 0 0')
    ctx.log('random cases %d done, failing lines %d' % (len(rnd), res.nfail))

    # 4. extraction cross-check
    vm_crosscheck(ctx, orc, corp + rnd)

    # 5. decide
    nprop = decide(ctx, res)
    if (res.corr or not pr['ok']) and nprop == 0:
        # search: next larger exhaustive scope for the affected functions (all of them after a proof break)
        lmap = {'trim': 'T', 'simp': 'S', 'rdp': 'R', 'snear': 'N', 'sneard': 'N', 'snears': 'N', 'snearsd': 'N', 'sdup': 'N', 'sdups': 'N'}
        letters = ''.join(sorted(set(lmap.get(c, '') for c in res.corr))) or ('NTSR' if not pr['ok'] else '')
        if not thorough:
            res2 = Results()
            if 'S' in letters:
                ctx.log('search: exhaustive n=5 for S with the full epsilon grid')
                run_enum(ctx, exe, orc, 'S', 5, res2)
            if 'N' in letters:
                ctx.log('search: exhaustive n=5 for StripNearEqual/StripDuplicates, 6000 fan shapes')
                run_enum(ctx, exe, orc, 'N', 5, res2)
                run_requests(ctx, exe, orc, fan_requests(ctx, 6000), res2)
            letters = letters.replace('N', '')
            if letters:
                l6 = letters.replace('S', 's')      # 6-point paths: SimplifyPath with the two-value grid (full grid: thorough tier)
                ctx.log('search: exhaustive n=6 for %s' % l6)
                run_enum(ctx, exe, orc, l6, 6, res2)
            ctx.log('search: 40000 more random cases')
            run_requests(ctx, exe, orc, random_requests(ctx, 40000), res2)
            nprop += decide(ctx, res2)
            res.merge(res2)
    report_corr(ctx, res, nprop)
    if not pr['ok'] and nprop == 0:
        ctx.violation('proof-break:Properties_C20', 'Properties_C20.vo no longer builds: %s' % '; '.join(pr['failed'])[:800],
                      replay=dict(kind='proof', failed=pr['failed'][:3]), nofail=True)

    ctx.count('evaluations', res.lines)
    ctx.cov['distinct_nontrivial'] = res.nontrivial
    ctx.cov['rule'] = ('every path of 0..%d points over the %dx%d lattice x {TrimCollinear open/closed, SimplifyPath eps in %s open/closed '
                       '(quick tier, 5-point paths: eps in {0.5, 2}; thorough tier, 6-point paths: every 4th path of the enumeration), '
                       'RamerDouglasPeucker same eps} and, for 0..%d points, x {StripNearEqual max_dist_sqrd in {0,1,2,3,5,10} open/closed, '
                       'StripDuplicates open/closed} (enumerated inside the harness, no duplicates), plus seeded fan shapes for '
                       'StripNearEqual (2-4 trailing and 0-3 leading vertices within the tolerance of the first vertex, pairwise farther '
                       'apart; Path64, PathD, Paths64, PathsD; open/closed; tolerance factors 0..3) and their exact-duplicate analogues for '
                       'StripDuplicates, plus seeded random paths of 0..150 '
                       'points (collinear runs, repeated points, spikes, rings with first==last, scales 1..2^34*64) for all utilities and '
                       'random scalar cases for PerpendicDistFromLineSqrd/IsCollinear/Ellipse/double arithmetic; a line is non-trivial when the '
                       "implementation's output differs from its input (or for scalar leaves: always)" % (nmax, L, L, EPS_GRID, nmax - 1))
    ctx.assumptions += [
        'TrimCollinear(PathD, precision): precision in -8..8 and |coordinate * 10^precision| inside the int64 range test of ScalePath '
        '(outside, the library raises/returns an error: C11); std::pow(10, precision) is read back from the harness',
        'int64 differences taken by IsCollinear/PerpendicDistFromLineSqrd do not overflow (|coordinates| <= 2^62); models use unbounded Z',
        'epsilon >= 0 and not NaN (the quantifier of the property); +inf and values whose square overflows are included',
        'C20_rdp_bound assumes that no PerpendicDistFromLineSqrd value between vertices of the path is NaN (a NaN needs an overflowing '
        'product, impossible for differences of int64 coordinates); the clause itself is evaluated on every generated input',
        'libm sin/cos are not modelled: Ellipse is compared modulo the two values the harness reads back (same libm call as the library)',
        'binary64 arithmetic of g++ -O1 -ffp-contract=off equals Coq primitive floats (self-tested on every run, FSELF cases)',
        'Print Assumptions: theorems that mention binary64 values depend on the PrimFloat/Uint63 primitives and the FloatAxioms of the Coq '
        'standard library (and, through Flocq, the Reals axioms + classical logic for the comparison facts); list/integer theorems are closed',
    ]
    ctx.cov['trusted_base'] = vf.TRUSTED_COMMON + [
        'ExtrOCamlFloats/ExtrOCamlInt63 (Float64/Uint63 of coq-core.kernel)',
        'oracle/drv_pathutils.ml (parsing, dispatch, libm-based Ellipse sanity tolerance)',
        'harness/cx_pathutils.cpp (direct calls; copies the 3-line prologue of Ellipse to report steps/sin/cos)']


def replay(ctx, path):
    d = json.load(open(path))
    rp = d.get('replay') or {}
    line = rp.get('line')
    if not line:
        ctx.log('replay file has no input line (kind=%s); re-running the whole check' % rp.get('kind'))
        return run(ctx)
    exe = vf.build_cpp(ctx, 'cx_pathutils.cpp', 'plain')
    orc = vf.oracle_build('pathutils')
    res = Results()
    run_requests(ctx, exe, orc, [line], res)
    out = vf.run_lines(exe, [line]).stdout.strip()
    ctx.log('implementation: %s' % out)
    ctx.log('model:          %s' % vf.run_lines(orc, [line]).stdout.strip())
    nprop = decide(ctx, res)
    report_corr(ctx, res, nprop)
    ctx.count('evaluations', res.lines)
    ctx.cov['distinct_nontrivial'] = res.nontrivial
    ctx.cov['rule'] = 'replay of one recorded input'
