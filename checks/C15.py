"""C15 — USINGZ builds compute the same geometry and account for every Z (DESIGN 6 C15)."""
import json, os, sys
import vf
sys.path.insert(0, os.path.join(vf.VERIF, 'gen'))
import polys

META = dict(
    text=("Coq theorems: the modelled Point operator== ignores z; Z-carrying models of path kernels (StripDuplicates, "
          "TranslatePath, ScalePath, TrimCollinear, the Minkowski quad construction) commute with erasing z; a faithful "
          "model of ClipperBase::SetZ passes to the callback the z of the first coinciding edge end in the code's "
          "priority order (the first edge's bot/top then the second's, the subject edge first when the path types differ) "
          "else DefaultZ, and leaves the point alone without a callback; a model of the ring surgery of ClipperBase::DoSplitOp "
          "(geometric decisions as parameters) hands the callback the local point once, before it is copied into the kept and "
          "the split-off ring.  The SetZ, DoSplitOp, ClipperD::ZCB and kernel models are "
          "tied to the code by exact comparison (real SetZ/ZCB called through private access on synthetic edges).  "
          "Geometry equality of the two build configurations is validated: the harness is built with and without USINGZ "
          "and run on identical boolean (Clipper64, ClipperD, open paths), offsetting (all join/end types) and "
          "rectangle-clipping inputs with random Z labels, callback absent / tagging / writing arbitrary values: x,y "
          "results must be bit-identical.  A Z-accounting monitor checks every solution vertex of general-position "
          "inputs against the input labels and the callback log.  DoSplitOp is reached only by inputs that are not in general "
          "position (micro self-intersections left by rounding); a stream of such small-coordinate slivers is run through both "
          "builds (x,y judged) and its Z accounting is recorded, not judged.  Both comparisons run through every entry point that "
          "can produce Z: Clipper64 and ClipperD (descaled callback arguments checked), each through the paths and the polytree "
          "Execute overloads with and without the open-paths result, with the callback set, set after / used before another "
          "overload, removed again, or set late on the same object; ClipperOffset::SetZCallback likewise; RectClip."),
    note=("Trusted: Coq kernel; extraction; C++ harness with private access; generators.  Not proved: geometry equality "
          "for the unmodelled engine and completeness of SetZ call sites (both validated by the two-build comparison and "
          "the accounting monitor)."),
    technique='Coq proof (z-erasure of kernels, SetZ priority) + model/implementation correspondence + two-configuration differential validation',
)

CT = {1: 'Intersection', 2: 'Union', 3: 'Difference', 4: 'Xor'}
TAG0 = 1 << 40
ZPOOL = [0, 0, 1, 1, 2, 3, 5, 7, 11, -1, -4, 123456789, 2 ** 62, -2 ** 63]


def zlab(rng):
    return rng.choice(ZPOOL) if not rng.chance(1, 4) else rng.range(1, 10 ** 6)


def label(rng, ps):
    return [[(v[0], v[1], zlab(rng)) for v in p] for p in ps]


def fmtz(ps, num=str):
    out = [str(len(ps))]
    for p in ps:
        out.append(str(len(p)))
        for x, y, z in p:
            out.append('%s %s %d' % (num(x), num(y), z))
    return ' '.join(out)


def split_out(line):
    """-> (xy part, z list, log tokens) of a z-build line; plain lines have only the xy part"""
    xy, _, rest = line.partition(' Z')
    zs, _, lg = rest.partition(' L ')
    return xy, zs.split(), lg.split()


def parse_xy(xy, skip=1, num=int):
    t = xy.split()
    pos = skip
    groups = []
    while pos < len(t):
        n = int(t[pos]); pos += 1
        ps = []
        for _ in range(n):
            k = int(t[pos]); pos += 1
            ps.append([(num(t[pos + 2 * i]), num(t[pos + 2 * i + 1])) for i in range(k)])
            pos += 2 * k
        groups.append(ps)
    return groups


# ----------------------------------------------------------------------------- generators
def open_paths(rng, box, n):
    return [[polys.rand_pt(rng, box) for _ in range(rng.range(2, 6))] for _ in range(n)]


def lattice_paths(rng, n):
    g = rng.choice([3, 5, 8])
    return [[(rng.range(0, g) * 10, rng.range(0, g) * 10) for _ in range(rng.range(3, 8))] for _ in range(n)]


def gen_bool(ctx, n):
    """-> list of dict(S,O,C labelled, genpos candidate flag, k)"""
    rng, out = ctx.rng, []
    for i in range(n):
        kind = i % 4
        if kind == 3:
            S, C, O = lattice_paths(rng, rng.range(1, 3)), lattice_paths(rng, rng.range(0, 2)), (open_paths(rng, 40, rng.range(0, 2)) if rng.chance(1, 2) else [])
            O = [[(x // 10 * 10, y // 10 * 10) for x, y in p] for p in O]
            cand, k, reg = False, 1, 'lattice'
        else:
            S, C, _ = polys.gen_genpos_case(rng)
            O = open_paths(rng, 120, rng.range(1, 2)) if kind == 1 else []
            cand = True
            reg = polys.REGIMES[rng.below(5)] if rng.chance(1, 2) else polys.REGIMES[0]
            S, C, tf = polys.apply_regime(rng, S, C, reg)
            O = polys.scale_translate(O, tf[0], tf[1], tf[2])
            k, reg = tf[0], reg[0]
        out.append(dict(S=label(rng, S), O=label(rng, O), C=label(rng, C), cand=cand, k=k, regime=reg))
    return out


def xy(ps):
    return [[(v[0], v[1]) for v in p] for p in ps]


# ----------------------------------------------------------------------------- Z accounting monitor
def input_index(c):
    loc, edges = {}, {}
    for tname, ps, closed in (('S', c['S'], True), ('O', c['O'], False), ('C', c['C'], True)):
        for p in ps:
            for v in p:
                loc.setdefault((v[0], v[1]), set()).add(v[2])
            q = [v for i, v in enumerate(p) if i == 0 or (v[0], v[1]) != (p[i - 1][0], p[i - 1][1])]
            if closed and len(q) > 1 and (q[0][0], q[0][1]) == (q[-1][0], q[-1][1]):
                q.pop()
            m = len(q)
            for i in range(m if closed else m - 1):
                a, b = q[i], q[(i + 1) % m]
                edges.setdefault((a[0], a[1], b[0], b[1]), set()).add((tname, a[2], b[2]))
                edges.setdefault((b[0], b[1], a[0], a[1]), set()).add((tname, b[2], a[2]))
    return loc, edges


def monitor(ctx, c, cb, dz, line, zline, num=int, scale=1):
    """check one z-build result of a general-position case.  num/scale: ClipperD reads doubles"""
    xyp, zs, lg = split_out(zline)
    groups = parse_xy(xyp, skip=1 if num is int else 2, num=num)
    verts = [v for ps in groups for p in ps for v in p]
    if len(zs) != len(verts):
        raise vf.Infra('cx_z: z list does not match the vertices: %s' % zline[:200])
    zs = [int(z) for z in zs]
    loc, edges = input_index(c)
    ncall = int(lg[0]) if lg else 0
    calls = []
    for i in range(ncall):
        t = lg[1 + 16 * i: 17 + 16 * i]
        pts = [(num(t[3 * j]), num(t[3 * j + 1]), int(t[3 * j + 2])) for j in range(4)]
        calls.append(dict(e=pts, pt=(num(t[12]), num(t[13])), zin=int(t[14]), zout=int(t[15])))
    by_pt = {}
    for cl in calls:
        by_pt.setdefault(cl['pt'], []).append(cl)
    rep = dict(kind='line', line=line, builds=['z'], cb=cb)
    ctx.count('monitored_vertices', len(verts))
    for v, z in zip(verts, zs):
        at_input = v in loc
        if at_input and z in loc[v]:
            ctx.count('vertices_at_input_with_input_z')
            continue
        if cb == 0:
            if at_input:
                ctx.violation('z.unaccounted-vertex', 'no callback: solution vertex (%s, %s) carries z=%d, the input labels there are %s' % (v[0], v[1], z, sorted(loc[v])),
                              replay=dict(rep, vertex=[v[0], v[1], z]))
            elif z == dz:
                ctx.count('new_vertices_default_z')
            elif z == 0:
                # SetZ returns before `ip.z = DefaultZ` when no callback is installed: the member DefaultZ is ignored
                ctx.violation('z.default-z.DefaultZ-ignored-without-callback',
                              'no callback, DefaultZ=%d: new solution vertex (%s, %s) carries z=0 instead of DefaultZ' % (dz, v[0], v[1]),
                              replay=dict(rep, vertex=[v[0], v[1], z], dz=dz))
            else:
                ctx.violation('z.default-z', 'no callback, DefaultZ=%d: new solution vertex (%s, %s) carries z=%d' % (dz, v[0], v[1], z),
                              replay=dict(rep, vertex=[v[0], v[1], z], dz=dz))
            continue
        cands = by_pt.get(v, [])
        if cb in (1, 2) and any(cl['zout'] == z for cl in cands):
            ctx.count('vertices_tagged_by_callback')
            continue
        if cb == 3 and any(cl['zin'] == z for cl in cands):
            ctx.count('vertices_tagged_by_callback')
            continue
        ctx.violation('z.unaccounted-vertex',
                      'callback mode %d: solution vertex (%s, %s) carries z=%d: %s' % (cb, v[0], v[1], z,
                      ('an input vertex labelled %s that was not given one of them' % sorted(loc[v])) if at_input and not cands else
                      'never passed to the callback' if not cands else 'passed to the callback which assigned %s' % [cl['zout'] for cl in cands]),
                      replay=dict(rep, vertex=[v[0], v[1], z]))
    # callback arguments
    for cl in calls:
        e1 = edges.get((cl['e'][0][0], cl['e'][0][1], cl['e'][1][0], cl['e'][1][1]))
        e2 = edges.get((cl['e'][2][0], cl['e'][2][1], cl['e'][3][0], cl['e'][3][1]))
        if any((q[0], q[1]) not in loc for q in cl['e']):
            # SetZ passes bot/top of Active edges, which are always input vertices; a callback that receives a point
            # that is not an input vertex comes from DoSplitOp (which passes four solution points) -- an undercount:
            # a DoSplitOp call whose four points all happen to be input vertices is not recognised
            ctx.count('callbacks_from_DoSplitOp')
        if e1 is None or e2 is None:
            # DoSplitOp passes solution points; for ClipperD a wrong proxy scale ends up here as well
            if num is float and not all(float(co * scale).is_integer() for p in cl['e'] for co in p[:2]):
                ctx.violation('z.callback-args', 'ClipperD callback received coordinates that are not descaled integers: %s' % (cl['e'],), replay=rep)
            ctx.count('callbacks_with_non_input_edges')
            continue
        ctx.count('callbacks_on_input_edges')
        z1 = {(t, a, b) for (t, a, b) in e1 if (a, b) == (cl['e'][0][2], cl['e'][1][2])}
        z2 = {(t, a, b) for (t, a, b) in e2 if (a, b) == (cl['e'][2][2], cl['e'][3][2])}
        bad = None
        if not z1 or not z2:
            bad = 'edge ends passed with z labels other than the input labels'
        elif not any(t1 != 'C' or t2 == 'C' for (t1, _, _) in z1 for (t2, _, _) in z2):
            bad = 'clip edge passed before subject edge'
        elif cl['pt'] not in loc and cl['zin'] != dz:
            bad = 'new vertex passed with z=%d, DefaultZ is %d' % (cl['zin'], dz)
        if bad:
            ctx.violation('z.callback-args', 'callback arguments: %s: edges %s point %s' % (bad, cl['e'], cl['pt']), replay=rep)


class Recorder:
    """stands in for ctx when the Z monitor runs on an input OUTSIDE the quantifier of the Z clause (not in general
    position): everything is counted under nongp.*, nothing is judged"""

    def __init__(self, ctx):
        self.ctx, self.bad, self.split = ctx, 0, 0

    def count(self, key, n=1):
        if key == 'callbacks_from_DoSplitOp':
            self.split += n
        self.ctx.count('nongp.' + key, n)

    def violation(self, key, what, replay=None, nofail=False):
        self.bad += 1
        self.ctx.count('nongp.%s (recorded, not judged)' % key)
        if len(self.ctx.cov.get('nongp_unaccounted_samples', [])) < 3:
            self.ctx.sample(dict(key=key, what=what[:300], line=(replay or {}).get('line', '')[:400]), key='nongp_unaccounted_samples')
        return False


def gen_slivers(ctx, n):
    """small-coordinate polygons whose roundings leave micro self-intersections in output rings (the inputs that reach
    ClipperBase::DoSplitOp): random 5..8-gons in boxes of 30..1000 units and zigzags of long nearly parallel edges"""
    rng = ctx.rng.fork(15)
    out = []

    def zigzag():
        box = rng.choice([40, 100, 300, 1000])
        m = rng.choice([4, 5, 5, 6, 7])
        ang = (rng.range(-box, box), rng.range(-box, box))
        L = max(1, abs(ang[0]), abs(ang[1]))
        cx, cy = rng.range(0, box), rng.range(0, box)
        p = []
        for k in range(m):
            sg = 1 if k % 2 == 0 else -1
            t, w = rng.range(box // 3, box), rng.range(-8, 8)
            p.append((cx + sg * ang[0] * t // L - ang[1] * w // L + rng.range(-2, 2), cy + sg * ang[1] * t // L + ang[0] * w // L + rng.range(-2, 2)))
        return p
    for i in range(n):
        if i % 2:
            S = [zigzag()]
        else:
            box = rng.choice([100, 100, 1000, 30, 300])
            S = [[(rng.range(0, box), rng.range(0, box)) for _ in range(rng.choice([5, 5, 6, 8]))]]
        C = []
        if rng.chance(1, 4):
            box = 100
            C = [[(rng.range(0, box), rng.range(0, box)) for _ in range(rng.range(3, 5))]]
        out.append(dict(S=label(rng, S), O=[], C=label(rng, C), cand=True, k=1, regime='sliver' if i % 2 else 'small-random'))
    # the published trigger of the DoSplitOp repair: one 5-vertex sliver, Union/NonZero
    out.append(dict(S=[[(27, 12, 1), (24, 11, 2), (75, 31, 3), (30, 18, 4), (95, 43, 5)]], O=[], C=[], cand=True, k=1, regime='sliver'))
    return out


def run_slivers(ctx, exes, cases):
    """geometry clause judged on every input; Z clause judged on the inputs in general position, recorded on the others"""
    rng = ctx.rng
    lines, meta = [], []
    for ci, c in enumerate(cases):
        for j in range(2):
            ct, fr, cb = (2, 1, 1) if j == 0 else (rng.choice(list(CT)), rng.below(4), rng.below(4))
            lines.append('BOOL %d %d %d %d %d %d %d %s %s %s' % (ct, fr, rng.below(2), rng.below(2), cb, 0, rng.below(1 << 30), fmtz(c['S']), fmtz(c['O']), fmtz(c['C'])))
            meta.append((ci, cb))
    zo = both(ctx, exes, lines, 'bool64-slivers')
    if not zo:
        return
    st = dict(inputs=len(cases), general_position=sum(1 for c in cases if c['gp']), runs=len(lines), runs_gp=0,
              runs_reaching_DoSplitOp=0, runs_reaching_DoSplitOp_gp=0, nongp_runs_with_unaccounted_vertices=0)
    for (ci, cb), l, z in zip(meta, lines, zo):
        c = cases[ci]
        if c['gp']:
            st['runs_gp'] += 1
            before = ctx.cov.get('callbacks_from_DoSplitOp', 0)
            monitor(ctx, c, cb, 0, l, z)
            if ctx.cov.get('callbacks_from_DoSplitOp', 0) > before:
                st['runs_reaching_DoSplitOp'] += 1
                st['runs_reaching_DoSplitOp_gp'] += 1
                ctx.sample(dict(line=l[:400]), key='dosplitop_on_general_position_input')
        else:
            rec = Recorder(ctx)
            monitor(rec, c, cb, 0, l, z)
            st['runs_reaching_DoSplitOp'] += 1 if rec.split else 0
            st['nongp_runs_with_unaccounted_vertices'] += 1 if rec.bad else 0
    ctx.cov['sliver_stream'] = st


def run_flat(ctx, exes, n):
    """nearly horizontal edges crossed a fraction of a unit from a scanline that carries another vertex (gen/polys.py
    gen_flat_precise_case / gen_flat_case): the inputs on which AddNewIntersectNode repairs an intersection point that
    falls outside the scanbeam (TopX / GetClosestPointOnSegment branches).  x,y equality of the builds on every case;
    Z accounting (no callback: default Z on new vertices; callback modes) on the general-position ones"""
    rng = ctx.rng.fork(17)
    cases = []
    for i in range(n):
        S, C, _ = polys.gen_flat_precise_case(rng) if i % 3 else polys.gen_flat_case(rng)
        if polys.maxabs([S, C]) > (1 << 40):
            continue
        cases.append(dict(S=label(rng, S), O=[], C=label(rng, C), cand=True, k=1, regime='flat'))
    region = vf.oracle_build('region')
    gp, fails = vf.par_lines(region, ['GENPOS ' + vf.fmt_paths(xy(c['S']) + xy(c['C'])) for c in cases])
    if fails:
        raise vf.Infra('oracle GENPOS failed: %s' % fails[0][2])
    lines, meta = [], []
    for ci, (c, g) in enumerate(zip(cases, gp)):
        c['gp'] = g.strip() == '1'
        for ct in CT:
            fr = rng.below(4)
            for cb in (0, 0, 1, 3):
                dz = 0
                lines.append('BOOL %d %d %d %d %d %d %d %s %s %s' % (ct, fr, rng.below(2), rng.below(2), cb, dz, rng.below(1 << 30), fmtz(c['S']), fmtz(c['O']), fmtz(c['C'])))
                meta.append((ci, cb, dz))
    zo = both(ctx, exes, lines, 'bool64-flat')
    st = dict(inputs=len(cases), general_position=sum(1 for c in cases if c['gp']), runs=len(lines))
    if zo:
        for (ci, cb, dz), l, z in zip(meta, lines, zo):
            if cases[ci]['gp']:
                monitor(ctx, cases[ci], cb, dz, l, z)
            else:
                monitor(Recorder(ctx), cases[ci], cb, dz, l, z)
    ctx.cov['flat_stream'] = st


# ----------------------------------------------------------------------------- runs
def both(ctx, exes, lines, op, variants=('plain', 'z')):
    """run the same lines through the builds, compare xy parts; returns the z-build lines"""
    outs = {}
    for b in variants:
        o, fails = vf.par_lines(exes[b], lines, timeout=1200)
        if fails:
            sh, rc, err, _ = fails[0]
            l, rc1, err1 = vf.isolate_failure(exes[b], sh)
            ctx.violation('z.crash.' + op + ('' if b in ('plain', 'z') else '.' + b), '%s crashed or hung in build %s (rc=%s): %s' % (op, b, rc1 if l else rc, (err1 or err)[-400:]),
                          replay=dict(kind='line', line=l or sh[0], builds=[b]))
            return None
        outs[b] = o
    ref = variants[0]
    nexc = 0
    for i, l in enumerate(lines):
        ctx.count('evaluations')
        ctx.count('compared.' + op)
        a = split_out(outs[ref][i])[0]
        for b in variants[1:]:
            if outs[b][i].startswith('EXC') and not a.startswith('EXC'):
                nexc += 1
                ctx.count('exceptions_in_one_build_only.' + op)
                if nexc <= 2:           # vf.Ctx keeps 50 violations: one noisy key must not hide the others
                    ctx.violation('z.exception.' + op, '%s: build %s throws (%s) where build %s returns %s ...' % (op, b, outs[b][i][:120], ref, a[:80]),
                              replay=dict(kind='line', line=l, builds=[ref, b]))
            elif split_out(outs[b][i])[0] != a or a.startswith('EXC'):
                ctx.violation('z.xy-differs.' + op, '%s: x,y results of builds %s and %s differ (or an exception): %s ... vs %s ...' % (op, ref, b, a[:100], split_out(outs[b][i])[0][:100]),
                              replay=dict(kind='line', line=l, builds=[ref, b]))
    return outs[variants[-1]]


def run_bool(ctx, exes, cases, asan_exe=None):
    rng = ctx.rng
    lines, meta = [], []
    for ci, c in enumerate(cases):
        for ct in CT:
            fr = rng.below(4)
            for cb in (0, 1, 2, 3):
                dz = 0 if rng.chance(1, 2) else rng.choice([9, -3, 1 << 50])
                lines.append('BOOL %d %d %d %d %d %d %d %s %s %s' % (ct, fr, rng.below(2), rng.below(2), cb, dz, rng.below(1 << 30), fmtz(c['S']), fmtz(c['O']), fmtz(c['C'])))
                meta.append((ci, cb, dz))
    zo = both(ctx, exes, lines, 'bool64')
    nontrivial = 0
    if zo:
        for (ci, cb, dz), l, z in zip(meta, lines, zo):
            if cases[ci]['gp']:
                monitor(ctx, cases[ci], cb, dz, l, z)
            if split_out(z)[2][:1] not in ([], ['0']):
                nontrivial += 1
    if asan_exe:
        sub = lines[::7][:400]
        both(ctx, dict(exes, asanz=asan_exe), sub, 'bool64', variants=('plain', 'asanz'))
    # ClipperD: inputs are quarter-integers (exact multiples of 1/scale), precision 2 -> scale 128
    lines, meta = [], []
    q = lambda v: ('%d.%s' % (v // 4, ('0', '25', '5', '75')[v % 4])) if v >= 0 else ('-%d.%s' % ((-v) // 4, ('0', '25', '5', '75')[(-v) % 4]))
    for ci, c in enumerate(cases):
        if c['regime'] not in ('small', '1e3', '1e6', 'lattice'):
            continue
        ct, fr = rng.choice(list(CT)), rng.below(4)
        for cb in (0, 1, 2):
            dz = 0
            lines.append('BOOLD 2 %d %d %d %d %d %d %d %s %s %s' % (ct, fr, rng.below(2), rng.below(2), cb, dz, rng.below(1 << 30), fmtz(c['S'], q), fmtz(c['O'], q), fmtz(c['C'], q)))
            meta.append((ci, cb, dz))
    zo = both(ctx, exes, lines, 'boold')
    if zo:
        for (ci, cb, dz), l, z in zip(meta, lines, zo):
            c = cases[ci]
            if c['gp']:
                cd = dict(S=[[(x / 4.0, y / 4.0, zz) for x, y, zz in p] for p in c['S']], O=[[(x / 4.0, y / 4.0, zz) for x, y, zz in p] for p in c['O']],
                          C=[[(x / 4.0, y / 4.0, zz) for x, y, zz in p] for p in c['C']])
                monitor(ctx, cd, cb, dz, l, z, num=float.fromhex, scale=128)
    return nontrivial


FORMS = ['paths(closed)', 'paths(closed,open)', 'tree', 'tree(open)']
HISTS = ['execute', 'other-overload-first', 'callback-removed-before', 'callback-set-late']


def run_entry_points(ctx, exes, cases):
    """every Execute overload of Clipper64 and ClipperD (paths / polytree, with and without the open-paths result) and callback
    histories on one object (set / other overload first / set, used, removed / set late): x,y of both builds on every case,
    Z monitor on the general-position ones (for ClipperD including the descaled callback arguments)"""
    rng = ctx.rng.fork(16)
    q = lambda v: ('%d.%s' % (v // 4, ('0', '25', '5', '75')[v % 4])) if v >= 0 else ('-%d.%s' % ((-v) // 4, ('0', '25', '5', '75')[(-v) % 4]))
    for kind in ('64', 'D'):
        lines, meta = [], []
        for ci, c in enumerate(cases):
            if kind == 'D' and c['regime'] not in ('small', '1e3', '1e6', 'lattice'):
                continue
            for form in range(4):
                for hist in range(4):
                    cb = rng.range(1, 3) if (hist >= 2 or not rng.chance(1, 5)) else 0
                    ct, fr = rng.choice(list(CT)), rng.below(4)
                    if kind == '64':
                        lines.append('BOOLX %d %d %d %d %d %d %d %d %d %s %s %s' % (form, hist, ct, fr, rng.below(2), rng.below(2), cb, 0, rng.below(1 << 30),
                                                                                  fmtz(c['S']), fmtz(c['O']), fmtz(c['C'])))
                    else:
                        lines.append('BOOLDX %d %d 2 %d %d %d %d %d %d %d %s %s %s' % (form, hist, ct, fr, rng.below(2), rng.below(2), cb, 0, rng.below(1 << 30),
                                                                                      fmtz(c['S'], q), fmtz(c['O'], q), fmtz(c['C'], q)))
                    meta.append((ci, form, hist, 0 if hist == 2 else cb))
        zo = both(ctx, exes, lines, 'entry' + kind)
        if not zo:
            continue
        for (ci, form, hist, eff), l, z in zip(meta, lines, zo):
            c = cases[ci]
            lg = split_out(z)[2]
            ctx.hist('entry_points_' + kind, '%s/%s' % (FORMS[form], HISTS[hist]))
            if hist == 2 and lg[:1] != ['0'] and not z.startswith('EXC'):
                ctx.violation('z.callback-after-removal', 'Clipper%s, %s: the callback removed with SetZCallback(nullptr) was still invoked %s times by the next Execute' % (kind, FORMS[form], lg[:1]),
                              replay=dict(kind='line', line=l, builds=['z']))
            if not c['gp'] or z.startswith('EXC'):
                continue
            before = len(ctx.violations)
            if kind == '64':
                monitor(ctx, c, eff, 0, l, z)
            else:
                cd = dict(S=[[(x / 4.0, y / 4.0, zz) for x, y, zz in p] for p in c['S']], O=[[(x / 4.0, y / 4.0, zz) for x, y, zz in p] for p in c['O']],
                          C=[[(x / 4.0, y / 4.0, zz) for x, y, zz in p] for p in c['C']])
                monitor(ctx, cd, eff, 0, l, z, num=float.fromhex, scale=128)
            ctx.count('entry_point_runs_monitored')
            if eff and lg[:1] not in ([], ['0']):
                ctx.count('entry_point_runs_with_callbacks')
            for v in ctx.violations[before:]:      # say which entry point
                v['what'] = 'Clipper%s %s / %s: %s' % (kind, FORMS[form], HISTS[hist], v['what'])


def run_offset_hist(ctx, exes, n):
    """ClipperOffset::SetZCallback: callback removed / set late between two Executes of one object"""
    rng = ctx.rng.fork(17)
    lines = []
    for i in range(n):
        ps = label(rng, polys.rand_path_set(rng, 120))
        for hist in (0, 1, 2):
            lines.append('OFFSX %d %d %d %s %s %s %d %d %d %d %s' % (hist, rng.below(4), rng.below(5), rng.choice(['2', '4.5']), rng.choice(['0', '0.25']),
                                                                     repr(float(rng.choice([-7.5, -2, 1, 3.25, 10]))), rng.below(2), rng.below(2), rng.range(1, 2), rng.below(1 << 30), fmtz(ps)))
    zo = both(ctx, exes, lines, 'offset-hist')
    for l, z in zip(lines, zo or []):
        lg = split_out(z)[2]
        if l.split()[1] == '1' and lg[:1] != ['0'] and not z.startswith('EXC'):
            ctx.violation('z.callback-after-removal', 'ClipperOffset: the callback removed with SetZCallback(nullptr) was still invoked by the next Execute', replay=dict(kind='line', line=l, builds=['z']))
        if l.split()[1] == '2' and lg[:1] not in ([], ['0']):
            ctx.count('offset_late_callback_runs_with_callbacks')


def run_offset(ctx, exes, n):
    rng = ctx.rng
    lines = []
    for i in range(n):
        if i % 3 == 2:
            ps = lattice_paths(rng, rng.range(1, 2))
        else:
            ps = polys.rand_path_set(rng, 120) + (open_paths(rng, 120, 1) if rng.chance(1, 3) else [])
        if rng.chance(1, 6):
            ps.append([polys.rand_pt(rng, 100)])        # single point
        k = rng.choice([1, 1, 10, 1000])
        ps = label(rng, polys.scale_translate(ps, k, 0, 0))
        for jt in range(4):
            et = rng.below(5)
            delta = rng.choice([-30, -7.5, -2, -0.3, 0.4, 1, 3.25, 10, 40]) * (k if rng.chance(2, 3) else 1)
            lines.append('OFFS %d %d %s %s %s %d %d %d %d %s' % (jt, et, rng.choice(['2', '1', '4.5']), rng.choice(['0', '0.25', '3']), repr(float(delta)),
                                                                rng.below(2), rng.below(2), rng.below(3), rng.below(1 << 30), fmtz(ps)))
            ctx.hist('offset_join_end', '%d/%d' % (jt, et))
    both(ctx, exes, lines, 'offset')
    return lines


def run_rect(ctx, exes, n):
    rng = ctx.rng
    l64, ld = [], []
    for i in range(n):
        box = 100
        x0, y0 = rng.range(-box, box // 2), rng.range(-box, box // 2)
        r = (x0, y0, x0 + rng.range(0, box), y0 + rng.range(0, box))
        if i % 3 == 0:
            ps = [[(rng.choice([r[0], r[2], rng.range(-box, box)]), rng.choice([r[1], r[3], rng.range(-box, box)])) for _ in range(rng.range(1, 9))] for _ in range(rng.range(1, 3))]
        else:
            ps = polys.rand_path_set(rng, 120)
        ps = label(rng, ps)
        l64.append('RECT %d %d %d %d %s' % (r + (fmtz(ps),)))
        l64.append('RECTL %d %d %d %d %s' % (r + (fmtz(ps),)))
        if i % 4 == 0:
            f = lambda v: repr(v / 8.0)
            ld.append('RECTD 2 %s %s %s %s %s' % (f(r[0]), f(r[1]), f(r[2]), f(r[3]), fmtz(ps, f)))
            ld.append('RECTLD 2 %s %s %s %s %s' % (f(r[0]), f(r[1]), f(r[2]), f(r[3]), fmtz(ps, f)))
    both(ctx, exes, [l for l in l64 if l.startswith('RECT ')], 'rect')
    both(ctx, exes, [l for l in l64 if l.startswith('RECTL ')], 'rectlines')
    both(ctx, exes, ld, 'rectd')


# ----------------------------------------------------------------------------- kernel ties (z build vs extracted models)
def kpt(rng, g=3):
    return (rng.range(0, g), rng.range(0, g), rng.choice([0, 1, 2, 3, 50, -7]))


def run_kernels(ctx, exez, n):
    rng = ctx.rng
    oracle = vf.oracle_build('zerase')
    lines = []
    for _ in range(n):
        pts = [kpt(rng, 2) for _ in range(5)]
        if rng.chance(1, 2):
            pts[4] = rng.choice(pts[:4])[:2] + (pts[4][2],)
        lines.append('SETZ %d %d %d %d %s' % (rng.below(2), rng.below(2), rng.below(3), rng.choice([0, 0, 9, -5]), ' '.join('%d %d %d' % p for p in pts)))
    for _ in range(n // 4):
        a, b = kpt(rng, 1), kpt(rng, 1)
        lines.append('EQ %d %d %d %d %d %d' % (a + b))
    for _ in range(n // 2):
        p = [kpt(rng, rng.choice([1, 2, 4])) for _ in range(rng.range(0, 8))]
        p = [p[i - 1] if i and rng.chance(1, 4) else v for i, v in enumerate(p)]
        lines.append('STRIP %d %s' % (rng.below(2), fmtz([p])[2:]))
        lines.append('TRANSL %d %d %s' % (rng.range(-5, 5), rng.range(-5, 5), fmtz([p])[2:]))
        lines.append('TRIM %d %s' % (rng.below(2), fmtz([p])[2:]))
        pat = [kpt(rng, 4) for _ in range(rng.range(0, 4))]
        lines.append('MINK %d %d %s %s' % (rng.below(2), rng.below(2), fmtz([pat])[2:], fmtz([p])[2:]))
    # DoSplitOp on synthetic output rings: bow ties (prev->split crosses next->nextnext), thin ones, random ones
    split_from = len(lines)
    for _ in range(n // 2):
        g = rng.choice([4, 10, 50, 1000])
        if rng.chance(2, 3):
            a_, b_ = (rng.range(0, g), rng.range(0, g)), (rng.range(0, g), rng.range(0, g))
            d = (rng.range(-g, g), rng.range(-g, g))
            e = (rng.range(-2, 2), rng.range(-2, 2)) if rng.chance(1, 2) else (rng.range(-g, g), rng.range(-g, g))
            quad = [a_, b_, (b_[0] + d[0], b_[1] + d[1]), (a_[0] + d[0] + e[0], a_[1] + d[1] + e[1])]
            quad = [quad[0], quad[2], quad[1], quad[3]] if rng.chance(1, 2) else quad
        else:
            quad = [(rng.range(0, g), rng.range(0, g)) for _ in range(4)]
        ring = quad + [(rng.range(-g, 2 * g), rng.range(-g, 2 * g)) for _ in range(rng.choice([0, 0, 1, 2, 3]))]
        ring = [(x, y, rng.choice([0, 1, 2, 3, 50, -7])) for x, y in ring]
        lines.append('SPLITZ %d %s' % (rng.below(3), fmtz([ring])[2:]))
    a, f1 = vf.par_lines(exez, lines)
    # the model of DoSplitOp takes the geometric decisions (G ...) from the harness, which derives them with the library's own calls
    mlines = list(lines)
    if not f1:
        for i in range(split_from, len(lines)):
            if a[i].startswith('G ') and ' K' in a[i]:
                geom, rest = a[i].split(' K', 1)
                mlines[i], a[i] = lines[i] + ' ' + geom, 'K' + rest
    b, f2 = vf.par_lines(oracle, mlines)
    if f2:
        raise vf.Infra('zerase oracle failed: %s' % (f2[0][2] or f2[0][3])[:500])
    if f1:
        l, rc, err = vf.isolate_failure(exez, f1[0][0])
        ctx.violation('z.crash.kernel', 'kernel command crashed (rc=%s): %s' % (rc, err[-300:]), replay=dict(kind='line', line=l or f1[0][0][0], builds=['z']))
        return []
    bad = []
    for l, ml, x, y in zip(lines, mlines, a, b):
        ctx.count('kernel_evaluations')
        ctx.hist('kernel_commands', l.split()[0])
        if l.startswith('SPLITZ') and ' N -1' not in x and ' K -1' not in x:
            ctx.count('splitz_rings_split_in_two')
        if x != y:
            bad.append(dict(kind='kernel', line=l, model_line=ml, builds=['z'], implementation=x, model=y))
    # ClipperD::ZCB proxy: descaled arguments against the scaled ones (scale is a power of two)
    lines = []
    for _ in range(n // 4):
        m = rng.choice([100, 10 ** 6, 2 ** 40, 2 ** 52, 2 ** 62])
        pts = [(rng.range(-m, m), rng.range(-m, m), rng.choice(ZPOOL)) for _ in range(5)]
        lines.append('ZCBD %d %s' % (rng.range(0, 8), ' '.join('%d %d %d' % p for p in pts)))
    a, f1 = vf.par_lines(exez, lines)
    if f1:
        ctx.violation('z.crash.kernel', 'ZCBD crashed', replay=dict(kind='line', line=f1[0][0][0], builds=['z']))
        return bad
    for l, x in zip(lines, a):
        ctx.count('kernel_evaluations')
        ctx.hist('kernel_commands', 'ZCBD')
        t, o = l.split(), x.split()
        scale = float.fromhex(o[0])
        inv = 1 / scale
        ok = len(o) == 19
        for j in range(5):
            if not ok:
                break
            X, Y, Z = int(t[2 + 3 * j]), int(t[3 + 3 * j]), int(t[4 + 3 * j])
            ok = (float.fromhex(o[1 + 3 * j]) == float(X) * inv and float.fromhex(o[2 + 3 * j]) == float(Y) * inv and int(o[3 + 3 * j]) == Z)
        # only z is copied back
        ok = ok and (int(o[16]), int(o[17]), int(o[18])) == (int(t[14]), int(t[15]), 4242)
        if not ok:
            ctx.violation('z.callback-args', 'ClipperD::ZCB does not pass the descaled edge ends/point (x*invScale, z unchanged) or copies back more than z: %s -> %s' % (l, x[:300]),
                          replay=dict(kind='line', line=l, builds=['z']))
    return bad


# ----------------------------------------------------------------------------- driver
def run(ctx):
    pr = vf.coq_props(ctx, 'C15')
    broken = not pr['ok']
    exes = {}
    try:
        exes['plain'] = vf.build_cpp(ctx, 'cx_z.cpp', 'plain')
        exes['z'] = vf.build_cpp(ctx, 'cx_z.cpp', 'z')
    except vf.BuildFailure as e:
        ctx.violation('tie-break:cx_z', 'Z harness no longer builds: %s' % str(e)[-700:], replay=dict(error=str(e)[-2000:]), nofail=True)
        return
    asan = None
    try:
        asan = vf.build_cpp(ctx, 'cx_z.cpp', 'asanz', timeout=900)
    except vf.BuildFailure as e:
        ctx.notes.append('asanz build failed: %s' % str(e)[-300:])
    mult = 3 if broken else 1
    nb = (150 if ctx.quick else 3000) * mult
    cases = gen_bool(ctx, nb)
    region = vf.oracle_build('region')
    gl = ['GENPOS ' + vf.fmt_paths(xy(c['S']) + xy(c['C']) + [p for p in xy(c['O'])]) if c['cand'] else 'GENPOS 0' for c in cases]
    gp, fails = vf.par_lines(region, gl)
    if fails:
        raise vf.Infra('oracle GENPOS failed: %s' % fails[0][2])
    for c, g in zip(cases, gp):
        # an open path with < 3 points cannot be submitted to the closed-path predicate
        c['gp'] = c['cand'] and g.strip() == '1'
        ctx.hist('bool_regime', c['regime'])
        ctx.hist('bool_general_position', c['gp'])
        ctx.hist('bool_open_paths', len(c['O']))
    kbad = run_kernels(ctx, exes['z'], (3000 if ctx.quick else 60000) * mult)
    nontrivial = run_bool(ctx, exes, cases, asan)
    run_entry_points(ctx, exes, cases)
    run_offset_hist(ctx, exes, (60 if ctx.quick else 1500) * mult)
    sl = gen_slivers(ctx, (6000 if ctx.quick else 120000) * mult)
    gp, fails = vf.par_lines(region, ['GENPOS ' + vf.fmt_paths(xy(c['S']) + xy(c['C'])) for c in sl])
    if fails:
        raise vf.Infra('oracle GENPOS failed: %s' % fails[0][2])
    for c, g in zip(sl, gp):
        c['gp'] = g.strip() == '1'
    run_slivers(ctx, exes, sl)
    run_flat(ctx, exes, (400 if ctx.quick else 8000) * mult)
    run_offset(ctx, exes, (120 if ctx.quick else 3000) * mult)
    run_rect(ctx, exes, (300 if ctx.quick else 6000) * mult)
    ctx.cov['distinct_nontrivial'] = nontrivial
    if cases:
        c = cases[0]
        ctx.sample(dict(S=c['S'], O=c['O'], C=c['C'], options='4 clip types x random fill rule/pc/rs x callback modes 0-3 x DefaultZ'))
    ctx.cov['rule'] = ('identical input lines (vertices x y z; z labels from a pool with repeats, zeros and extremes) through a harness built without and '
                       'with USINGZ (and ASan+UBSan+USINGZ on a subset): Clipper64 and ClipperD boolean operations on general-position closed sets in 5 '
                       'coordinate regimes, with open subjects, and on lattice inputs full of coincidences; ClipperOffset for every join type x random end type, '
                       'deltas of both signs; RectClip/RectClipLines (int64 and double); callback absent / fresh tags / arbitrary values / silent; '
                       'non-trivial = boolean runs in which the callback was called at least once; Z monitor on the inputs the extracted Coq predicate '
                       'general_position accepts (open paths are submitted closed, which is stricter); sliver stream: small-coordinate random polygons and zigzags of nearly '
                       'parallel edges (the inputs that reach DoSplitOp), x,y equality judged on all, Z accounting judged on the general-position ones and '
                       'recorded (nongp.*) on the others; entry points: every case through all four Execute overloads (paths / polytree, with and without the open result) '
                       'of Clipper64 and ClipperD x four callback histories on one object (set; other overload first; set, used, removed; set late), '
                       'ClipperOffset with the callback removed / set late between two Executes; flat stream: nearly horizontal edges crossed a fraction of a unit from a scanline carrying another vertex (the out-of-scanbeam repair of AddNewIntersectNode), no callback x2 / fresh tags / silent; SPLITZ: real DoSplitOp on synthetic rings against the extracted do_split_op_z')
    ctx.cov['dosplitop_reachability'] = (
        'ClipperBase::DoSplitOp (FixSelfIntersects) repairs a proper crossing of two output-ring segments separated by one segment. Ring segments '
        'lie on input edges between rounded events (input vertices / crossings, displaced by < 1.5 units); in general position (base/GenPos.v: every '
        'vertex and crossing >= 3 units from every edge it is not on) two such segments that do not share an end stay > 0 apart, so DoSplitOp is '
        'unreachable and its Z handling is OUTSIDE the quantifier of the Z clause.  Measured: see sliver_stream (runs_reaching_DoSplitOp_gp must be 0; '
        'a general-position run that does reach it is judged like any other).  DoSplitOp itself is tied to the model do_split_op_z (SPLITZ kernel command, '
        'real member function on synthetic rings) so that a change of its Z flow is reported as a correspondence break.')
    ctx.assumptions += ['geometry equality of the two builds is validated on generated inputs, not proved (no model of the whole engine)',
                        'the Z monitor treats callbacks whose edge arguments are not input edges (DoSplitOp) as accounted when the vertex carries the assigned value',
                        'general position as decided by base/GenPos.v']
    if kbad:
        # prefer an example in which the ring is split in two and the callback assigns a value (the Z flow is visible)
        k = min(kbad, key=lambda d: (not (d['line'].startswith('SPLITZ 1') and ' N 3' in d['model']), len(d['line'])))
        ctx.violation('kernel-mismatch:' + k['line'].split()[0], 'z build and Coq model ZErase.v differ on %d kernel inputs, e.g. %s -> implementation %s, model %s'
                      % (len(kbad), k['line'][:140], k['implementation'][:160], k['model'][:160]), replay=k, nofail=not ctx.violations)
    if broken and not ctx.violations:
        ctx.violation('proof-break:Properties_C15', 'Properties_C15 no longer checks: %s' % '; '.join(pr['failed'])[:800],
                      replay=dict(failed=pr['failed'], log=pr['log'][-2000:]), nofail=True)


def replay(ctx, path):
    r = json.load(open(path))['replay']
    ctx.count('evaluations')
    ctx.cov['distinct_nontrivial'] = 1
    outs = {}
    for b in r['builds']:
        exe = vf.build_cpp(ctx, 'cx_z.cpp', b)
        outs[b] = vf.run_lines(exe, [r['line']]).stdout.strip()
        print('%-6s %s' % (b, outs[b]))
    if r.get('kind') == 'kernel':
        ml = r['line']
        if ml.startswith('SPLITZ') and outs['z'].startswith('G ') and ' K' in outs['z']:
            geom, rest = outs['z'].split(' K', 1)       # the model takes the geometric decisions from the harness
            ml, outs['z'] = ml + ' ' + geom, 'K' + rest
        m = vf.run_lines(vf.oracle_build('zerase'), [ml]).stdout.strip()
        print('model  %s' % m)
        if m != outs['z']:
            ctx.violation('kernel-mismatch:' + r['line'].split()[0], 'replayed kernel mismatch', replay=r, nofail=True)
        return
    xs = {split_out(o)[0] for o in outs.values()}
    if len(xs) > 1:
        ctx.violation('z.xy-differs.replay', 'replayed: x,y results differ between builds', replay=r)
    if 'vertex' in r:
        print('vertex in question:', r['vertex'])
        ctx.violation('z.unaccounted-vertex', 'replayed (see the vertex/z lists above)', replay=r)
