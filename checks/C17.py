"""C17 -- the C export layer marshals faithfully and forwards every parameter.

prove      coq/props/Properties_C17.v: array layouts round-trip, state their length, are written/read in bounds
           (all lists and trees, int64 and double elements, D = 2 and 3); forwarding and validation-prologue
           theorems over coq/gen/Gen_export.v, regenerated from clipper.export.h by cpp2v/export_table.py.
correspond harness/cx_export.cpp (plain, z, asan, asanz):
           HM+X  the marshalling kernels (CreateCPaths*/ConvertCPath*/CreateCPolyTree*) called directly, raw arrays
                 compared element by element with the extracted model (bin/oracle_export);
           DIFF  each of the 14 extern "C" functions against the native C++ call with the same arguments over the
                 option grid; raw result arrays decoded with the extracted dec_paths/dec_tree and native results
                 re-encoded with the extracted enc_paths/enc_tree, compared exactly;
           return codes of invalid arguments against the evaluated translated prologue;
           ZH    USINGZ variants: histories of SetZCallback64 / SetZCallbackD (fresh-tag, arbitrary-value, leave-z callbacks, null)
                 and calls of the four boolean exports on inputs carrying z labels; every call against a fresh Clipper64 /
                 ClipperD(precision) with SetZCallback(the callback the history says is registered) or none: x, y, z bit for bit,
                 same path order, same callback invocations (count and argument hash); set / call / sibling export / reset / call;
           KE    the same calls with input arrays built by the harness's own encoder the way a C client may build them
                 (every path an entry, an empty one as `0, 0`, C counting every entry -- the library's creators never
                 write such an entry): decoders against the extracted dec_paths (theorem C17_dec_hand_built: exactly
                 those paths, empty ones included), each export against the native call on those paths.
"""
import json, os, re, struct, sys, time, concurrent.futures as cf
import vf
sys.path.insert(0, os.path.join(vf.VERIF, 'cpp2v'))
import export_table

PID = 'C17'
META = dict(
    text='Coq theorems for all path sets and polytrees: decode(encode(ps)) = non-empty paths of ps, first element = '
         'number of elements written, all writes inside the allocation and all reads inside the stated length '
         '(int64 and double arrays, with and without z); decode of an array a caller built from the documented layout with empty-path '
         'entries (`0, 0`) returns exactly those paths, empty ones included (C17_dec_hand_built); forwarding and validation-code theorems over a table '
         'translated from the current clipper.export.h on every run, incl. C17_zcallback_forwarded: in the USINGZ configuration each boolean '
         'export hands the registration global of its family to SetZCallback of the clipper it executes, in front of Execute.',
    note='The array model is a hand model tied to the code by exact element-by-element correspondence on generated '
         'inputs (plain/USINGZ, ASan+UBSan), input arrays built by the harness\'s own encoder both the way the library writes them and with '
         'empty-path entries kept (which the library\'s creators never write); the forwarding table is regenerated from the source by clang JSON AST '
         '(trusted translator, cross-checked by the differential run of all 14 exports against native calls over the '
         'option grid; the Z callback registration by histories of SetZCallback64/D and calls in the USINGZ variants, each call against the native '
         'call with the same callback installed via SetZCallback). Scaled double<->int64 conversions are compared with the library\'s own ScalePaths, not modelled.',
    technique='Coq 8.16 proofs (induction over lists/trees, vm_compute over the translated table) + extracted OCaml '
              'oracle + differential C++ harness',
    category='proof')

FN_OF_CMD = {'BOOL64': 'BooleanOp64', 'BOOLD': 'BooleanOpD', 'TREE64': 'BooleanOp_PolyTree64', 'TREED': 'BooleanOp_PolyTreeD',
             'INFL64': 'InflatePaths64', 'INFLD': 'InflatePathsD', 'INFP64': 'InflatePath64', 'INFPD': 'InflatePathD',
             'RC64': 'RectClip64', 'RCD': 'RectClipD', 'RCL64': 'RectClipLines64', 'RCLD': 'RectClipLinesD',
             'MS64': 'MinkowskiSum64', 'MD64': 'MinkowskiDiff64'}
DKIND = {'BOOLD', 'TREED', 'INFLD', 'INFPD', 'RCD', 'RCLD', 'MKD', 'MKS', 'MTD', 'MPD', 'HKD', 'HKS'}
TAGS = {'ARR', 'DEC', 'CMP', 'NAT', 'NATB', 'RC', 'UNTOUCHED', 'A1', 'A2', 'N1', 'N2', 'NT', 'PUB', 'NULLRET', 'EXC', 'ERR', 'STEP', 'ST', 'CB'}
# ZH (USINGZ variants only): histories of SetZCallback64/SetZCallbackD and calls of the four boolean exports
ZH_FN = ['BOOL64', 'TREE64', 'BOOLD', 'TREED']            # fn code of a step -> command whose result format the step prints
ZH_MODE = ['none', 'tag-fresh', 'write-arbitrary', 'leave-z']   # callback behaviours (0 = null pointer registered)


def cmd_of(line):
    t = line.split()
    return t[1] if t and t[0] == 'KE' and len(t) > 1 else (t[0] if t else '')


def bits(x):
    return struct.unpack('<Q', struct.pack('<d', float(x)))[0]


def unbits(u):
    return struct.unpack('<d', struct.pack('<Q', u))[0]


# ------------------------------------------------------------------------------------------- generators
class Gen:
    def __init__(self, rng, D):
        self.r, self.D = rng, D

    def z(self):
        r = self.r
        k = r.below(6)
        if k == 0:
            return 0
        if k == 1:
            return r.range(-5, 5)
        if k == 2:
            return r.range(-(1 << 62), 1 << 62)
        return r.range(-1000, 1000)

    def vert(self, x, y):
        return [x, y] + ([self.z()] if self.D == 3 else [])

    def poly(self, n=None, box=60, collinear=False):
        r = self.r
        n = n if n is not None else r.range(3, 8)
        cx, cy = r.range(-box, box), r.range(-box, box)
        pts = [(cx + r.range(-box, box), cy + r.range(-box, box)) for _ in range(n)]
        if collinear and n >= 2:
            # insert midpoints (collinear vertices) so that preserve_collinear is observable
            out = []
            for i, (x, y) in enumerate(pts):
                x2, y2 = pts[(i + 1) % n]
                out.append((2 * x, 2 * y))
                out.append((x + x2, y + y2))
            pts = out
        return [self.vert(x, y) for x, y in pts]

    def rectpoly(self, x0, y0, w, h, mids=True):
        pts = [(x0, y0), (x0 + w, y0), (x0 + w, y0 + h), (x0, y0 + h)]
        if mids:
            out = []
            for i, (x, y) in enumerate(pts):
                x2, y2 = pts[(i + 1) % 4]
                out += [(2 * x, 2 * y), (x + x2, y + y2)]
            pts = out
        return [self.vert(x, y) for x, y in pts]

    def pathset(self, kind=None):
        r = self.r
        kind = kind if kind is not None else r.below(8)
        if kind == 0:
            return []
        if kind == 1:
            return [[]]
        if kind == 2:
            return [self.rectpoly(r.range(-40, 0), r.range(-40, 0), r.range(10, 60), r.range(10, 60))]
        if kind == 3:
            return [self.poly(collinear=True), [], self.poly(r.range(1, 2))]
        if kind == 4:
            return [self.poly() for _ in range(r.range(1, 3))]
        if kind == 5:
            return [self.rectpoly(0, 0, 40, 40), self.rectpoly(10, 10, 20, 20)[::-1]]
        if kind == 6:
            return [self.poly(collinear=True) for _ in range(2)]
        return [self.poly(r.range(1, 5)), self.rectpoly(r.range(-30, 30), r.range(-30, 30), 25, 35)]

    def openset(self):
        r = self.r
        k = r.below(4)
        if k == 0:
            return []
        return [self.poly(r.range(1, 6)) for _ in range(r.range(1, 2))]


def fmt_p64(p):
    return ' '.join([str(len(p))] + [str(c) for v in p for c in v])


def fmt_ps64(ps):
    return ' '.join([str(len(ps))] + [fmt_p64(p) for p in ps])


def to_d(v, div):
    """integer model vertex -> double vertex (x/div, y/div as bits, z kept)"""
    return [bits(v[0] / div), bits(v[1] / div)] + [z & 0xFFFFFFFFFFFFFFFF for z in v[2:]]


def fmt_pD(p, div):
    return ' '.join([str(len(p))] + [str(c) for v in p for c in to_d(v, div)])


def fmt_psD(ps, div):
    return ' '.join([str(len(ps))] + [fmt_pD(p, div) for p in ps])


DELTAS = [-7.5, -2.0, -0.3, 0.0, 0.4, 1.5, 6.0, 15.0]
MITERS = [0.5, 1.0, 2.0, 3.0, 10.0]
ARCS = [0.0, 0.05, 0.25, 1.0, 4.0]
PRECS = list(range(-8, 9))
BAD_PRECS = [-9, 9, 100, -1000]


def div_for(prec, rng):
    """coordinates x/div carry decimals beyond the precision so that rounding is exercised; for negative precision
    coordinates are made large instead"""
    if prec >= 0:
        return rng.choice([1, 4, 8, 1000])
    return 10.0 ** prec            # x / 10^prec = x * 10^-prec


# builders: one exported-function call from an argument dictionary
def mk_bool(cmd, a):
    if cmd in ('BOOL64', 'TREE64'):
        line = '%d %d %d %d %d %s %s %s' % (a['cliptype'], a['fillrule'], a['preserve_collinear'], a['reverse_solution'], a['nulls'],
                                            fmt_ps64(a['subj']), fmt_ps64(a['subo']), fmt_ps64(a['clip']))
    else:
        dv = a['dv']
        line = '%d %d %d %d %d %d %s %s %s' % (a['cliptype'], a['fillrule'], a['precision'], a['preserve_collinear'], a['reverse_solution'],
                                               a['nulls'], fmt_psD(a['subj'], dv), fmt_psD(a['subo'], dv), fmt_psD(a['clip'], dv))
    info = {k: a[k] for k in ('cliptype', 'fillrule', 'preserve_collinear', 'reverse_solution', 'nulls')}
    if cmd in ('BOOLD', 'TREED'):
        info['precision'] = a['precision']
    return line, info


def mk_infl(cmd, a):
    """delta / arc_tolerance are given in integer-model units; the D variants get them divided like the coordinates"""
    if cmd in ('INFL64', 'INFP64'):
        head = '%d %d %d %d %d %d' % (bits(a['delta']), a['jointype'], a['endtype'], bits(a['miter_limit']), bits(a['arc_tolerance']), a['reverse_solution'])
        body = fmt_ps64(a['paths']) if cmd == 'INFL64' else fmt_p64(a['path'])
        info = {k: a[k] for k in ('delta', 'jointype', 'endtype', 'miter_limit', 'arc_tolerance', 'reverse_solution')}
    else:
        dv = a['dv']
        dl, at = a['delta'] / dv, a['arc_tolerance'] / dv
        head = '%d %d %d %d %d %d %d' % (bits(dl), a['jointype'], a['endtype'], a['precision'], bits(a['miter_limit']), bits(at), a['reverse_solution'])
        body = fmt_psD(a['paths'], dv) if cmd == 'INFLD' else fmt_pD(a['path'], dv)
        info = dict(delta=dl, jointype=a['jointype'], endtype=a['endtype'], precision=a['precision'], miter_limit=a['miter_limit'],
                    arc_tolerance=at, reverse_solution=a['reverse_solution'])
    return head + ' ' + body, info


def gen_cases(ctx, D):
    """list of (cmd, line, info) -- the same logical cases for D=2 and D=3 (z components added)"""
    rng = vf.Rng(ctx.seed, 1700 + D)
    g = Gen(rng, D)
    quick = ctx.quick
    cases = []

    def add(cmd, line, **info):
        cases.append((cmd, ('KE ' if info.get('ke') else '') + cmd + ' ' + line, info))

    def with_empties(ps):
        """the same set with empty paths inserted -- at least one of them in front of another path when there is one"""
        ps = [list(p) for p in ps]
        ps.insert(rng.below(max(1, len(ps))), [])
        for _ in range(rng.below(3)):
            ps.insert(rng.below(len(ps) + 1), [])
        return ps

    # ---- marshalling kernels
    nm = 600 if quick else 6000
    for i in range(nm):
        k = rng.below(10)
        if k == 0:
            ps = [[g.vert(rng.range(-(1 << 63), (1 << 63) - 1), rng.range(-(1 << 63), (1 << 63) - 1)) for _ in range(rng.range(0, 4))]
                  for _ in range(rng.range(0, 4))]
        else:
            ps = g.pathset() + ([[]] if rng.chance(1, 4) else []) + (g.pathset() if rng.chance(1, 2) else [])
            rng.shuffle(ps)
        add('MK64', fmt_ps64(ps), paths=len(ps))
        # doubles: arbitrary bit patterns now and then (NaN payloads, inf, -0.0, subnormals)
        if rng.chance(1, 5):
            psd = [[[rng.next(), rng.next()] + ([g.z() & 0xFFFFFFFFFFFFFFFF] if D == 3 else []) for _ in range(rng.range(0, 4))] for _ in range(rng.range(0, 3))]
            add('MKD', ' '.join([str(len(psd))] + [' '.join([str(len(p))] + [str(c) for v in p for c in v]) for p in psd]), paths=len(psd))
        else:
            add('MKD', fmt_psD(ps if k else [], rng.choice([1, 3, 7, 1000])), paths=len(ps))
        if k:
            sc = rng.choice([1.0, 0.01, 100.0, 1e-8, 1e8, 0.5, 3.0])
            add('MKS', '%d %s' % (bits(sc), fmt_ps64(ps)), scale=sc)
        p = g.poly(rng.range(0, 6))
        add('MP64', fmt_p64(p))
        add('MPD', fmt_pD(p, rng.choice([1, 3, 1000])))
        add('MPS', '%d %s' % (bits(rng.choice([1.0, 100.0, 0.01, 1e8])), fmt_pD(p, rng.choice([1, 3, 1000]))))

        def tree(depth):
            n = rng.range(0, 3) if depth < 3 else 0
            return [(g.poly(rng.range(0, 5)), tree(depth + 1)) for _ in range(n)]

        def fmt_tree(t, dbl):
            def node(nd):
                poly, ch = nd
                body = ' '.join(str(c) for v in poly for c in (to_d(v, 4) if dbl else v))
                return ' '.join(x for x in ['%d %d' % (len(poly), len(ch)), body] + [node(c) for c in ch] if x)
            return ' '.join([str(len(t))] + [node(c) for c in t])
        t = tree(0)
        add('MT64', fmt_tree(t, False))
        add('MTD', fmt_tree(t, True))
        # caller-built arrays (empty paths kept as `0, 0` entries, anywhere in the array) straight into the decoders
        hk = with_empties(ps) if i % 3 else ps
        add('HK64', fmt_ps64(hk), paths=len(hk), empties=sum(1 for q in hk if not q))
        add('HKD', fmt_psD(hk if k else with_empties([g.poly(rng.range(1, 3))]), rng.choice([1, 3, 7, 1000])), paths=len(hk))
        add('HKS', '%d %s' % (bits(rng.choice([1.0, 100.0, 0.01, 1e8, 0.5])), fmt_psD(hk if k else [[]], rng.choice([1, 3, 1000]))))

    # ---- boolean operations: full ct x fr x pc x rs grid on several inputs
    nin = 6 if quick else 24
    for rep in range(nin):
        subj = g.pathset(2 + rep % 6 if rep < 6 else None)
        clip = g.pathset(rng.choice([2, 4, 5, 6, 7])) if rep % 4 != 3 else g.pathset(rng.below(2))
        subo = g.openset()
        for ct in range(5):
            for fr in range(4):
                for pc in (0, 1):
                    for rs in (0, 1):
                        prec = rng.choice(PRECS)
                        a = dict(cliptype=ct, fillrule=fr, preserve_collinear=pc, reverse_solution=rs, nulls=rng.below(8),
                                 subj=subj, subo=subo, clip=clip, precision=prec, dv=div_for(prec, rng))
                        for cmd in ('BOOL64', 'TREE64', 'BOOLD', 'TREED'):
                            line, info = mk_bool(cmd, a)
                            add(cmd, line, **info)
    for prec in PRECS:      # every precision at least once per D function
        a = dict(cliptype=rng.range(1, 4), fillrule=rng.below(4), preserve_collinear=rng.below(2), reverse_solution=rng.below(2), nulls=0,
                 subj=g.pathset(6), subo=[], clip=g.pathset(2), precision=prec, dv=div_for(prec, rng))
        for cmd in ('BOOLD', 'TREED'):
            line, info = mk_bool(cmd, a)
            add(cmd, line, **info)
    # invalid arguments: codes and priorities
    for ct in (0, 4, 5, 17, 255):
        for fr in (0, 3, 4, 200):
            for prec in (2, -8, 8) + tuple(BAD_PRECS):
                if ct <= 4 and fr <= 3 and -8 <= prec <= 8:
                    continue
                a = dict(cliptype=ct, fillrule=fr, preserve_collinear=1, reverse_solution=0, nulls=0, subj=g.pathset(2), subo=[], clip=g.pathset(2),
                         precision=prec, dv=1)
                for cmd in (('BOOL64', 'TREE64') if prec == 2 else ()) + ('BOOLD', 'TREED'):
                    line, info = mk_bool(cmd, a)
                    add(cmd, line, invalid=True, **info)

    # ---- offsetting: jt x et x rs full, numeric options cycled so that every value meets every jt/et
    nin = 3 if quick else 10
    k = 0
    for rep in range(nin):
        ps = [g.poly(collinear=True)] if rep == 0 else g.pathset(rng.choice([2, 3, 4, 5, 6, 7]))
        single = g.poly(rng.range(1, 6), collinear=(rep % 2 == 0))
        for jt in range(4):
            for et in range(5):
                for rs in (0, 1):
                    for dl in (DELTAS if not quick else [DELTAS[(k + i * 3) % len(DELTAS)] for i in range(3)]):
                        k += 1
                        ml, at = MITERS[k % len(MITERS)], ARCS[(k // 2) % len(ARCS)]
                        if rng.chance(1, 3):
                            ml, at = rng.choice(MITERS), rng.choice(ARCS)
                        prec = PRECS[k % len(PRECS)]
                        a = dict(delta=dl, jointype=jt, endtype=et, miter_limit=ml, arc_tolerance=at, reverse_solution=rs,
                                 paths=ps, path=single, precision=prec, dv=div_for(prec, rng))
                        for cmd in ('INFL64', 'INFP64', 'INFLD', 'INFPD'):
                            line, info = mk_infl(cmd, a)
                            add(cmd, line, **info)
    for prec in BAD_PRECS:
        a = dict(delta=2.0, jointype=2, endtype=0, miter_limit=2.0, arc_tolerance=0.0, reverse_solution=0, paths=g.pathset(2), path=g.poly(4),
                 precision=prec, dv=1)
        for cmd in ('INFLD', 'INFPD'):
            line, info = mk_infl(cmd, a)
            add(cmd, line, invalid=True, **info)

    # ---- option sensitivity pairs: the same call twice, differing in exactly one option.  They are ordinary differential
    # cases; in addition the check counts in how many pairs the *native* results differ, i.e. how many inputs would expose
    # a dropped or misrouted option.
    npair = 6 if quick else 30
    pid = 0
    for rep in range(npair):
        base = dict(cliptype=rng.range(1, 4), fillrule=rng.below(4), preserve_collinear=1, reverse_solution=0, nulls=0,
                    subj=g.pathset(rng.choice([2, 3, 5, 6])), subo=g.openset(), clip=g.pathset(rng.choice([2, 4, 6, 7])), precision=2, dv=4)
        alts = dict(cliptype=(base['cliptype'] % 4) + 1, fillrule=(base['fillrule'] + 1) % 4, preserve_collinear=0, reverse_solution=1, precision=0)
        for opt, val in alts.items():
            for cmd in ('BOOL64', 'TREE64', 'BOOLD', 'TREED'):
                if opt == 'precision' and cmd in ('BOOL64', 'TREE64'):
                    continue
                pid += 1
                for a in (base, dict(base, **{opt: val})):
                    line, info = mk_bool(cmd, a)
                    add(cmd, line, pair=pid, option=opt, **info)
        jt = rep % 4
        base = dict(delta=6.0, jointype=jt, endtype=rng.choice([0, 1, 4]) if rep % 2 else 0, miter_limit=2.0, arc_tolerance=0.0, reverse_solution=0,
                    paths=[g.poly(collinear=True), g.poly(3)], path=g.poly(rng.range(3, 6), collinear=True), precision=2, dv=4)
        alts = dict(delta=-3.0 if base['endtype'] == 0 else 9.0, jointype=(jt + 1) % 4, endtype=(base['endtype'] + 2) % 5,
                    miter_limit=6.0, arc_tolerance=1.5, reverse_solution=1, precision=1)
        for opt, val in alts.items():
            b = dict(base)
            if opt == 'miter_limit':
                b['jointype'] = 3
            if opt == 'arc_tolerance':
                b['jointype'] = 2
            for cmd in ('INFL64', 'INFP64', 'INFLD', 'INFPD'):
                if opt == 'precision' and cmd in ('INFL64', 'INFP64'):
                    continue
                pid += 1
                for a in (b, dict(b, **{opt: val})):
                    line, info = mk_infl(cmd, a)
                    add(cmd, line, pair=pid, option=opt, **info)

    # ---- caller-built input arrays with empty-path entries (KE): every export that takes a CPaths argument
    nke = 5 if quick else 20
    for rep in range(nke):
        subj = with_empties(g.pathset(rng.choice([2, 4, 5, 6, 7])) + g.pathset(rng.choice([2, 4])))
        clip = with_empties(g.pathset(rng.choice([2, 4, 5, 6, 7])))
        subo = with_empties(g.openset() + [g.poly(rng.range(2, 5))])
        for ct in range(5):
            for fr in range(4):
                prec = rng.choice(PRECS)
                a = dict(cliptype=ct, fillrule=fr, preserve_collinear=rng.below(2), reverse_solution=rng.below(2), nulls=rng.choice([0, 0, 2, 4]),
                         subj=subj, subo=subo, clip=clip, precision=prec, dv=div_for(prec, rng))
                for cmd in ('BOOL64', 'TREE64', 'BOOLD', 'TREED'):
                    line, info = mk_bool(cmd, a)
                    add(cmd, line, ke=True, **info)
        ps = with_empties([g.poly(collinear=(rep % 2 == 0)) for _ in range(rng.range(1, 3))])
        for jt in range(4):
            for et in range(5):
                k += 1
                prec = PRECS[k % len(PRECS)]
                a = dict(delta=DELTAS[k % len(DELTAS)], jointype=jt, endtype=et, miter_limit=MITERS[k % len(MITERS)], arc_tolerance=ARCS[k % len(ARCS)],
                         reverse_solution=k % 2, paths=ps, path=[], precision=prec, dv=div_for(prec, rng))
                for cmd in ('INFL64', 'INFLD'):
                    line, info = mk_infl(cmd, a)
                    add(cmd, line, ke=True, **info)

    # ---- rectangle clipping (rectangles placed over the paths, plus empty / inverted ones)
    nrc = 250 if quick else 2000
    for i in range(nrc):
        ps = g.pathset(rng.choice([0, 1, 3, 4, 6, 7, 4, 6]))
        ke = (i % 3 == 0)
        if ke:
            ps = with_empties(ps)
        l, t = rng.range(-60, 20), rng.range(-60, 20)
        w, h = rng.choice([0, -5, 1, 20, 50, 90, 140]), rng.choice([0, -3, 1, 25, 60, 130])
        nulls = 1 if (not ps and rng.chance(1, 2)) else 0
        info = dict(rect=[l, t, l + w, t + h], nulls=nulls)
        if ke:
            info['ke'] = True
        add('RC64', '%d %d %d %d %d %s' % (l, t, l + w, t + h, nulls, fmt_ps64(ps)), **info)
        add('RCL64', '%d %d %d %d %d %s' % (l, t, l + w, t + h, nulls, fmt_ps64(ps)), **info)
        prec = PRECS[i % len(PRECS)] if i % 9 else rng.choice(BAD_PRECS)
        dv = div_for(max(-8, min(8, prec)), rng)
        rd = '%d %d %d %d' % (bits(l / dv), bits(t / dv), bits((l + w) / dv), bits((t + h) / dv))
        infod = dict(info, precision=prec, invalid=not -8 <= prec <= 8)
        add('RCD', '%s %d %d %s' % (rd, prec, nulls, fmt_psD(ps, dv)), **infod)
        add('RCLD', '%s %d %d %s' % (rd, prec, nulls, fmt_psD(ps, dv)), **infod)

    # ---- Minkowski
    nmk = 150 if quick else 1000
    for i in range(nmk):
        pat = g.poly(rng.range(0, 5), box=15)
        path = g.poly(rng.range(0, 6), box=40)
        for closed in (0, 1):
            add('MS64', '%d %s %s' % (closed, fmt_p64(pat), fmt_p64(path)), is_closed=closed)
            add('MD64', '%d %s %s' % (closed, fmt_p64(pat), fmt_p64(path)), is_closed=closed)

    # ---- Z callbacks registered through SetZCallback64 / SetZCallbackD (USINGZ only): histories of set / call steps
    if D == 3:
        nzh = 40 if quick else 300
        for rep in range(nzh):
            subj = g.pathset(rng.choice([4, 5, 6, 7, 2, 3, 4, 6]))
            clip = g.pathset(rng.choice([2, 4, 5, 6, 7, 4]))
            subo = g.openset() if rep % 3 else [g.poly(rng.range(2, 5))]
            m, m2 = rng.range(1, 3), rng.range(1, 3)
            s64, sD = (lambda mode: 1 + mode), (lambda mode: 5 + mode)     # set-op codes; mode 0 = null pointer
            templates = [
                # set, call, call the other export of the family (same global), reset to null, call, call
                [(s64(m), 0), (0, 1), (s64(0), 0), (0, 1)],
                [(sD(m), 2), (0, 3), (sD(0), 2), (0, 3)],
                # tree export first; replace the callback by another one; reset
                [(s64(m), 1), (0, 0), (s64(m2), 0), (s64(0), 1)],
                [(sD(m), 3), (0, 2), (sD(m2), 2), (sD(0), 3)],
                # the two registrations are independent of each other
                [(s64(m), 2), (0, 0), (sD(m2), 0), (0, 3), (s64(0), 3), (sD(0), 1), (0, 2)],
                # never set
                [(0, 0), (0, 1), (0, 2), (0, 3)],
                # arbitrary history
                [(rng.below(9), rng.below(4)) for _ in range(rng.range(3, 6))],
            ]
            for steps in templates:
                prec = rng.choice(PRECS)
                st = [[so, fn, rng.choice([0, 1, rng.range(-(1 << 40), 1 << 40), rng.range(-1000, 1000)]), rng.next()] for so, fn in steps]
                a = dict(cliptype=rng.range(1, 4) if rng.chance(9, 10) else 0, fillrule=rng.below(4), precision=prec, preserve_collinear=rng.below(2),
                         reverse_solution=rng.below(2), nulls=rng.choice([0, 0, 0, 2, 4, 1]))
                line = '%d %d %d %d %d %d %d %d %s %s %s %s' % (
                    a['cliptype'], a['fillrule'], prec, a['preserve_collinear'], a['reverse_solution'], a['nulls'], bits(div_for(prec, rng)), len(st),
                    ' '.join('%d %d %d %d' % tuple(x) for x in st), fmt_ps64(subj), fmt_ps64(subo), fmt_ps64(clip))
                add('ZH', line, steps=[[x[0], ZH_FN[x[1]]] for x in st], **a)
    return cases


# ------------------------------------------------------------------------------------------- result parsing
def split_tags(line):
    toks = line.split()
    out, cur = {}, None
    for tk in toks:
        if tk in TAGS and (cur is None or tk not in out):
            cur = tk
            out[cur] = []
        elif cur is not None:
            out[cur].append(tk)
    return out


def nonempty_paths_text(tokens, D):
    """drop empty paths from a path-set token list; returns canonical text"""
    n = int(tokens[0]); pos = 1
    ps = []
    for _ in range(n):
        k = int(tokens[pos]); pos += 1
        vs = tokens[pos:pos + k * D]; pos += k * D
        if k:
            ps.append([str(k)] + vs)
    return ' '.join([str(len(ps))] + [' '.join(p) for p in ps])


class Checker:
    """turns harness result lines into oracle queries and verdicts"""

    def __init__(self, D):
        self.D = D
        self.queries = []     # oracle lines
        self.expect = []      # (case index, what, expected text or None, kind)
        self.where = ''       # prefix of `what` (the step of a ZH history)

    def q(self, idx, what, query, expected):
        self.queries.append(query)
        self.expect.append((idx, self.where + what, expected))

    def arr_vs_native(self, idx, cmd, arr, nat, nullable_creator, null_by_prologue):
        D, e = self.D, ('F' if cmd in DKIND else 'I')
        arr_t, nat_t = ' '.join(arr), ' '.join(nat)
        want_dec = nonempty_paths_text(nat, D)
        if arr_t == 'NULL':
            ok_null = (nullable_creator and nat[0] == '0') or (null_by_prologue and want_dec == '0')
            if not ok_null:
                return ['null array but native result is %s' % nat_t[:80]]
        else:
            self.q(idx, 'native results re-encoded by the model differ from the returned array',
                   '%s %s %d %s' % ('ENCN' if nullable_creator else 'ENC', e, D, nat_t), arr_t)
        self.q(idx, 'returned array decoded by the model differs from the native result',
               'DEC %s %d %s' % (e, D, arr_t), want_dec)
        return []

    def add(self, idx, cmd, res):
        """returns a list of immediate problems"""
        D, e = self.D, ('F' if cmd in DKIND else 'I')
        f = split_tags(res)
        probs = []
        if 'EXC' in f or 'ERR' in f or not f:
            return ['harness: ' + res[:200]]
        if cmd in ('MK64', 'MKD'):
            # input is re-read from the case line by the caller; here: ARR vs model handled by caller
            pass
        if 'CMP' in f and f['CMP'] != ['1']:
            probs.append('harness-side decode of the returned array differs from the native result')
        if 'PUB' in f and f['PUB'] == ['0']:
            probs.append('result differs from the public InflatePaths() with the same arguments')
        if 'NULLRET' in f and f['NULLRET'] != ['1']:
            probs.append('invalid precision did not return nullptr')
        if cmd in FN_OF_CMD and 'A1' in f:
            if 'NT' in f:
                a, nt = ' '.join(f['A1']), ' '.join(f['NT'])
                self.q(idx, 'native tree re-encoded by the model differs from the returned array', 'ENCT %s %d %s' % (e, D, nt), a)
                self.q(idx, 'returned tree array decoded by the model differs from the native tree', 'DECT %s %d %s' % (e, D, a), nt)
            else:
                probs += self.arr_vs_native(idx, cmd, f['A1'], f['N1'], cmd in DKIND, cmd in ('RC64', 'RCL64', 'RCD', 'RCLD'))
            if 'A2' in f:
                probs += self.arr_vs_native(idx, cmd, f['A2'], f['N2'], cmd in DKIND, False)
        return probs


def zh_parse(line):
    """ZH input line -> (steps [(setop, fn, base, salt)], {(x, y): set of z} over all input vertices)"""
    t = line.split()[1:]
    n = int(t[7])
    steps = [tuple(int(x) for x in t[8 + 4 * i:12 + 4 * i]) for i in range(n)]
    pos, locs = 8 + 4 * n, {}
    for _ in range(3):
        k = int(t[pos]); pos += 1
        for _ in range(k):
            m = int(t[pos]); pos += 1
            for j in range(m):
                locs.setdefault((t[pos], t[pos + 1]), set()).add(t[pos + 2])
                pos += 3
    return steps, locs


def zh_check(ck, idx, line, res, stats):
    """one ZH history: every step's registration state, callback log and result against the native call with the callback
    the history says is registered (harness side), arrays against the extracted model (oracle queries via ck.add).
    Returns [(fn name or None, problem)]."""
    steps, locs = zh_parse(line)
    secs = res.split(' | ')
    if res.startswith(('EXC', 'ERR')) or len(secs) != len(steps):
        return [(None, 'harness: ' + res[:200])]
    probs = []
    reg = {'64': 0, 'D': 0}            # the mode the history says is registered in dllCallback64 / dllCallbackD
    ever = {'64': False, 'D': False}
    setter_fn = {'64': None, 'D': None}  # the export called first after the last registration
    by_fn = {}
    stats['histories'] = stats.get('histories', 0) + 1
    for k, ((setop, fn, base, salt), sec) in enumerate(zip(steps, secs)):
        if 1 <= setop <= 4:
            reg['64'] = setop - 1; ever['64'] = ever['64'] or setop > 1; setter_fn['64'] = None
        elif setop >= 5:
            reg['D'] = setop - 5; ever['D'] = ever['D'] or setop > 5; setter_fn['D'] = None
        fam = '64' if fn < 2 else 'D'
        mode = reg[fam]
        name = FN_OF_CMD[ZH_FN[fn]]
        hist = ' '.join('%s%s' % ({0: ''}.get(so, 'SetZCallback%s(%s);' % ('64' if so < 5 else 'D', ZH_MODE[(so - 1) % 4])), FN_OF_CMD[ZH_FN[f2]])
                        for so, f2, _, _ in steps[:k + 1])
        where = 'step %d %s with callback %s registered by the history [%s]: ' % (k, name, ZH_MODE[mode], hist)
        f = split_tags(sec)
        if 'EXC' in f or 'ERR' in f or f.get('STEP') != [str(fn)] or len(f.get('ST', [])) != 4:
            probs.append((name, where + 'harness: ' + sec[:200]))
            continue
        want = [str(int(reg['64'] != 0)), str(int(reg['D'] != 0))]
        if f['ST'][2:] != want:
            probs.append((name, where + 'harness: its view of the history %s differs from the check\'s %s' % (f['ST'][2:], want)))
            continue
        if f['ST'][:2] != want:
            # a look at the two globals, not a verdict (the verdict is the behaviour of the call below): named in the message only
            where = where[:-2] + ' {the globals dllCallback64 / dllCallbackD hold a callback: %s, the history says: %s}: ' % (' '.join(f['ST'][:2]), ' '.join(want))
            stats['steps_where_the_globals_disagree_with_the_history'] = stats.get('steps_where_the_globals_disagree_with_the_history', 0) + 1
        if f.get('RC') != ['0']:
            probs.append((name, where + 'return code %s for valid arguments' % f.get('RC')))
            continue
        cb = f.get('CB', [])
        if len(cb) != 4:
            probs.append((name, where + 'harness: ' + sec[:200]))
            continue
        if cb[:2] != cb[2:]:
            probs.append((name, where + 'callback invocations differ: exported call %s invocations (argument hash %s), native call with '
                                         'SetZCallback %s invocations (argument hash %s)' % (cb[0], cb[1], cb[2], cb[3])))
        if mode == 0 and cb[0] != '0':
            probs.append((name, where + 'a callback was invoked %s times although none is registered' % cb[0]))
        ck.where = 'ZH ' + where
        for p in ck.add(idx, ZH_FN[fn], sec):
            probs.append((name, where + p + ' (x, y and z compared bit for bit, same path order)'))
        ck.where = ''
        # ---- evidence
        stats['steps'] = stats.get('steps', 0) + 1
        stats.setdefault('steps_by_export_and_callback', {}).setdefault(name, {}).setdefault(ZH_MODE[mode], 0)
        stats['steps_by_export_and_callback'][name][ZH_MODE[mode]] += 1
        if cb[0] != '0':
            stats['steps_where_the_callback_was_invoked'] = stats.get('steps_where_the_callback_was_invoked', 0) + 1
        if mode == 0 and ever[fam]:
            stats['steps_after_reset_to_null'] = stats.get('steps_after_reset_to_null', 0) + 1
        if mode != 0:
            if setter_fn[fam] is None:
                setter_fn[fam] = fn
            elif setter_fn[fam] != fn:
                stats['steps_seeing_a_registration_first_used_by_the_other_export'] = stats.get('steps_seeing_a_registration_first_used_by_the_other_export', 0) + 1
        by_fn.setdefault(fn, {}).setdefault(mode != 0, set()).add(' '.join(f.get('N1', []) + f.get('NT', []) + ['/'] + f.get('N2', [])))
        if fn == 0 and 'N1' in f:
            t = f['N1']; pos = 1
            for _ in range(int(t[0])):
                m = int(t[pos]); pos += 1
                for j in range(m):
                    zs = locs.get((t[pos], t[pos + 1]))
                    if zs is not None:
                        d = stats.setdefault('BooleanOp64_result_vertices_at_input_locations', {}).setdefault(ZH_MODE[mode], [0, 0])
                        d[1] += 1                  # [carrying a z given at that location, all]
                        if t[pos + 2] in zs:
                            d[0] += 1
                    pos += 3
    both = [fn for fn, d in by_fn.items() if True in d and False in d]
    if both:
        stats['histories_with_and_without_callback_on_one_export'] = stats.get('histories_with_and_without_callback_on_one_export', 0) + 1
        if any(by_fn[fn][True] != by_fn[fn][False] for fn in both):
            stats['of_which_the_native_results_differ'] = stats.get('of_which_the_native_results_differ', 0) + 1
    return probs


def run_variant(ctx, exe, oracle, cases, D, variant, sample_every=1):
    """returns list of failures: dict(cmd, line, info, why)"""
    lines = [c[1] for c in cases]
    t0 = time.time()
    env = {'ASAN_OPTIONS': 'detect_leaks=1:abort_on_error=0:exitcode=99', 'UBSAN_OPTIONS': 'print_stacktrace=1:halt_on_error=1'}
    out, fails = vf.par_lines(exe, lines, timeout=1500, env=env, chunk=max(1, len(lines) // (vf.NPROC * 4) + 1))
    failures = []
    rounds = 0
    while fails and rounds < 6:
        # a crashed shard: find the crashing input line, report it, drop it and run the rest again
        rounds += 1
        crashing = set()
        for shard, rc, err, got in fails:
            start = max(0, (len(got) if got else 0) - 1)
            found = False
            for ln in shard[start:start + 50]:
                p = vf.run_lines(exe, [ln], timeout=120, env=env)
                if p.returncode != 0 or not p.stdout.strip():
                    rep = [l.strip() for l in p.stderr.splitlines()
                           if 'ERROR: AddressSanitizer' in l or 'runtime error' in l or 'SUMMARY' in l or l.strip().startswith(('#0 ', '#1 ', '#2 ', '#3 '))]
                    failures.append(dict(cmd=cmd_of(ln), line=ln, info={}, variant=variant,
                                         why='harness %s crashed / sanitizer report (rc=%s): %s' % (variant, p.returncode, ' | '.join(rep)[:700] or p.stderr[-400:])))
                    crashing.add(ln)
                    found = True
                    break
            if not found:
                failures.append(dict(cmd=cmd_of(shard[0]), line=shard[start] if start < len(shard) else shard[0], info={}, variant=variant,
                                     why='harness %s shard failed rc=%s (not reproducible on single lines): %s' % (variant, rc, err[-400:])))
                crashing.update(shard)
        cases = [c for c in cases if c[1] not in crashing]
        lines = [c[1] for c in cases]
        out, fails = vf.par_lines(exe, lines, timeout=1500, env=env, chunk=max(1, len(lines) // (vf.NPROC * 4) + 1))
    if fails or len(out) != len(lines):
        ctx.log('%s: giving up after %d crash rounds' % (variant, rounds))
        return failures, 0
    ck = Checker(D)
    pairs = {}
    zstats = {}
    for idx, ((cmd, line, info), res) in enumerate(zip(cases, out)):
        if cmd == 'ZH':
            for fn, p in zh_check(ck, idx, line, res, zstats):
                failures.append(dict(cmd=cmd, line=line, info=info, variant=variant, why=p, zfn=fn))
            continue
        probs = ck.add(idx, cmd, res)
        f = split_tags(res)
        if 'pair' in info:
            pairs.setdefault((info['pair'], FN_OF_CMD[cmd], info['option']), []).append(' '.join(f.get('N1', []) + f.get('NT', []) + f.get('N2', [])))
        e = 'F' if cmd in DKIND else 'I'
        toks = line.split()
        if toks and toks[0] == 'KE':
            toks = toks[1:]
        # --- kernel level: raw arrays against the model
        if cmd in ('MK64', 'MKD') and 'ARR' in f:
            inp = ' '.join(toks[1:])
            arr = ' '.join(f['ARR'])
            ck.q(idx, 'array written by the library differs from the model layout', '%s %s %d %s' % ('ENC' if cmd == 'MK64' else 'ENCN', e, D, inp), arr)
            ck.q(idx, 'library decoder result differs from the model decoder', 'DEC %s %d %s' % (e, D, arr), ' '.join(f['DEC']))
            if ' '.join(f['DEC']) != nonempty_paths_text(toks[1:], D):
                probs.append('ConvertCPathsToPathsT(Create...(ps)) is not the non-empty paths of ps')
        elif cmd in ('HK64', 'HKD') and 'ARR' in f:
            inp = ' '.join(toks[1:])
            arr = ' '.join(f['ARR'])
            ck.q(idx, 'caller-built array (harness encoder, empty paths kept) differs from the model layout enc_paths_raw', 'ENCR %s %d %s' % (e, D, inp), arr)
            ck.q(idx, 'library decoder on a caller-built array (empty-path entries) differs from the model decoder [C17_dec_hand_built]',
                 'DEC %s %d %s' % (e, D, arr), ' '.join(f['DEC']))
            if ' '.join(f['DEC']) != inp:
                probs.append('ConvertCPathsToPathsT of a caller-built array (empty paths as `0 0` entries) does not return exactly the paths of the array')
        elif cmd == 'HKS' and 'DEC' in f:
            if f['DEC'] != f['NAT']:
                probs.append('ConvertCPathsDToPaths64 of a caller-built array (empty paths as `0 0` entries) differs from ScalePaths of its paths')
        elif cmd == 'MKS' and 'ARR' in f:
            ck.q(idx, 'CreateCPathsDFromPaths64 array differs from model layout of ScalePaths result', 'ENCN F %d %s' % (D, ' '.join(f['NAT'])), ' '.join(f['ARR']))
            if f['DEC'] != f['NATB']:
                probs.append('ConvertCPathsDToPaths64 differs from ScalePaths of the decoded array')
        elif cmd in ('MP64', 'MPD') and 'ARR' in f:
            inp = ' '.join(toks[1:])
            ck.q(idx, 'harness CPath differs from the documented layout in the model', 'ENCP %s %d %s' % (e, D, inp), ' '.join(f['ARR']))
            ck.q(idx, 'ConvertCPathToPathT differs from the model decoder', 'DECP %s %d %s' % (e, D, ' '.join(f['ARR'])), ' '.join(f['DEC']))
            if ' '.join(f['DEC']) != inp:
                probs.append('ConvertCPathToPathT does not return the encoded path')
        elif cmd in ('MT64', 'MTD') and 'ARR' in f:
            inp = ' '.join(toks[1:])
            ck.q(idx, 'CreateCPolyTree array differs from the model', 'ENCT %s %d %s' % (e, D, inp), ' '.join(f['ARR']))
            ck.q(idx, 'tree array decoded by the model differs from the tree', 'DECT %s %d %s' % (e, D, ' '.join(f['ARR'])), inp)
        # --- return codes against the translated prologue
        if cmd in FN_OF_CMD and ('RC' in f or 'NULLRET' in f or info.get('invalid')):
            fn = FN_OF_CMD[cmd]
            ct, fr, prec = info.get('cliptype', 0), info.get('fillrule', 0), info.get('precision', 2)
            if 'RC' in f:
                rc = int(f['RC'][0])
                want = 'PASS OK' if rc == 0 else 'INT %d OK' % rc
                ck.q(idx, 'return code %d differs from the translated validation prologue' % rc,
                     'PRO %d %s %d %d %d 0 0' % (1 if D == 3 else 0, fn, ct, fr, prec), want)
                invalid = ct > 4 or fr > 3 or (cmd in DKIND and not -8 <= prec <= 8)
                if invalid != (rc < 0):
                    probs.append('return code %d for cliptype=%d fillrule=%d precision=%d' % (rc, ct, fr, prec))
                if rc != 0 and f.get('UNTOUCHED') != ['1']:
                    probs.append('outputs written although an error code was returned')
        for p in probs:
            failures.append(dict(cmd=cmd, line=line, info=info, variant=variant,
                                 why=p + (' [input arrays caller-built with empty-path entries]' if info.get('ke') else '')))
    # oracle
    oq, ofails = vf.par_lines(oracle, ck.queries, timeout=1500)
    if ofails or len(oq) != len(ck.queries):
        raise vf.Infra('oracle_export failed: %s' % (ofails[0][2] if ofails else 'short output'))
    for (idx, what, expected), got in zip(ck.expect, oq):
        if got != expected:
            cmd, line, info = cases[idx]
            failures.append(dict(cmd=cmd, line=line, info=info, variant=variant,
                                 why='%s (model: %s | implementation: %s)' % (what, got[:160], expected[:160])))
    if variant in ('plain', 'z'):
        sens = ctx.cov.setdefault('option_sensitivity_' + variant, {})
        for (pid, fn, opt), res in pairs.items():
            k = '%s.%s' % (fn, opt)
            d = sens.setdefault(k, [0, 0])
            d[1] += 1
            if len(res) == 2 and res[0] != res[1]:
                d[0] += 1
    if zstats:
        ctx.cov['z_callback_histories_' + variant] = zstats
    ctx.count('oracle_queries', len(ck.queries))
    ctx.log('%s: %d cases, %d oracle queries, %d failures in %.1fs' % (variant, len(cases), len(ck.queries), len(failures), time.time() - t0))
    return failures, len(cases)


def classify(fl):
    cmd = fl['cmd']
    if 'crashed' in fl['why'] or 'sanitizer' in fl['why'] or 'shard failed' in fl['why']:
        return 'export.memory.%s' % cmd
    if cmd == 'ZH':
        m = re.search(r'step \d+ (\w+) with callback', fl['why'])
        return 'export.zcallback.%s' % (fl.get('zfn') or (m.group(1) if m else 'history'))
    if cmd in FN_OF_CMD:
        if 'return code' in fl['why'] or 'error code' in fl['why'] or 'nullptr' in fl['why']:
            return 'export.codes.%s' % FN_OF_CMD[cmd]
        return 'export.diff.%s' % FN_OF_CMD[cmd]
    return 'export.marshal.%s' % cmd


NONDEFAULT = dict(preserve_collinear=lambda v: v == 0, reverse_solution=lambda v: v == 1,
                  miter_limit=lambda v: v != 2.0, arc_tolerance=lambda v: v != 0.0, delta=lambda v: v != 0,
                  precision=lambda v: v != 2, clip_type=lambda v: True, fill_rule=lambda v: True,
                  join_type=lambda v: True, end_type=lambda v: True, is_closed=lambda v: True)
INFO_KEY = dict(clip_type='cliptype', fill_rule='fillrule', join_type='jointype', end_type='endtype')


def run(ctx):
    # ---- 1. translate + prove
    with vf.Lock('gen.export'):
        try:
            tab = export_table.regenerate(vf.INC, out_v=os.path.join(vf.COQ, 'gen', 'Gen_export.v'))
            tie_error = None
        except export_table.TableError as ex:
            tab, tie_error = None, str(ex)
        if tab is not None and tab['changed']:
            ctx.log('coq/gen/Gen_export.v regenerated from %s' % vf.INC)
        pr = vf.coq_props(ctx, PID)
    broken = []
    if not pr['ok']:
        for part in ('proofs/Export.vo', 'proofs/ExportElem.vo', 'proofs/ExportFwd.vo'):
            ok, _ = vf.coq_make([part])
            if not ok:
                broken.append(part)
        ctx.log('proof build FAILED (%s): %s' % (', '.join(broken) or 'props', '; '.join(pr['failed'])[:500]))
    # ---- 2. build
    variants = [('plain', 2), ('z', 3), ('asan', 2), ('asanz', 3)]
    exes, build_err = {}, None
    with cf.ThreadPoolExecutor(max_workers=4) as ex:
        futs = {v: ex.submit(vf.build_cpp, ctx, 'cx_export.cpp', v) for v, _ in variants}
        for v, fu in futs.items():
            try:
                exes[v] = fu.result()
            except vf.BuildFailure as e:
                build_err = str(e)
    if build_err and not exes:
        ctx.violation('tie-break:cx_export-build', 'the export harness no longer builds against the tree: ' + build_err[-800:],
                      replay=dict(build_error=build_err[-2000:]), nofail=True)
        return
    oracle = vf.oracle_build('export')
    # ---- 3. forwarding rows of the translated table, evaluated by the extracted fwd_failures
    fwd_rows = []
    if tab is not None:
        p = vf.run_lines(oracle, ['FWD'])
        txt = p.stdout.strip()
        for r in (txt.split(';') if txt else []):
            cfg, fn, key, callee = r.split('|')
            fwd_rows.append(dict(config=cfg, fn=fn, key=key, callee=callee))
    # ---- 4. correspondence + differential
    all_fail, total = [], 0
    cases_by_D = {2: gen_cases(ctx, 2), 3: gen_cases(ctx, 3)}
    for v, D in variants:
        if v not in exes:
            continue
        # D check
        dim = vf.run_lines(exes[v], ['DIM']).stdout.strip()
        if dim != str(D):
            raise vf.Infra('harness %s reports D=%s' % (v, dim))
        cases = cases_by_D[D]
        if v.startswith('asan') and ctx.quick:
            cases = cases[::2]
        fl, n = run_variant(ctx, exes[v], oracle, cases, D, v)
        all_fail += fl
        total += n
        for cmd, _, inf in cases:
            ctx.hist('cases_by_command', cmd)
            if inf.get('ke'):
                ctx.hist('cases_with_caller_built_empty_entries', cmd)
    ctx.count('evaluations', total)
    distinct = len({c[1] for D in cases_by_D for c in cases_by_D[D]})
    ctx.cov['distinct_nontrivial'] = distinct
    ctx.cov['rule'] = ('seeded generator: marshalling kernels on random path sets/trees (empty sets, empty paths, int64 extremes, '
                       'arbitrary double bit patterns, z values), each exported function on the option grid (ct x fr x '
                       'preserve_collinear x reverse_solution; jt x et x reverse_solution with deltas, miter limits, arc tolerances and '
                       'precisions -8..8 cycled; rectangles incl. empty; invalid ct/fr/precision); HK*/KE: input arrays built by the harness encoder with '
                       'every path an entry (empty paths as `0 0`, in front of / between / behind other paths) fed to the decoders and to '
                       'every export taking a CPaths argument; distinct = distinct input lines over '
                       'D=2 and D=3; every line is non-trivial in that it calls library code and compares an array or a code')
    for D in (2, 3):
        for c in cases_by_D[D][:1] + cases_by_D[D][len(cases_by_D[D]) // 2:len(cases_by_D[D]) // 2 + 1]:
            ctx.sample(dict(D=D, line=c[1][:400], info=c[2]))
    ctx.cov['forwarding_rows_failing'] = fwd_rows
    ctx.cov['table_functions'] = [f['name'] for f in tab['plain']] if tab else []
    ctx.cov['trusted_base'] = vf.TRUSTED_COMMON + [
        'cpp2v/export_table.py (clang 14 JSON AST -> Gen_export.v); validated by the differential run and by evaluating the translated prologues against real return codes',
        'harness/cx_export.cpp incl. its own encoder/decoder written from the documented layout',
        'ASan/UBSan of g++ 12 for the out-of-bounds observations on the real binary']
    ctx.assumptions += ['array lengths below 2^63 (int64) / 2^53 (double): side condition of the round-trip theorems',
                        'size_t arithmetic of GetPathCountAndCPathsArrayLen modelled in unbounded nat',
                        'scaled conversions (CreateCPathsDFromPaths64, ConvertCPathsDToPaths64, ConvertCPathDToPath64WithScale) compared '
                        'with the library\'s ScalePaths, not modelled in Coq',
                        'Z callbacks: registered only in the ZH histories of the USINGZ variants (z, asanz) through SetZCallback64/SetZCallbackD '
                        '(three behaviours: fresh tag, arbitrary value, z left alone; plus null); every other case runs with none registered; '
                        'each input line starts with both registrations cleared by direct assignment (state of a freshly loaded library)']
    ctx.cov['z_callback_shared_state'] = (
        'the registered callbacks live in two header-level globals of clipper.export.h (ZCallback64 dllCallback64, ZCallbackD dllCallbackD; '
        'C14 lists the header statics): BooleanOp64 and BooleanOp_PolyTree64 both read dllCallback64, BooleanOpD and BooleanOp_PolyTreeD both read '
        'dllCallbackD, SetZCallback64/SetZCallbackD are the only writers; a registration therefore persists over calls and is seen by the other export of '
        'the family until it is replaced or reset with a null pointer -- the ZH histories (set, call, call the sibling export, reset to null, call; '
        'replace; 64/D independence; never set; random) judge exactly this: each call must equal the native call on a fresh Clipper64 / '
        'ClipperD(precision) with SetZCallback(the callback the history says is registered) -- x, y and z bit for bit, same path order, same '
        'number of callback invocations with the same arguments -- or with no callback after a reset / before any registration')
    # ---- 5. decide
    by_key = {}
    for fl in all_fail:
        by_key.setdefault(classify(fl), []).append(fl)
    reported = set()
    # forwarding rows first: attach a concrete differential input
    for row in fwd_rows:
        fn, key = row['fn'], row['key']
        vk = 'export.forward.%s.%s' % (fn, key)
        if vk in reported:
            continue
        reported.add(vk)
        cands = by_key.get('export.diff.%s' % fn, []) + by_key.get('export.codes.%s' % fn, [])
        ik = INFO_KEY.get(key, key)
        pref = [c for c in cands if ik in c['info'] and NONDEFAULT.get(key, lambda v: True)(c['info'][ik])]
        pick = (pref or cands or [None])[0]
        if row['callee'] == 'not-forwarded':
            what = '%s: export parameter `%s` is not forwarded (correctly) to any native callee [translated table, %s build]' % (fn, key, row['config'])
        elif key == 'callee':
            what = '%s does not call %s [translated table, %s build]' % (fn, row['callee'], row['config'])
        else:
            what = ('%s: callee formal `%s` of %s does not receive the export parameter of the same meaning (or its documented default) '
                    '[translated table, %s build]' % (fn, key, row['callee'], row['config']))
        if pick:
            ctx.violation(vk, what + '; differential input: ' + pick['why'][:300],
                          replay=dict(kind='line', variant=pick['variant'], line=pick['line'], args=pick['info'], row=row))
        else:
            ctx.violation(vk, what + '; no differential input found', replay=dict(kind='table', row=row), nofail=True)
    covered_fns = {r['fn'] for r in fwd_rows}
    for key, fls in sorted(by_key.items()):
        fn = key.split('.')[-1]
        if key.startswith(('export.diff.', 'export.codes.')) and fn in covered_fns:
            continue     # already reported with its forwarding row
        fl = min(fls, key=lambda f: len(f['line']))
        ctx.violation(key, '%s [%s]: %s' % (fl['cmd'], fl['variant'], fl['why'][:400]),
                      replay=dict(kind='line', variant=fl['variant'], line=fl['line'], args=fl['info']))
    if tie_error:
        ctx.violation('tie-break:export-table', 'cpp2v/export_table.py cannot translate clipper.export.h: ' + tie_error[:500],
                      replay=dict(error=tie_error), nofail=not all_fail)
    if not pr['ok'] and not fwd_rows and not all_fail:
        ctx.violation('proof-break:' + (','.join(broken) or 'Properties_C17'),
                      'Properties_C17 no longer builds (%s) and the search found no failing input' % '; '.join(pr['failed'])[:600],
                      replay=dict(failed=pr['failed'], broken=broken), nofail=True)
    if build_err and exes:
        ctx.violation('tie-break:cx_export-build', 'a harness variant no longer builds: ' + build_err[-600:], replay=dict(build_error=build_err[-2000:]),
                      nofail=not all_fail)


def replay(ctx, path):
    d = json.load(open(path))
    rp = d.get('replay') or {}
    if rp.get('kind') != 'line':
        print('replay file carries no input line (table/proof level finding): %s' % json.dumps(rp)[:400])
        with vf.Lock('gen.export'):
            export_table.regenerate(vf.INC, out_v=os.path.join(vf.COQ, 'gen', 'Gen_export.v'))
            vf.coq_props(ctx, PID)
        oracle = vf.oracle_build('export')
        rows = vf.run_lines(oracle, ['FWD']).stdout.strip()
        if rows:
            ctx.violation(d.get('key', 'export.forward'), 'forwarding rows still failing: ' + rows[:400], replay=rp, nofail=True)
        return
    v = rp['variant']
    D = 3 if v.endswith('z') else 2
    exe = vf.build_cpp(ctx, 'cx_export.cpp', v)
    with vf.Lock('gen.export'):
        export_table.regenerate(vf.INC, out_v=os.path.join(vf.COQ, 'gen', 'Gen_export.v'))
        vf.coq_make(['gen/Gen_export.vo'])
    oracle = vf.oracle_build('export')
    cmd = cmd_of(rp['line'])
    fl, _ = run_variant(ctx, exe, oracle, [(cmd, rp['line'], rp.get('args', {}))], D, v)
    ctx.count('evaluations', 1)
    print('input: %s' % rp['line'][:600])
    for f in fl:
        print('still failing: %s' % f['why'][:600])
        ctx.violation(d.get('key', classify(f)), f['why'][:400], replay=rp)
    if not fl:
        print('replayed input passes on the current tree')
