"""C14 -- independent objects can be used from different threads.

prove      coq/props/Properties_C14.v: every interleaving of isolated threads = each thread alone; conflicting accesses
           belong to one thread (isolation premise built into the model); the premise about the code is decided on
           tables regenerated from the current source: every object with static storage duration is immutable
           (C14_globals_immutable), nothing reachable from Execute writes Vertex/LocalMinima/ReuseableDataContainer64
           (C14_vertex_writers).
validate   harness/cx_threads.cpp under ThreadSanitizer and plain with 2, 4 and 16 threads (own objects + one shared
           ReuseableDataContainer64), results compared bit for bit with the sequential run; symbol table of the three
           compiled translation units (writable data symbols must all be explained by immutable table rows).
"""
import json, os, re, sys, time
import concurrent.futures as cf

sys.path.insert(0, os.path.join(os.path.dirname(os.path.abspath(__file__)), '..', 'cpp2v'))
import vf
import tables

PID = 'C14'
META = dict(
    text='Schedule quantifier proved in Coq for threads that are isolated by construction; the isolation premise about the '
         'code is a theorem over tables regenerated from clang\'s AST on every run (every static-storage object in the three '
         'TUs and all headers, with and without USINGZ; writers of Vertex/LocalMinima/ReuseableDataContainer64 and their '
         'reachability from Execute), and is validated with a ThreadSanitizer stress and the objects\' symbol tables.',
    note='partial: data-race freedom of the real binary is observed (TSan, 2/4/16 threads), not proved; aliasing the AST scan '
         'cannot see is covered by TSan only. Five `static const char*` error strings are not const objects: accepted by the '
         'stated "never written" rule. dllCallback64/D (export layer, USINGZ) are mutable by design: stated exception.',
    technique='Coq schedule theorem under a built-in isolation premise + regenerated global/writer tables (clang JSON AST, text '
              'safety nets) + ThreadSanitizer stress vs sequential results + nm on the compiled objects',
    category='proof')

TSAN_ENV = dict(TSAN_OPTIONS='halt_on_error=0:exitcode=66:second_deadlock_stack=1:history_size=5')
ABI_ARTIFACTS = re.compile(r'^(vtable for |typeinfo for |typeinfo name for |VTT for |construction vtable for |'
                           r'DW\.ref\.|guard variable for |std::__ioinit$|__dso_handle$|std::piecewise_construct$)')


def coq_eval(ctx, body):
    f = os.path.join(ctx.work, 'ev%d.v' % int(time.time() * 1000 % 1000000))
    with open(f, 'w') as fh:
        fh.write('From Clip Require Import gen.Gen_globals gen.Gen_fields model.Threads.\n' + body)
    p = vf.sh(['coqc', '-Q', vf.COQ, 'Clip', '-o', f + 'o', f], cwd=ctx.work, timeout=300)
    return p.stdout if p.returncode == 0 else None


def nm_observation(ctx, T):
    """independent observation: writable data symbols of the three TUs compiled from the working tree"""
    rows = {}
    for g in T['globals']:
        rows.setdefault(g['name'], []).append(g)

    def immutable_py(g):      # mirrors model/Threads.v immutable (only used to *explain* symbols, never to pass the theorem)
        if g['kind'] == 'unscanned':
            return False
        exc = (g['file'] == 'include/clipper2/clipper.export.h' and g['guard'] == 'USINGZ' and g['name'] in ('dllCallback64', 'dllCallbackD')
               and all(w[0] in ('SetZCallback64', 'SetZCallbackD') and w[1] == 'assign' for w in g['writes']))
        return g['const'] or g['constexpr'] or not g['writes'] or g['tls'] or exc
    jobs = []
    for cfg, defs in (('plain', []), ('USINGZ', ['-DUSINGZ'])):
        for src in sorted(os.listdir(vf.SRC)):
            if src.endswith('.cpp'):
                jobs.append((cfg, defs, src))

    def comp(job):
        cfg, defs, src = job
        obj = os.path.join(ctx.work, '%s.%s.o' % (src, cfg))
        p = vf.sh(['g++', '-std=c++17', '-O0', '-c', '-w', '-I' + vf.INC] + defs + [os.path.join(vf.SRC, src), '-o', obj], timeout=300)
        if p.returncode != 0:
            return job, None, p.stderr[-1500:]
        q = vf.sh(['nm', '-C', '--defined-only', obj], timeout=60)
        return job, q.stdout, ''
    unexplained, explained, nsym = [], {}, 0
    with cf.ThreadPoolExecutor(max_workers=6) as ex:
        for (cfg, defs, src), out, err in ex.map(comp, jobs):
            if out is None:
                ctx.violation('tie-break:nm-build', 'translation unit %s [%s] does not compile: %s' % (src, cfg, err[-400:]),
                              replay=dict(kind='nm', src=src, cfg=cfg, error=err), nofail=True)
                continue
            for line in out.splitlines():
                m = re.match(r'^[0-9a-f]*\s+([A-Za-z])\s+(.*)$', line)
                if not m or m.group(1) not in 'bBdDsSgGuVvC':
                    continue
                name = m.group(2)
                nsym += 1
                if ABI_ARTIFACTS.match(name):
                    explained.setdefault('ABI artefact (vtable/typeinfo/guard/iostream init)', set()).add(name)
                    continue
                base = re.sub(r'\(.*\)', '', name).split('::')[-1].strip()
                base = re.sub(r'\[abi:[^\]]*\]', '', base)
                cand = rows.get(base, [])
                if cand and all(immutable_py(g) for g in cand):
                    why = 'const (initialised at load time)' if all(g['const'] or g['constexpr'] for g in cand) else 'never written'
                    explained.setdefault(why, set()).add(name)
                else:
                    unexplained.append((src, cfg, m.group(1), name))
    ctx.cov['nm_writable_symbols'] = nsym
    ctx.cov['nm_explained'] = {k: sorted(v)[:12] for k, v in explained.items()}
    return unexplained


def run_threads(ctx, exe, n, seed, rounds, env=None, focus=''):
    line = 'RUN %d %d %d %s' % (n, seed, rounds, focus)
    p = vf.run_lines(exe, [line.strip()], timeout=900, env=env)
    out = (p.stdout.split('\n') or [''])[0]
    ctx.count('evaluations')
    ctx.count('thread_runs')
    m = re.search(r'items=(\d+)', out)
    if m:
        ctx.count('items_compared', int(m.group(1)))
    return line.strip(), out, p.returncode, p.stderr or ''


def judge(ctx, variant, line, out, rc, err):
    """-> True when a concrete failure was recorded"""
    bad = False
    if 'ThreadSanitizer' in err or rc == 66:
        rep = err[:6000]
        locs = re.findall(r'Location is (global|heap block|stack|thread-local)[^\n]*', err)
        m = re.search(r"Location is global '([^']+)'", err)
        fn = re.search(r'#0 ([A-Za-z_:~][^\s(]*)', err)
        key = 'tsan.data-race' + ('.global.%s' % m.group(1).split('::')[-1] if m else '')
        ctx.violation(key, 'ThreadSanitizer reports a data race in `%s` [%s build]: %s' %
                      (line, variant, (m.group(0) if m else (fn.group(0) if fn else 'see report'))),
                      replay=dict(kind='RUN', variant=variant, line=line, tsan_report=rep, locations=locs[:5]))
        bad = True
    if not out.startswith('OK'):
        ctx.violation('threads.result-differs-from-sequential' if out.startswith('DIFF') else 'threads.crash',
                      'threads computing on their own objects do not return what the sequential run returns [%s build] `%s`: %s'
                      % (variant, line, (out or 'no output, rc=%s %s' % (rc, err[-300:]))[:500]),
                      replay=dict(kind='RUN', variant=variant, line=line, out=out[:2000], rc=rc, stderr=err[-2000:]))
        bad = True
    return bad


def run(ctx):
    # ---- 1. regenerate + prove
    T = None
    try:
        T = tables.generate(ctx.log)
    except Exception as e:
        ctx.violation('tie-break:tables', 'cpp2v/tables.py failed on the current tree: %s' % str(e)[-1200:],
                      replay=dict(kind='tables', error=str(e)[-3000:]), nofail=True)
    pr = vf.coq_props(ctx, PID)
    proof_broken = not pr['ok']
    culprits = None
    if T is not None:
        out = coq_eval(ctx, 'Eval vm_compute in mutable_globals.\nEval vm_compute in bad_shared_writes.\nEval vm_compute in rule_counts.\n')
        if out:
            blocks = [b.split('\n     :')[0] for b in out.split('= ')[1:]]
            culprits = dict(mutable_globals=re.findall(r'"([^"]*)"', blocks[0])[0::2] if blocks else [],
                            bad_shared_writes=re.findall(r'"([^"]*)"', blocks[1]) if len(blocks) > 1 else [])
            if len(blocks) > 2:
                nums = re.findall(r'(\d+)%N', blocks[2])
                ctx.cov['globals_by_rule'] = dict(zip(['declared const/constexpr', 'not const but never written', 'thread_local',
                                                       'export callback exception'], [int(x) for x in nums]))
        ctx.cov['static_storage_objects'] = len(T['globals'])
        ctx.cov['shared_class_write_sites'] = len(T['shared'])
        ctx.cov['functions_reachable_from_execute'] = len(T['reach'])
    if proof_broken:
        ctx.log('PROOF BREAK: %s | %s' % ('; '.join(pr['failed'])[:500], culprits))
    ctx.assumptions += [
        'isolation premise: a thread uses only objects it created itself (plus read-only shared data); the premise about the '
        'library is C14_globals_immutable + C14_vertex_writers over tables regenerated from the current source',
        '"never written" accepts non-const objects without any modifying use in the AST (today the five `static const char*` '
        'error strings); an alias the AST scan cannot see would only be caught by TSan',
        'dllCallback64/dllCallbackD (clipper.export.h, USINGZ) are process-wide registration slots written by SetZCallback64/D: '
        'outside the operations the property quantifies over (stated exception, encoded as export_callback_exception)',
        'objects declared in preprocessor branches that are not compiled on this platform are only seen by the textual '
        'storage-keyword net of cpp2v/tables.py',
    ]
    ctx.cov['trusted_base'] = vf.TRUSTED_COMMON + [
        'cpp2v/tables.py (clang 14 JSON AST -> static-storage and writer tables, textual safety nets)',
        'ThreadSanitizer of g++ 12 (observes the schedules that happen, not all schedules)', 'binutils nm']

    # ---- 2. build
    try:
        with cf.ThreadPoolExecutor(max_workers=2) as ex:
            f1 = ex.submit(vf.build_cpp, ctx, 'cx_threads.cpp', 'plain')
            f2 = ex.submit(vf.build_cpp, ctx, 'cx_threads.cpp', 'tsan')
            exe, exe_tsan = f1.result(), f2.result()
    except vf.BuildFailure as e:
        ctx.violation('tie-break:cx_threads-build', 'the C14 harness no longer compiles against the tree: %s' % str(e)[-800:],
                      replay=dict(kind='build', error=str(e)[-3000:]), nofail=True)
        return

    # ---- 3. symbol tables
    if T is not None:
        unexpl = nm_observation(ctx, T)
        for (src, cfg, typ, name) in unexpl[:3]:
            ctx.violation('nm.writable-symbol.%s' % re.sub(r'\(.*\)', '', name).split('::')[-1],
                          'writable data symbol `%s` (%s) in %s [%s] is not explained by an immutable row of Gen_globals' % (name, typ, src, cfg),
                          replay=dict(kind='nm', src=src, cfg=cfg, symbol=name, type=typ), nofail=True)

    # ---- 4. corpus, then the stress
    cdir = os.path.join(vf.VERIF, 'corpus', PID)
    concrete = False
    for f in sorted(os.listdir(cdir)) if os.path.isdir(cdir) else []:
        if f.endswith('.case'):
            case = json.load(open(os.path.join(cdir, f)))
            r = run_threads(ctx, exe_tsan if case.get('variant', 'tsan') == 'tsan' else exe, *[int(x) for x in case['line'].split()[1:4]],
                            env=TSAN_ENV if case.get('variant', 'tsan') == 'tsan' else None)
            concrete |= judge(ctx, case.get('variant', 'tsan'), *r)
            ctx.count('corpus_cases')
    search = proof_broken or bool([v for v in ctx.violations if v['key'].startswith('nm.')])
    rounds_tsan = {2: 30, 4: 20, 16: 8} if ctx.quick and not search else {2: 120, 4: 80, 16: 40}
    rounds_plain = {2: 100, 4: 100, 16: 60} if ctx.quick and not search else {2: 600, 4: 600, 16: 400}
    seeds = [ctx.rng.range(1, 1 << 30) for _ in range(2 if ctx.quick and not search else 4)]
    jobs = []
    for n in (2, 4, 16):
        for sd in seeds:
            jobs.append(('tsan', exe_tsan, n, sd, rounds_tsan[n], TSAN_ENV))
            jobs.append(('plain', exe, n, sd, rounds_plain[n], None))
    t0 = time.time()
    # TSan runs one at a time per thread count (they already use n threads); a small pool keeps 16 cores busy
    with cf.ThreadPoolExecutor(max_workers=3) as ex:
        for (variant, e, n, sd, rd, env), res in zip(jobs, ex.map(lambda j: run_threads(ctx, j[1], j[2], j[3], j[4], env=j[5]), jobs)):
            ctx.hist('threads', '%s:%d' % (variant, n))
            concrete |= judge(ctx, variant, *res)
            if variant == 'tsan' and n == 4:
                ctx.sample(dict(line=res[0], out=res[1][:120]))
    ctx.log('stress: %d runs (tsan + plain, 2/4/16 threads), %.1fs' % (len(jobs), time.time() - t0))
    ctx.cov['distinct_nontrivial'] = ctx.cov.get('items_compared', 0)
    ctx.cov['rule'] = ('each run: n threads x rounds x ~45 work items (4 clip types paths+tree+free functions, ClipperD, 4 join types '
                       'offset + InflatePaths(64/D), RectClip/RectClipLines objects and functions, Minkowski 64/D, path utilities, shared '
                       'ReuseableDataContainer64, exception path) on per-thread random data; every item compared with the sequential '
                       'recomputation; TSan build must stay silent. non-trivial = items compared.')

    # ---- 5. decide about a broken proof
    if proof_broken:
        what = 'Properties_C14 does not check any more: %s' % ('; '.join(pr['failed'])[:400])
        if culprits:
            what += ' | objects failing `immutable`: %s | writes failing `shared_write_ok`: %s' % (
                culprits['mutable_globals'], culprits['bad_shared_writes'])
        ctx.violation('proof-break:C14', what, replay=dict(kind='proof', failed=pr['failed'], culprits=culprits, log=pr['log'][-3000:]),
                      nofail=not concrete)


def replay(ctx, path):
    d = json.load(open(path))
    case = d.get('replay', d)
    if case.get('kind') != 'RUN':
        run(ctx)
        return
    variant = case.get('variant', 'tsan')
    exe = vf.build_cpp(ctx, 'cx_threads.cpp', variant if variant in ('tsan', 'plain') else 'tsan')
    t = case['line'].split()
    r = run_threads(ctx, exe, int(t[1]), int(t[2]), int(t[3]), env=TSAN_ENV if variant == 'tsan' else None, focus=t[4] if len(t) > 4 else '')
    judge(ctx, variant, *r)
    ctx.log('replay output: %s' % r[1][:300])
