"""C12 -- results depend only on the current inputs, not on an object's history.

prove      coq/props/Properties_C12.v: refinement of the Clipper64 state machine (sort cache, CleanUp) to "paths since
           the last Clear + options" for every history; incremental stable sort; RectClip64 per-path loop; and
           C12_fields_covered over the member table regenerated from the current source (cpp2v/tables.py); order
           independence of the ClipperOffset plan (which routine / delta / end type / arc steps a path gets), the
           fill rule being order independent only for consistently oriented groups (refuted otherwise: known finding).
correspond the extracted state machine vs the real object's private state after every operation (HM+X), and --
           the validation proper -- every Execute of exhaustively enumerated and random histories against a fresh
           object given the abstract state, bit for bit; offset groups/paths far apart vs each alone; RectClip reuse;
           the OffsetPlan model vs the member values the library uses for every path (observer, offset_common.plan_tie).
"""
import itertools, json, os, re, sys, time
import concurrent.futures as cf

sys.path.insert(0, os.path.join(os.path.dirname(os.path.abspath(__file__)), '..', 'cpp2v'))
import vf
import tables
from checks import offset_common as oc

PID = 'C12'
META = dict(
    text='Theorems for every operation history of the Clipper64 state machine (lazy stable sort cache, CleanUp, Clear, '
         'AddReuseableData) and the RectClip64 per-path loop, a regenerated member-by-member coverage table for '
         'ClipperBase/ClipperD/ClipperOffset/RectClip64, plus exhaustive bounded histories compared bit for bit with '
         'fresh objects; ClipperOffset: order independence of the per-path plan (theorem on OffsetPlan.v, tied by the '
         'observer correspondence) and exhaustive orders of far-apart paths/groups against each alone (validation).',
    note='The sweep is a parameter of the state-machine theorem (not modelled); the member table is tied to the source '
         'by regeneration from clang\'s AST on every run; the offset plan theorems say which member values a path is '
         'offset with, that equal values give equal geometry is validated (far apart vs alone), not proved. Empty paths in '
         'open-ended offset groups are excluded (library UB, C10).',
    technique='Coq refinement proof + regenerated field/writer table (clang JSON AST) + extracted model vs private '
              'object state + exhaustive history enumeration vs fresh objects (plain and ASan builds)',
    category='proof')

# ------------------------------------------------------------------------------------------------ fixed alphabet
SET0 = [[(10, 10), (90, 20), (80, 90), (20, 70)], [(50, 0), (120, 60), (40, 110)]]
SET1 = [[(-10, 50), (60, 55), (130, 40)], [(30, -20), (35, 130)], [(0, 100), (50, 20), (100, 100), (150, 20)]]
SET2 = [[(0, 0), (30, 0), (60, 0), (60, 60), (0, 60), (0, 0)], [(60, 0), (120, 0), (120, 60), (60, 60)],
        [(30, 60), (90, 60), (90, 100), (30, 100)], [(10, 10), (50, 10)], [(5, 5)]]
SETS = [SET0, SET1, SET2]
CONTS = [[(0, 0, 0), (1, 0, 1)], [(2, 1, 0)], [(1, 0, 1), (0, 1, 0)]]          # (set, polytype 0=Subject 1=Clip, open); the third
                                                                              # holds open paths BEFORE closed ones


def defs_line(sets=SETS, conts=CONTS):
    out = ['DEFS', str(len(sets))] + [vf.fmt_paths(s) for s in sets] + [str(len(conts))]
    for c in conts:
        out.append(str(len(c)))
        out += ['%d %d %d' % a for a in c]
    return ' '.join(out)


ADDS = ['S0', 'C2', 'O1', 'C0', 'S2', 'R0', 'R1', 'R2']
OPTS = ['P0', 'V1']
EXECS = ['X10', 'X21', 'T21', 'T30']
ALPHABET = ADDS + OPTS + EXECS + ['L']


def admissible(ops):
    """Precondition of the histories: one ReuseableDataContainer64 is not added twice to the *same* clipper between two
    Clears.  (Two LocalMinima then share their Vertex objects and the sweep pairs edges by vertex address: `R0 R0 X22`
    on a fresh Clipper64 allocates without bound / crashes.  That is a robustness defect of the fresh object as well --
    reported to C10 -- not a history dependence, and it would only mask C12 failures here.)"""
    cur, seen = 0, {}
    for o in ops:
        if o[0] == '@':
            cur = int(o[1:])
        elif o[0] == 'R':
            s_ = seen.setdefault(cur, set())
            if o in s_:
                return False
            s_.add(o)
        elif o == 'L':
            seen[cur] = set()
    return True


def enum_histories(maxlen):
    """all sequences over ALPHABET of length <= maxlen whose last op is an Execute (every Execute inside a history is
    compared, so histories ending in another op add nothing)"""
    for n in range(1, maxlen + 1):
        for pre in itertools.product(ALPHABET, repeat=n - 1):
            if not admissible(pre):
                continue
            for e in EXECS:
                yield pre + (e,)


def random_history(rng, maxlen=30, multi=False):
    n = rng.range(4, maxlen)
    ops = []
    for _ in range(n):
        r = rng.below(100)
        if r < 38:
            k = rng.below(5)
            ops.append(['S', 'C', 'O'][rng.below(3)] + str(rng.below(3)) if k < 3 else 'R%d' % rng.below(3))
        elif r < 70:
            ops.append(('X' if rng.below(2) else 'T') + str(rng.below(5)) + str(rng.below(4)))
        elif r < 80:
            ops.append(('P' if rng.below(2) else 'V') + str(rng.below(2)))
        elif r < 90 or not multi:
            ops.append('L')
        else:
            ops.append('@%d' % rng.below(3))
    ops.append(('X' if rng.below(2) else 'T') + str(1 + rng.below(4)) + str(rng.below(4)))
    # enforce the precondition (see admissible): drop a repeated add of a container
    cur, seen, res = 0, {}, []
    for o in ops:
        if o[0] == '@':
            cur = int(o[1:])
        elif o[0] == 'R':
            s_ = seen.setdefault(cur, set())
            if o in s_:
                continue
            s_.add(o)
        elif o == 'L':
            seen[cur] = set()
        res.append(o)
    return res


# ------------------------------------------------------------------------------------------------ runners
MEM_KB = 6000000        # a runaway library call must not take the machine down (seen: 55 GB)

SHARD_TIMEOUT = 30      # seconds per harness process in the quick tier (a whole phase normally takes 1-3 s)
ISO_TIMEOUT = 8         # one line alone
DEADLINE = None         # wall-clock bound for everything that executes the library (set by run): on a tree whose
                        # library hangs the quick tier ends within about five minutes, what is left is counted as not run
NOTRUN = oc.NOTRUN


def run_sharded(exe, lines, prefix=None, jobs=None, timeout=None, env=None, budget=None):
    """like vf.par_lines, but every shard starts with `prefix` (the DEFS line); a crash or a hang is attributed to the line
    being processed (the harness flushes after every line) by running that line alone (oc.run_robust): it answers CRASH or
    HANG, after a hang the rest of the shard answers NOTRUN.  Returns (outs, failures[(line, rc, stderr, kind)])."""
    timeout = timeout or SHARD_TIMEOUT
    if DEADLINE is not None:
        left = max(3.0, DEADLINE - time.time())
        budget = min(budget, left) if budget else left

    def runner(inp, t):
        if env and 'ASAN_OPTIONS' in env:          # sanitizer builds reserve huge virtual ranges: limit RSS instead
            return vf.run_lines(exe, inp, timeout=t, env=env)
        return vf.run_lines('/bin/bash', inp, args=['-c', 'ulimit -v %d; exec "$0"' % MEM_KB, exe], timeout=t, env=env)
    return oc.run_robust(runner, lines, prefix=prefix, jobs=jobs, timeout=timeout, iso_timeout=ISO_TIMEOUT, budget=budget)


# ------------------------------------------------------------------------------------------------ offset cases
def tr(path, dx, dy):
    return [(x + dx, y + dy) for x, y in path]


SHAPES = [
    [(0, 0), (100, 0), (50, 80)],                                           # triangle (positive orientation)
    [(0, 0), (100, 0), (100, 40), (40, 40), (40, 100), (0, 100)],           # concave L
    [(0, 0), (60, 0), (60, 60), (0, 60)],                                   # square
    [(0, 0), (80, 30)],                                                     # two points
    [(50, 50)],                                                             # one point
    [(0, 0), (50, 0), (100, 0), (100, 10), (0, 10), (0, 0)],                # thin, collinear vertex, closing duplicate
    [],                                                                     # empty (Polygon groups only: see META.note)
]
JT = {0: 'Square', 1: 'Bevel', 2: 'Round', 3: 'Miter'}
ET = {0: 'Polygon', 1: 'Joined', 2: 'Butt', 3: 'Square', 4: 'Round'}


def place(i, layout, rev=False):
    p = SHAPES[i]
    if rev:
        p = list(reversed(p))
    if layout == 'diag':
        return tr(p, 10000 * i, 7000 * i)
    if layout == 'row':
        return tr(p, 10000 * i, 0)
    return tr(p, 0, 10000 * i)


def off_line(ml, at, pc, rs, delta, groups, cb=0):
    out = (['OFFCB', str(cb)] if cb else ['OFF']) + [float(ml).hex(), float(at).hex(), str(int(pc)), str(int(rs)), float(delta).hex(), str(len(groups))]
    for (jt, et, paths) in groups:
        out += [str(jt), str(et), vf.fmt_paths(paths)]
    return ' '.join(out)


def parse_off(out):
    t = out.split()
    if t[0] != 'OK':
        return None
    pos = 1
    flags = {}
    while '=' in t[pos]:
        k, v = t[pos].split('=')
        flags[k] = v
        pos += 1
    assert t[pos] == 'W'
    W, pos = vf.parse_paths(t, pos + 1)
    assert t[pos] == 'NG'
    ng = int(t[pos + 1]); pos += 2
    groups = []
    for _ in range(ng):
        assert t[pos] == 'G'
        G, pos = vf.parse_paths(t, pos + 1)
        assert t[pos] == 'NP'
        npth = int(t[pos + 1]); pos += 2
        A = []
        for _ in range(npth):
            assert t[pos] == 'A'
            a, pos = vf.parse_paths(t, pos + 1)
            A.append(a)
        groups.append((G, A))
    return flags, W, groups


def ms(paths):
    return sorted(tuple(p) for p in paths)


def ms_canon(paths):
    return vf.canon_paths(paths)


def strip_dups(p, closed):
    q = []
    for v in p:
        if not q or q[-1] != v:
            q.append(v)
    if closed and len(q) > 1 and q[0] == q[-1]:
        q.pop()
    return q


def classify_off(case, res):
    """-> list of (key, what).  case = dict(ml, at, pc, rs, delta, groups=[(jt, et, paths)]), res = parse_off(...)."""
    flags, W, groups = res
    found = []
    gs = case['groups']
    cb = case.get('cb', 0)
    names = dict(ov=('offset.execute-callback-overload-differs',
                     'Execute(DeltaCallback64, Paths64&) on a fresh ClipperOffset differs from SetDeltaCallback(cb) + Execute(1.0, paths) on a fresh one'),
                 e2=('offset.execute-twice-differs', 'ClipperOffset::Execute called twice on the same object gives different results'),
                 t=('offset.tree-after-paths-differs', 'Execute(tree) on a used ClipperOffset differs from a fresh object'),
                 e3=('offset.paths-after-tree-differs', 'Execute(paths) after Execute(tree) differs from the first Execute(paths)'),
                 d2=('offset.execute-after-other-delta-differs', 'Execute(delta) after an Execute with another delta differs from the first Execute(delta)'),
                 cl=('offset.clear-then-same-paths-differs', 'Clear() followed by the same paths gives another result'),
                 so=('offset.options-by-setter-differ-from-constructor',
                     'a ClipperOffset whose options were set with MiterLimit()/ArcTolerance()/PreserveCollinear()/ReverseSolution() after '
                     'construction gives another result than one constructed with these options (miter limit %g, arc tolerance %g, '
                     'preserve_collinear %d, reverse_solution %d)' % (case.get('ml', 0), case.get('at', 0), case.get('pc', 0), case.get('rs', 0))),
                 so2=('offset.options-by-setter-after-execute-differ',
                      'options changed with the setters between two Executes are not (all) in force in the second one: it differs from a '
                      'fresh object constructed with them (miter limit %g, arc tolerance %g, preserve_collinear %d, reverse_solution %d)'
                      % (case.get('ml', 0), case.get('at', 0), case.get('pc', 0), case.get('rs', 0))))
    bad = [k for k in names if flags.get(k, '1') != '1']
    for k in [k for k in bad if k in ('so', 'so2', 'ov')]:      # the option setters / the callback overload: never a matter of single points
        found.append(names[k])
    bad = [k for k in bad if k not in ('so', 'so2', 'ov')]
    if bad:
        has_point = any(len(strip_dups(p, et in (0, 1))) == 1 for (jt, et, paths) in gs for p in paths)
        round_point = any(jt == 2 and len(strip_dups(p, et in (0, 1))) == 1 for (jt, et, paths) in gs for p in paths)
        if cb and round_point and flags.get('bx') == '1':
            # same bounding boxes ring by ring, other vertices: the circle of a single point is drawn with the step count the
            # previous Execute left in steps_per_rad_
            found.append(('offset.delta-callback.steps-leak-single-point',
                          'with a DeltaCallback64 installed the single-point (Round join) branch uses the steps_per_rad_ left by the last '
                          'DoRound -- also across Execute calls: repeated Execute gives the same circle with another vertex count (%s)' % ','.join(bad)))
        elif cb == 2 and has_point:
            # root cause: norms is not cleared between calls, the callback of a single-point path is shown what is left
            found.append(('offset.delta-callback.stale-normals-single-point',
                          'the DeltaCallback64 of a single-point path is shown the normals left by the previous path -- also across '
                          'Execute calls (norms is only cleared by Clear()): repeated Execute differs (%s)' % ','.join(bad)))
        else:
            for k in bad:
                found.append(names[k])
    # path level
    for gi, ((G, A), (jt, et, paths)) in enumerate(zip(groups, gs)):
        allA = [p for a in A for p in a]
        if ms(G) == ms(allA):
            continue
        rot_only = ms_canon(G) == ms_canon(allA)
        lens = [len(strip_dups(p, et in (0, 1))) for p in paths]
        if rot_only:
            found.append(('offset.far-apart.start-vertex-differs',
                          'paths of one group far apart: same rings as alone but with another start vertex (group %d)' % gi))
            continue
        # which paths are not offset as alone: a ring of the alone-result that the group result does not contain
        Gset = set(tuple(r) for r in G)
        keys_here = []
        for pi, a in enumerate(A):
            if all(tuple(r) in Gset for r in a):
                continue
            if lens[pi] == 1 and cb:
                # same radius (bounding box) but another vertex count: the arc step constants; another radius: the callback was
                # shown other normals (mode 2 returns |delta| + 0.5 * path_normals.size())
                pt = strip_dups(paths[pi], et in (0, 1))[0]
                near = [r for r in G if r and abs(r[0][0] - pt[0]) < 1000 and abs(r[0][1] - pt[1]) < 1000]
                same_box = bool(near) and bool(a) and all(abs(x - y) <= 1 for x, y in zip(ring_box(near[0]), ring_box(a[0])))
                if jt == 2 and same_box:
                    keys_here.append(('offset.delta-callback.steps-leak-single-point',
                                      'with a DeltaCallback64 installed DoRound stores steps_per_rad_/step_sin_/step_cos_ per vertex; a single-point '
                                      'path (Round join) after another path of the group is drawn with that path\'s last step count instead of the one it '
                                      'gets alone (group %d, path lengths %s, callback mode %d)' % (gi, lens, cb)))
                elif cb == 2:
                    keys_here.append(('offset.delta-callback.stale-normals-single-point',
                                      'the DeltaCallback64 of a single-point path is shown the normals of the previous path (group %d, path lengths %s)' % (gi, lens)))
                else:
                    keys_here.append(('offset.path-order-dependence',
                                      'a single-point path of a group is not offset as it is alone (group %d: %s/%s, path lengths %s, callback mode %d)'
                                      % (gi, JT[jt], ET[et], lens, cb)))
            elif et == 1 and lens[pi] >= 3 and any(l == 2 for l in lens[:pi]):
                keys_here.append(('offset.endtype-leak.joined-2pt-then-longer',
                                  'EndType::Joined group: a two-point path leaves end_type_ = Square/Round and the longer paths after it '
                                  'are offset as open paths with caps (group %d, path lengths %s, join %s)' % (gi, lens, JT[jt])))
            else:
                keys_here.append(('offset.path-order-dependence',
                                  'path %d of a group is not offset as it is alone (group %d: %s/%s, path lengths %s)' % (pi, gi, JT[jt], ET[et], lens)))
        if not keys_here:
            keys_here.append(('offset.path-order-dependence',
                              'the result of a group is not the union of its paths offset alone (group %d: %s/%s, path lengths %s)' % (gi, JT[jt], ET[et], lens)))
        for k in keys_here:
            if k[0] not in [f[0] for f in found]:
                found.append(k)
    # group level
    allG = [p for (G, A) in groups for p in G]
    if ms(W) != ms(allG):
        rot_only = ms_canon(W) == ms_canon(allG)
        delta = case['delta']
        empties = [i for i, (jt, et, paths) in enumerate(gs) if et == 0 and not any(len(p) for p in paths)]
        orient = group_orientations(gs)
        if rot_only:
            found.append(('offset.far-apart.start-vertex-differs', 'groups far apart: same rings as alone but with another start vertex'))
        elif (empties and first_polygon(gs) == empties[0] and -1 in orient and not mixed_orientation(orient)
              and sum(area2(p) for p in allG) < 0 and sum(area2(p) for p in W) >= 0):
            # the groups alone give clockwise rings; the joint result is empty or has counter-clockwise outlines
            found.append(('offset.orientation-lost.empty-polygon-group-first',
                          'the first Polygon group has no vertex: CheckReverseOrientation takes is_reversed = false from it and the '
                          'reversed (clockwise) groups of the call vanish in the clean-up union (empty result)'))
        elif empties and delta < 0 and empties[0] < len(gs) - 1 and not mixed_orientation(orient):
            found.append(('offset.delta-abs-leak.empty-polygon-group',
                          'a Polygon group without a lowest path (only empty paths) executes delta_ = std::abs(delta_): every '
                          'later group is inflated instead of shrunk (delta %g, empty group at index %d of %d)' % (delta, empties[0], len(gs))))
        elif mixed_orientation(orient):
            found.append(('offset.group-orientation.first-polygon-group-decides',
                          'groups of opposite offset orientation in one ClipperOffset (Polygon groups whose lowest paths have opposite '
                          'orientation, or open-path/point groups together with a clockwise Polygon group): CheckReverseOrientation '
                          'takes fill rule and output orientation from the first oriented Polygon group, the groups of the other '
                          'orientation are lost (group orientations %s)' % orient))
        else:
            found.append(('offset.group-order-dependence', 'a group is not offset as it is alone (delta %g, groups %s)'
                          % (delta, [(JT[jt], ET[et], [len(p) for p in paths]) for (jt, et, paths) in gs])))
    return found


def group_orientations(gs):
    """offset orientation of every group of a case: +1 / -1 = orientation of the raw offset curves the group produces
    (Polygon group: sign of the area of the path holding the lowest vertex, zero area counts as +1 as in the Group
    constructor; open-path groups: always +1), None for a Polygon group without any vertex (produces nothing)."""
    res = []
    for (jt, et, paths) in gs:
        if et != 0:
            res.append(1 if any(len(p) for p in paths) else None)
            continue
        ne = [strip_dups(p, True) for p in paths]
        ne = [p for p in ne if p]
        if not ne:
            res.append(None)
            continue
        low = ne[lowest_idx(ne)]
        res.append(-1 if len(low) >= 3 and area2(low) < 0 else 1)
    return res


def ring_box(r):
    return (min(v[0] for v in r), min(v[1] for v in r), max(v[0] for v in r), max(v[1] for v in r))


def mixed_orientation(orient):
    return len(set(o for o in orient if o is not None)) > 1


def first_polygon(gs):
    for i, (jt, et, paths) in enumerate(gs):
        if et == 0:
            return i
    return None


def area2(p):
    return sum(p[i][0] * p[(i + 1) % len(p)][1] - p[(i + 1) % len(p)][0] * p[i][1] for i in range(len(p)))


def lowest_idx(paths):
    best, bi = None, 0
    for i, p in enumerate(paths):
        for (x, y) in p:
            k = (-y, x)
            if best is None or k < best:
                best, bi = k, i
    return bi


def gen_off_cases(ctx, thorough):
    cases = []
    maxk = 4 if thorough else 3
    # (1) all orders of <= maxk paths within one group
    for et in range(5):
        for jt in range(4):
            pool = list(range(6)) + ([6] if et == 0 else [])
            deltas = [10.0, 3.5] + ([-10.0, -3.5] if et == 0 else [])
            for delta in deltas:
                for k in range(1, maxk + 1):
                    perms = list(itertools.permutations(pool, k))
                    if not thorough and k == 3 and jt in (0, 1):
                        perms = perms[::3]
                    for perm in perms:
                        for layout in (('diag', 'row') if (thorough or k <= 2) else ('diag',)):
                            cases.append(dict(tag='paths', ml=2.0, at=0.0, pc=0, rs=0, delta=delta, layout=layout,
                                              groups=[(jt, et, [place(i, layout) for i in perm])]))
    # reversed orientation (whole group negative) for Polygon
    for jt in (2, 3):
        for delta in (10.0, -10.0):
            for perm in itertools.permutations([0, 1, 2, 5], 3):
                cases.append(dict(tag='paths-rev', ml=2.0, at=0.0, pc=0, rs=0, delta=delta, layout='diag',
                                  groups=[(jt, 0, [place(i, 'diag', rev=True) for i in perm])]))
    # (2) all orders of <= 3 groups; group g uses its own slots so geometry does not depend on the order
    gpool = [
        (3, 0, [0, 1]),          # Miter / Polygon
        (2, 0, [2]),             # Round / Polygon
        (2, 1, [3, 0]),          # Round / Joined: two-point path then a longer one
        (0, 2, [1]),             # Square / Butt
        (2, 4, [3]),             # Round / Round
        (1, 0, [6]),             # Bevel / Polygon with only an empty path
        (3, 0, [4]),             # Miter / Polygon single point
        (1, 3, [4, 5]),          # Bevel / Square: single point, thin polyline
    ]

    def gplace(gidx, layout):
        jt, et, shp = gpool[gidx]
        paths = []
        for j, si in enumerate(shp):
            slot = gidx * 3 + j
            p = SHAPES[si]
            paths.append(tr(p, 10000 * slot, 7000 * slot if layout == 'diag' else 0))
        return (jt, et, paths)
    for delta in (10.0, -10.0, 3.5):
        for k in (1, 2, 3):
            for perm in itertools.permutations(range(len(gpool)), k):
                for layout in (('diag', 'row') if thorough else ('diag',)):
                    cases.append(dict(tag='groups', ml=2.0, at=0.0, pc=0, rs=0, delta=delta, layout=layout,
                                      groups=[gplace(g, layout) for g in perm]))
    # option variations on a few group sets
    for (ml, at, pc, rs) in ((1.0, 0.25, 1, 0), (4.0, 0.0, 0, 1), (2.0, 5.0, 1, 1), (1.5, 0.0, 0, 0), (3.0, 1.0, 0, 0), (10.0, 0.1, 1, 1)):
        for perm in itertools.permutations([0, 1, 3, 4], 3):
            cases.append(dict(tag='groups-opts', ml=ml, at=at, pc=pc, rs=rs, delta=7.0, layout='diag',
                              groups=[gplace(g, 'diag') for g in perm]))
    # (2b) delta callback installed (constant; and one that looks at the normals it is shown)
    # (cb 3-5: callbacks returning 0 at some / the end / all vertices: the vertex itself is emitted there)
    for cbm in (1, 2, 3, 4, 5):
        for (jt, et) in ((2, 0), (3, 0), (2, 4), (0, 2), (2, 1)):
            pool = [0, 1, 3, 4, 5] if cbm == 1 else ([0, 4, 3] if cbm == 2 else [0, 1, 3, 4])
            for k in (1, 2, 3):
                for perm in itertools.permutations(pool, k):
                    cases.append(dict(tag='paths-cb%d' % cbm, ml=2.0, at=0.0, pc=0, rs=0, delta=10.0, layout='diag', cb=cbm,
                                      groups=[(jt, et, [place(i, 'diag') for i in perm])]))
    # (3) opposite orientations in different groups (CheckReverseOrientation): two Polygon groups; a clockwise Polygon
    # group and an open-path group; and consistently clockwise groups with a vertex-less Polygon group in front
    for delta in (10.0, -10.0):
        for order in ((0, 1), (1, 0)):
            gs = [(3, 0, [place(0, 'diag')]), (3, 0, [place(1, 'diag', rev=True)])]
            cases.append(dict(tag='groups-orient', ml=2.0, at=0.0, pc=0, rs=0, delta=delta, layout='diag',
                              groups=[gs[i] for i in order]))
            gs = [(3, 0, [place(1, 'diag', rev=True)]), (0, 2, [place(0, 'diag')])]
            cases.append(dict(tag='groups-orient', ml=2.0, at=0.0, pc=0, rs=0, delta=abs(delta), layout='diag',
                              groups=[gs[i] for i in order]))
            gs = [(1, 0, [[]]), (3, 0, [place(1, 'diag', rev=True)]), (2, 0, [place(2, 'diag', rev=True)])]
            for o3 in ((0, 1, 2), (1, 0, 2), (1, 2, 0)):
                cases.append(dict(tag='groups-orient-empty', ml=2.0, at=0.0, pc=0, rs=0, delta=delta, layout='diag',
                                  groups=[gs[i] for i in (o3 if order == (0, 1) else o3[::-1])]))
    return cases


# ------------------------------------------------------------------------------------------------ rect cases
RC_POOL = [
    [(20, 20), (80, 30), (50, 70)],                          # inside
    [(-50, 50), (50, -50), (150, 50), (50, 150)],            # diamond through the four edges
    [(-100, -100), (200, -100), (200, 200), (-100, 200)],    # surrounds the rectangle
    [(300, 300), (400, 300), (350, 380)],                    # far outside
    [(0, 0), (100, 0), (100, 100), (0, 100)],                # the rectangle itself
    [(50, -20), (120, 50), (50, 120), (-20, 50), (50, 40)],  # concave, several crossings
    [(-20, 10), (120, 10), (120, 30), (-20, 30), (-20, 60), (120, 60), (120, 80), (-20, 80)],   # comb: several pieces
    [(100, 0), (160, -60), (160, 60)],                       # touches a corner from outside
    [(10, 10), (90, 90)],                                    # two points
    # paths that stay OUTSIDE the rectangle while their bounds overlap it, moving through several side regions: they
    # produce nothing but make ExecuteInternal record start locations
    [(120, -20), (-50, -20), (-50, -50), (150, -50), (150, 150), (120, 150)],        # L around the top-right corner (2 corners)
    [(-30, 130), (-30, -30), (130, -30), (130, -60), (-60, -60), (-60, 130)],        # L around the top-left corner, other direction
    [(-20, 120), (-20, -20), (120, -20), (120, 120), (140, 120), (140, -40), (-40, -40), (-40, 120)],   # U around three sides
    [(-40, 60), (60, -40), (-40, -40)],                      # triangle across a corner, outside
    # paths that cross the boundary and end outside
    [(-50, 30), (50, 50), (-50, 70)],                        # wedge through the left side
    [(50, 150), (30, 50), (70, 50)],                         # wedge through the bottom side (y down), last vertex inside
    [(150, 20), (60, 40), (60, 60), (150, 80)],              # through the right side
    [(50, 50)],                                              # one point inside
    [(0, 50)],                                               # one point on the boundary
]

def gen_rc_lines(thorough):
    """RC <lines01> rect A B: one object executes A then B (twice); B must equal a fresh object's result, and
    Execute(A ++ B) the concatenation of the fresh results (path by path: C12_rect_stateless)"""
    n = len(RC_POOL)
    seqs = [()] + [(i,) for i in range(n)] + list(itertools.product(range(n), repeat=2))
    if not thorough:
        # every single path, every ordered pair that contains one of the "outside hugging" / "crossing" / one-point paths, and
        # every second one of the rest
        special = set(range(9, n))
        pairs = list(itertools.product(range(n), repeat=2))
        seqs = [()] + [(i,) for i in range(n)] + [p for k, p in enumerate(pairs) if (set(p) & special) or k % 2 == 0]
    singles = [()] + [(i,) for i in range(n)]
    lines = []
    for lines01 in (0, 1):
        for a in seqs:
            for b in (seqs if thorough else (singles if len(a) == 2 else seqs[::3] + singles)):
                lines.append('RC %d 0 0 100 100 %s %s' % (lines01, vf.fmt_paths([RC_POOL[i] for i in a]),
                                                          vf.fmt_paths([RC_POOL[i] for i in b])))
    # three paths in one call: outside-hugging, crossing, one point -- all orders
    for lines01 in (0, 1):
        for tri in itertools.permutations([9, 10, 11, 12, 13, 14, 15, 16, 17, 1, 5], 3):
            if thorough or (set(tri) & {9, 10, 11, 12}) or (set(tri) & {16, 17}):
                lines.append('RC %d 0 0 100 100 %s %s' % (lines01, vf.fmt_paths([RC_POOL[i] for i in tri[:2]]), vf.fmt_paths([RC_POOL[tri[2]]])))
                lines.append('RC %d 0 0 100 100 %s %s' % (lines01, vf.fmt_paths([RC_POOL[tri[0]]]), vf.fmt_paths([RC_POOL[i] for i in tri[1:]])))
    return lines


# ------------------------------------------------------------------------------------------------ the check
def coq_eval_failing(ctx):
    """which members fail field_ok (only possible when model/ObjectSM.vo still builds)"""
    ok, log = vf.coq_make(['model/ObjectSM.vo'])
    if not ok:
        return None
    f = os.path.join(ctx.work, 'failing.v')
    with open(f, 'w') as fh:
        fh.write('From Clip Require Import gen.Gen_fields model.ObjectSM.\n'
                 'Eval vm_compute in failing_fields.\nEval vm_compute in stale_policies.\n')
    p = vf.sh(['coqc', '-Q', vf.COQ, 'Clip', '-o', os.path.join(ctx.work, 'failing.vo'), f], cwd=ctx.work, timeout=300)
    if p.returncode != 0:
        return None
    pairs = re.findall(r'\("([^"]*)"%string,\s*"([^"]*)"%string\)|\("([^"]*)",\s*"([^"]*)"\)', p.stdout)
    blocks = p.stdout.split('= ')
    res = []
    for b in blocks[1:3]:
        res.append(re.findall(r'"([^"]*)"[^"]*?"([^"]*)"', b.split(': list')[0]))
    while len(res) < 2:
        res.append([])
    return res


def history_violation(ctx, kind, line, out, defs, extra=''):
    m = re.match(r'DIFF op=(\d+) (\S+) USED (.*) FRESH (.*)', out)
    ops = line.split()[2:]
    if m:
        tok = m.group(2)
        what = ('%s history %s: %s at position %s returns %s... on the used object but %s... on a fresh object given the same '
                'paths and options' % ('ClipperD' if line.split()[1] == 'D' else 'Clipper64', ' '.join(ops), tok, m.group(1),
                                       m.group(3)[:120], m.group(4)[:120]))
        key = 'history.%s-differs-from-fresh' % ('tree' if tok[0] == 'T' else 'paths')
    else:
        what = 'history %s: harness answered %s %s' % (' '.join(ops), out[:200], extra)
        key = 'history.crash' if out == 'CRASH' else ('history.hang' if out == 'HANG' else 'history.exception')
    return ctx.violation(key, what, replay=dict(kind=kind, defs=defs, line=line, out=out[:2000], sets=SETS, containers=CONTS))


def minimise_history(exe, defs, line, budget=25):
    """greedy one-op removal while the history still fails (bounded: a hanging history costs ISO_TIMEOUT per trial)"""
    head, ops = line.split()[:2], line.split()[2:]
    t_end = time.time() + budget

    def fails(o):
        p = vf.run_lines('/bin/bash', [defs, ' '.join(head + o)], args=['-c', 'ulimit -v %d; exec "$0"' % MEM_KB, exe], timeout=ISO_TIMEOUT)
        outs = p.stdout.split('\n')
        return p.returncode != 0 or len(outs) < 2 or not outs[1].startswith('OK')
    changed = True
    while changed and len(ops) > 1 and time.time() < t_end:
        changed = False
        for i in range(len(ops)):
            if time.time() > t_end:
                break
            o = ops[:i] + ops[i + 1:]
            if o and admissible(o) and fails(o):
                ops, changed = o, True
                break
    p = vf.run_lines(exe, [defs, ' '.join(head + ops)], timeout=ISO_TIMEOUT)
    outs = p.stdout.split('\n')
    return ' '.join(head + ops), (outs[1] if len(outs) > 1 and outs[1] else ('HANG' if getattr(p, 'timed_out', False) else 'CRASH'))


def fresh_equivalents(line):
    """for every Execute of a history: the history that brings a FRESH object to the same abstract state (options, adds
    since the last Clear of that clipper) and makes that call"""
    head, ops = line.split()[:2], line.split()[2:]
    cur, st, res = 0, {}, []
    for o in ops:
        a = st.setdefault(cur, dict(adds=[], pc='P1', rs='V0'))
        if o[0] == '@':
            cur = int(o[1:]) & 3
        elif o[0] in 'SOCR':
            a['adds'].append(o)
        elif o[0] == 'P':
            a['pc'] = o
        elif o[0] == 'V':
            a['rs'] = o
        elif o == 'L':
            a['adds'] = []
        elif o[0] in 'XT':
            res.append(' '.join(head + [a['pc'], a['rs']] + a['adds'] + [o]))
    return res


def crash_on_fresh_object(exe, defs, line, env=None):
    """a crashed / hanging history: does one of its Executes crash or hang on a fresh object given the same paths and options
    as well?  Then used and fresh object behave alike -- the failure is not a matter of history.  Returns the
    fresh-equivalent history that fails, or None."""
    for fl in fresh_equivalents(line):
        if env and 'ASAN_OPTIONS' in env:
            p = vf.run_lines(exe, [defs, fl], timeout=ISO_TIMEOUT, env=env)
        else:
            p = vf.run_lines('/bin/bash', [defs, fl], args=['-c', 'ulimit -v %d; exec "$0"' % MEM_KB, exe], timeout=ISO_TIMEOUT)
        outs = p.stdout.split('\n')
        if p.returncode != 0 or len(outs) < 2 or not outs[1]:
            return fl
    return None


def run_histories(ctx, exe, defs, lines, label, env=None):
    """Every Execute of every history against a fresh object.  Failures: DIFF (used != fresh), exception, CRASH, HANG.
    A crash / hang is always reported with the history as replay: under history.crash / history.hang when the fresh
    object given the same paths and options survives (a genuine history dependence), under
    history.crash-on-fresh-object-too / history.hang-on-fresh-object-too when it fails alike (then the same failure needs
    no history -- it is reported here because an Execute that does not return cannot give "the same result as a freshly
    constructed object", and so that it is never swallowed; it is a C10 matter as well)."""
    t0 = time.time()
    outs, crashes = run_sharded(exe, lines, prefix=defs, env=env)
    nbad = nontriv = nfresh = nnotrun = 0
    seen_hang = False
    for line, out in zip(lines, outs):
        if out.startswith('OK'):
            t = out.split()
            ctx.count('executes_compared', int(t[1]))
            ops = line.split()[2:]
            hist_before = sum(1 for o in ops[:-1] if o[0] in 'XTL')
            if int(t[2]) > 0 and hist_before > 0:
                nontriv += 1
            continue
        if out == NOTRUN:
            nnotrun += 1
            continue
        nbad += 1
        if nbad > 3 and not (out == 'HANG' and not seen_hang):      # the first three failures and the first hang are examined
            continue
        seen_hang = seen_hang or out == 'HANG'
        extra = ''
        c = [c for c in crashes if c[0] == line]
        late = DEADLINE is not None and time.time() > DEADLINE
        if out in ('CRASH', 'HANG'):
            extra = ('rc=%s %s' % (c[0][1], c[0][2][-600:])) if c else ''
            fl = None if late else crash_on_fresh_object(exe, defs, line, env)
            if late:
                extra += ' (comparison with a fresh object skipped: the time budget of the tier is used up)'
            if fl is not None:
                nfresh += 1
                ctx.count('failures_also_on_fresh_object', 1)
                kind = 'crash' if out == 'CRASH' else 'hang'
                ctx.violation('history.%s-on-fresh-object-too' % kind,
                              '%s history %s: Execute %s (%s); a fresh object given the same paths and options does the same: `%s` -- no history '
                              'dependence, the call itself fails %s'
                              % ('ClipperD' if line.split()[1] == 'D' else 'Clipper64', ' '.join(line.split()[2:]),
                                 'crashes' if kind == 'crash' else 'does not return within %d s' % ISO_TIMEOUT, extra[:200],
                                 ' '.join(fl.split()[2:]), '(robustness, C10)'),
                              replay=dict(kind='H', defs=defs, line=fl, out=out, original_history=line, sets=SETS, containers=CONTS))
                continue
        try:
            mline, mout = minimise_history(exe, defs, line, budget=15) if (env is None and not late) else (line, out)
        except Exception:
            mline, mout = line, out
        if mout.startswith('OK'):          # not reproducible when run alone: report the original line
            mline, mout = line, out
        history_violation(ctx, 'H', mline, mout, defs, extra)
    ctx.count('evaluations', len(lines) - nnotrun)
    ctx.count('histories', len(lines) - nnotrun)
    if nnotrun:
        ctx.count('histories_not_run_after_a_hang_or_crash', nnotrun)
    ctx.cov['distinct_nontrivial'] = ctx.cov.get('distinct_nontrivial', 0) + nontriv
    ctx.log('%s: %d histories, %d failing%s%s, %.1fs' % (label, len(lines), nbad,
            (' (%d of the examined ones fail on a fresh object as well)' % nfresh) if nfresh else '',
            (', %d not run after a hang/crash' % nnotrun) if nnotrun else '', time.time() - t0))
    return outs, nbad


def run(ctx):
    thorough = not ctx.quick
    global SHARD_TIMEOUT, DEADLINE
    SHARD_TIMEOUT = 30 if ctx.quick else 240
    DEADLINE = None
    # ---- 1. regenerate + prove
    tie_break = None
    try:
        T = tables.generate(ctx.log)
        ctx.cov['fields_in_table'] = len(T['fields'])
        ctx.cov['call_edges'] = len(T['calls'])
    except Exception as e:            # clang cannot parse the tree any more
        T = None
        tie_break = 'cpp2v/tables.py failed: %s' % str(e)[-1500:]
        ctx.log(tie_break)
    pr = vf.coq_props(ctx, PID)
    proof_broken = not pr['ok']
    failing = None
    if proof_broken:
        failing = coq_eval_failing(ctx)
        ctx.log('PROOF BREAK: %s; failing members: %s' % ('; '.join(pr['failed'])[:600], failing))
        thorough = True                 # search with the larger budget
    ctx.assumptions += [
        'the sweep (ExecuteInternal/Build*) is a parameter of C12_refines: it may read the scratch state, the minima in their '
        'current order, has_open_paths_, the options and the call arguments -- and nothing else; members outside that list are '
        'covered by C12_fields_covered (regenerated table + hand-written policy with a justification per member)',
        'std::stable_sort(LocMinSorter) = the insertion specification ssort (C12_ssort_is_stable_sort proves ssort is the stable '
        'sort; equality with the library call is validated by the state correspondence on every run)',
        'offset: a closed path whose orientation is opposite to the lowest path of its group is a hole by the documented '
        'convention, so within one group only paths of one orientation are compared with "alone"',
        'empty paths in offset groups with an open end type are excluded (library UB, DESIGN 9.4, owned by C10)',
    ]
    ctx.cov['trusted_base'] = vf.TRUSTED_COMMON + [
        'cpp2v/tables.py (clang 14 JSON AST -> member/writer/call tables; over-approximates writes)',
        'hand-written policy table in coq/model/ObjectSM.v (classification and per-member justification comments)']

    # ---- 2. build
    defs = defs_line()
    try:
        with cf.ThreadPoolExecutor(max_workers=2) as ex:
            f1 = ex.submit(vf.build_cpp, ctx, 'cx_history.cpp', 'plain')
            f2 = ex.submit(vf.build_cpp, ctx, 'cx_history.cpp', 'asan')
            exe, exe_asan = f1.result(), f2.result()
    except vf.BuildFailure as e:
        ctx.violation('tie-break:cx_history-build', 'the C12 harness no longer compiles against the tree: %s' % str(e)[-800:],
                      replay=dict(kind='build', error=str(e)[-3000:]), nofail=True)
        return
    DEADLINE = time.time() + (210 if ctx.quick else 1500)        # from here on the library is executed
    asan_env = dict(ASAN_OPTIONS='detect_leaks=1:abort_on_error=0:exitcode=99:hard_rss_limit_mb=6000', UBSAN_OPTIONS='halt_on_error=1:print_stacktrace=1')

    # ---- 3. corpus first
    cdir = os.path.join(vf.VERIF, 'corpus', PID)
    for f in sorted(os.listdir(cdir)) if os.path.isdir(cdir) else []:
        if f.endswith('.case'):
            case = json.load(open(os.path.join(cdir, f)))
            decide_case(ctx, exe, case, origin='corpus/%s' % f)
            ctx.count('corpus_cases')

    # ---- 4. model correspondence (extracted ObjectSM vs the object's private state)
    if not proof_broken or (failing is not None):
        try:
            orc = vf.oracle_build('objsm')
            trl = ['TR ' + ' '.join(h) for h in itertools.chain.from_iterable(
                itertools.product(ALPHABET, repeat=n) for n in range(1, 4 if ctx.quick else 5)) if admissible(h)]
            r = ctx.rng.fork(1)
            trl += ['TR ' + ' '.join(o for o in random_history(r, 30) if o[0] != '@') for _ in range(400 if ctx.quick else 3000)]
            houts, crashes = run_sharded(exe, trl, prefix=defs)
            # a trace on which the library crashed / did not return (its Executes run the real sweep)
            for l, a in zip(trl, houts):
                if a in ('CRASH', 'HANG'):
                    hline = 'H 64 ' + l[3:]
                    fl = crash_on_fresh_object(exe, defs, hline)
                    kind = 'crash' if a == 'CRASH' else 'hang'
                    ctx.violation('history.%s%s' % (kind, '-on-fresh-object-too' if fl else ''),
                                  'Clipper64 history %s: an Execute %s%s' % (l[3:], 'crashes' if kind == 'crash' else 'does not return within %d s' % ISO_TIMEOUT,
                                                                           ('; a fresh object given the same paths and options does the same: `%s`' % ' '.join(fl.split()[2:])) if fl else ''),
                                  replay=dict(kind='H', defs=defs, line=fl or hline, out=a, sets=SETS, containers=CONTS))
                    break
            keep = [i for i, a in enumerate(houts) if a.startswith('TR')]
            if len(keep) < len(trl):
                ctx.count('traces_not_run_after_a_hang_or_crash', sum(1 for a in houts if a == NOTRUN))
            trl = [trl[i] for i in keep]; houts = [houts[i] for i in keep]
            oouts, ofails = vf.par_lines(orc, houts) if houts else ([], [])
            nd = 0
            for l, a, b in zip(trl, houts, oouts):
                if a != b:
                    nd += 1
                    if nd <= 2:
                        first = next((i for i, (x, y) in enumerate(zip(a.split(), b.split())) if x != y), -1)
                        ctx.violation('model.objsm-state-differs',
                                      'Clipper64 private state after `%s` differs from the ObjectSM model (first differing token %d): '
                                      'object %s... model %s...' % (l[3:], first, ' '.join(a.split()[max(0, first - 6):first + 6]),
                                                                   ' '.join(b.split()[max(0, first - 6):first + 6])),
                                      replay=dict(kind='TR', defs=defs, line=l, object=a[:3000], model=b[:3000]), nofail=True)
            ctx.count('model_state_traces', len(trl))
            ctx.count('evaluations', len(trl))
            ctx.log('ObjectSM correspondence: %d traces, %d differ' % (len(trl), nd))
            if trl:
                ctx.sample(dict(kind='TR', history=trl[777 % len(trl)][3:]))
        except vf.Infra as e:
            if not proof_broken:
                raise
            ctx.log('oracle not available while the proof is broken: %s' % str(e)[:200])

    # ---- 5. exhaustive and random histories vs fresh objects
    L = 6 if thorough else 5
    hl = ['H 64 ' + ' '.join(h) for h in enum_histories(L)]
    outs64, _ = run_histories(ctx, exe, defs, hl, 'exhaustive Clipper64 histories (length <= %d, %d ops)' % (L, len(ALPHABET)))
    ctx.hist('history_length', 'exhaustive<=%d' % L, len(hl))
    LD = 5 if thorough else 4
    hd = ['H D ' + ' '.join(h) for h in enum_histories(LD)]
    run_histories(ctx, exe, defs, hd, 'exhaustive ClipperD histories (length <= %d)' % LD)
    r = ctx.rng.fork(2)
    nrand = 60000 if thorough else 10000
    rl = []
    for i in range(nrand):
        h = random_history(r, 30, multi=(i % 3 == 0))
        rl.append('H %s %s' % ('D' if i % 4 == 3 else '64', ' '.join(h)))
        ctx.hist('history_length', 'random:%d-%d' % (len(h) // 10 * 10, len(h) // 10 * 10 + 9))
    run_histories(ctx, exe, defs, rl, 'random histories (length <= 31, up to 3 clippers sharing the containers)')
    ctx.sample(dict(kind='H', history=rl[0]))
    # two clippers alternating on one shared container, exhaustively over short interleavings
    alt = []
    for a in itertools.product(['R0', 'R1', 'R2', 'C2', 'X10', 'T21', 'L'], repeat=3):
        for b in itertools.product(['R0', 'R2', 'S0', 'X21', 'L'], repeat=2):
            seq = ['@0', a[0], '@1', b[0], '@0', a[1], '@1', b[1], '@0', a[2], 'X21', '@1', 'X10', '@0', 'T30']
            if admissible(seq):
                alt.append('H 64 ' + ' '.join(seq))
    run_histories(ctx, exe, defs, alt, 'two clippers used alternately on shared containers')
    # repeated runs are bit-identical (other process, other sharding)
    sub = hl[::7]
    o1, _ = run_sharded(exe, sub, prefix=defs, jobs=5)
    ref = dict(zip(hl, outs64))
    okr = lambda a, b: a.startswith('OK') and b.startswith('OK')       # crashes / hangs are reported by run_histories
    nrep = sum(1 for l, o in zip(sub, o1) if okr(ref[l], o) and ref[l] != o)
    ctx.count('repeat_runs_compared', len(sub))
    if nrep:
        l = next(l for l, o in zip(sub, o1) if okr(ref[l], o) and ref[l] != o)
        ctx.violation('history.repeat-run-differs', 'the same history gives different results in two runs: %s' % l,
                      replay=dict(kind='H', defs=defs, line=l))
    # ASan/UBSan on the short histories: stale scratch usually means dangling pointers
    la = ['H 64 ' + ' '.join(h) for h in enum_histories(3)] + rl[:(300 if ctx.quick else 1500)]
    run_histories(ctx, exe_asan, defs, la, 'ASan+UBSan build, short and random histories', env=asan_env)

    # ---- 6. offset: far-apart paths and groups vs alone
    cases = gen_off_cases(ctx, thorough)
    lines = [off_line(c['ml'], c['at'], c['pc'], c['rs'], c['delta'], c['groups'], c.get('cb', 0)) for c in cases]
    t0 = time.time()
    outs, crashes = run_sharded(exe, lines)
    nfail = {}
    for c, line, out in zip(cases, lines, outs):
        ctx.hist('offset_cases', c['tag'])
        if out.startswith('SKIP'):
            ctx.count('offset_skipped_ub')
            continue
        if out == NOTRUN:
            ctx.count('offset_cases_not_run_after_a_hang_or_crash')
            continue
        res = parse_off(out) if out.startswith('OK') else None
        if res is None:
            ctx.violation('offset.crash' if out == 'CRASH' else ('offset.hang' if out == 'HANG' else 'offset.exception'),
                          'offset case failed: the harness answered %s' % out[:300], replay=dict(kind='OFF', line=line, out=out[:500]))
            continue
        for key, what in classify_off(c, res):
            nfail[key] = nfail.get(key, 0) + 1
            if nfail[key] == 1 or cost(c) < nfail.get('_best_' + key, 1 << 60):
                nfail['_best_' + key] = cost(c)
                # keep the smallest failing input per key: re-record (Ctx keeps the first per key -> record smallest at the end)
                nfail['_case_' + key] = (what, dict(kind='OFF', line=line, groups=c['groups'], delta=c['delta'], layout=c['layout'], callback_mode=c.get('cb', 0),
                                                    options=dict(miter_limit=c['ml'], arc_tolerance=c['at'], preserve_collinear=c['pc'],
                                                                 reverse_solution=c['rs'])))
    for key in [k for k in nfail if not k.startswith('_')]:
        what, rep = nfail['_case_' + key]
        ctx.violation(key, '%s  [%d failing cases]' % (what, nfail[key]), replay=rep)
    ctx.count('evaluations', len(lines))
    ctx.count('offset_cases_total', len(lines))
    ctx.cov['offset_failing_by_key'] = {k: v for k, v in nfail.items() if not k.startswith('_')}
    ctx.log('offset: %d cases, failing by key %s, %.1fs' % (len(lines), ctx.cov['offset_failing_by_key'], time.time() - t0))
    ctx.sample(dict(kind='OFF', line=lines[len(lines) // 2][:300]))

    # ---- 6b. the OffsetPlan model (C12_plan_* theorems) vs the member values the library uses for every path, and
    # check_reverse vs CheckReverseOrientation (observer correspondence shared with C06/C07)
    try:
        from checks.C07 import enum_plan_cases, gen_mixture
        To = oc.Tools(ctx)
        r3 = ctx.rng.fork(3)
        pcs = enum_plan_cases(full=thorough) + [gen_mixture(r3, allow_polygon=True) for _ in range(6000 if thorough else 600)]
        pcs += [dict(ml=c['ml'], at=c['at'], pc=c['pc'], rev=c['rs'], delta=c['delta'],
                     groups=[dict(jt=jt, et=et, paths=paths) for (jt, et, paths) in c['groups']])
                for c in cases if c['tag'].startswith('groups') or c['tag'] == 'paths-rev']
        nbreak, _ = oc.plan_tie(ctx, To, pcs, 'C12 plan', 'c12-plan')
        ctx.log('plan tie: %d cases, %d breaks' % (len(pcs), nbreak))
    except vf.BuildFailure as e:
        ctx.violation('tie-break:cx_offset-build', 'the offset harness no longer builds against the tree (a modelled member or function changed): %s'
                      % str(e)[-600:], replay=dict(kind='build', error=str(e)[-3000:]), nofail=True)

    # ---- 7. RectClip64 / RectClipLines64 object reuse
    rcl = gen_rc_lines(thorough)
    outs, crashes = run_sharded(exe, rcl)
    nb = 0
    for l, o in zip(rcl, outs):
        if o == NOTRUN:
            ctx.count('rect_cases_not_run_after_a_hang_or_crash')
            continue
        if not o.startswith('OK'):
            nb += 1
            if nb == 1:
                ctx.violation('rect.reuse-differs' if o.startswith('DIFF') else ('rect.hang' if o == 'HANG' else 'rect.crash'),
                              'RectClip%s64 object reuse / concatenation differs from fresh objects: %s' % ('Lines' if l.split()[1] == '1' else '', o[:300]),
                              replay=dict(kind='RC', line=l, out=o[:1500]))
    ctx.count('evaluations', len(rcl))
    ctx.count('rect_cases', len(rcl))
    ctx.log('rect: %d cases, %d failing' % (len(rcl), nb))

    ctx.cov['rule'] = ('histories: every sequence over the %d-op alphabet %s of length <= %d ending in an Execute (Clipper64; ClipperD '
                       '<= %d), seeded random histories of length <= 31 over all clip types/fill rules/sets with up to 3 clippers, each '
                       'Execute compared bit for bit with a fresh object; non-trivial = a non-empty result after at least one earlier '
                       'Execute or Clear. offset: all orders of <= %d far-apart paths per group for 4 join x 5 end types, all orders of '
                       '<= 3 of 8 groups. rect: ordered pairs of path lists.' % (len(ALPHABET), ALPHABET, L, LD, 4 if thorough else 3))

    # ---- 8. decide about a broken proof / tie
    concrete = any(not v['nofail'] for v in ctx.violations) or bool(ctx.known_hits)
    if tie_break:
        ctx.violation('tie-break:tables', tie_break, replay=dict(kind='tables', error=tie_break), nofail=True)
    if proof_broken:
        what = 'Properties_C12 does not check any more: %s' % ('; '.join(pr['failed'])[:500])
        if failing:
            what += ' | members failing field_ok: %s | stale policy entries: %s' % (failing[0], failing[1])
        new_concrete = [v for v in ctx.violations if not v['nofail'] and not v['key'].startswith('offset.')]
        ctx.violation('proof-break:C12', what, replay=dict(kind='proof', failed=pr['failed'], failing_members=failing,
                                                         log=pr['log'][-3000:]), nofail=not new_concrete)


def cost(c):
    # prefer few groups/paths, and paths with an area (clearer reproducers) over points
    return (sum(len(p) + (6 if 0 < len(p) < 3 else 0) for g in c['groups'] for p in g[2]) + 10 * len(c['groups'])
            + (0 if c['layout'] == 'diag' else 1))


def decide_case(ctx, exe, case, origin=''):
    kind = case['kind']
    if kind in ('H', 'TR'):
        defs = case.get('defs') or defs_line()
        p = vf.run_lines(exe, [defs, case['line']], timeout=30)
        outs = p.stdout.split('\n')
        out = outs[1] if len(outs) > 1 and outs[1] else ('HANG' if getattr(p, 'timed_out', False) else 'CRASH')
        ctx.count('evaluations')
        if kind == 'H' and not out.startswith('OK'):
            history_violation(ctx, 'H', case['line'], out, defs, origin)
        if kind == 'TR':
            orc = vf.oracle_build('objsm')
            q = vf.run_lines(orc, [out]).stdout.strip()
            if q != out:
                ctx.violation('model.objsm-state-differs', 'state trace differs from the model for %s' % case['line'],
                              replay=dict(case, object=out[:3000], model=q[:3000]), nofail=True)
        return out
    if kind == 'OFF':
        p = vf.run_lines(exe, [case['line']], timeout=120)
        out = p.stdout.split('\n')[0] if p.stdout else 'CRASH'
        ctx.count('evaluations')
        res = parse_off(out) if out.startswith('OK') else None
        if res is None:
            if not out.startswith('SKIP'):
                ctx.violation('offset.crash', 'offset case failed: %s %s' % (out[:300], origin), replay=case)
            return out
        t = case['line'].split()
        cbm = 0
        if t[0] == 'OFFCB':
            cbm = int(t[1])
            t = ['OFF'] + t[2:]
        c = dict(delta=float.fromhex(t[5]), groups=[], cb=cbm, ml=float.fromhex(t[1]), at=float.fromhex(t[2]), pc=int(t[3]), rs=int(t[4]))
        pos, ng = 7, int(t[6])
        for _ in range(ng):
            jt, et = int(t[pos]), int(t[pos + 1])
            paths, pos = vf.parse_paths(t, pos + 2)
            c['groups'].append((jt, et, paths))
        for key, what in classify_off(c, res):
            ctx.violation(key, what + (' [%s]' % origin if origin else ''), replay=case)
        return out
    if kind == 'c12-plan':
        from checks.C07 import norm_case
        oc.plan_tie(ctx, oc.Tools(ctx), [norm_case(case['case'])], 'C12 plan', 'c12-plan')
        return 'plan tie replayed'
    if kind == 'RC':
        p = vf.run_lines(exe, [case['line']], timeout=120)
        out = p.stdout.split('\n')[0] if p.stdout else 'CRASH'
        ctx.count('evaluations')
        if not out.startswith('OK'):
            ctx.violation('rect.reuse-differs', 'RectClip reuse differs: %s %s' % (out[:300], origin), replay=case)
        return out
    ctx.log('replay of kind %s: nothing to execute (%s)' % (kind, str(case)[:300]))
    return None


def replay(ctx, path):
    d = json.load(open(path))
    case = d.get('replay', d)
    ctx.sample(dict(replayed=os.path.basename(path), kind=case.get('kind'), line=str(case.get('line', ''))[:300]))
    ctx.cov['rule'] = 'replay of one recorded case'
    if case.get('kind') in ('proof', 'tables', 'build'):
        run(ctx)
        return
    exe = vf.build_cpp(ctx, 'cx_history.cpp', 'plain')
    out = decide_case(ctx, exe, case, origin='replay')
    ctx.log('replay output: %s' % (out or '')[:400])
